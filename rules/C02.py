"""C02 - extracting or splitting a sequence partitions its notes and carries state over (DESIGN.md §4 C02)."""
import ast

from sa import own, cov, nf, roles, astutil as U
from sa.roles import Canon
from sa.loader import norm_text, dotted
from sa.selftest import Mutant

PROPERTY = 'C02'
SL = 'sequences_lib'
F = 'note_seq/sequences_lib.py'
LEVEL_TEXT = (
    'Structural necessary conditions of the extract/split contract, decided for all inputs and split vectors: the input is never '
    'written (ownership analysis, including through the four public wrappers); the seven cleared event kinds are exactly the '
    'documented ones and all but pitch_bends are repopulated; the boundary relations that define "note starting in [t_i, t_i+1)", '
    '"boundary state events go to the later piece" and "beats land in the piece that contains them" are the stated strict/non-strict '
    'comparisons in all four traversals, compared in a normal form that is insensitive to flips and negations; every re-based time '
    'subtracts the split time of the piece it was appended to; pedal state is keyed by (instrument, control number); the '
    'subsequence_info formulas; the split-point rules of the three splitters (hop multiples, strict crossing test in both splitters '
    'that have the option, genuine-change test against the running value, strict silence gap with a max-reduced last-active time, '
    'tail piece iff total_time > last split). The loops\' behaviour over all inputs (exactly-once, in-effect-at-every-instant) is '
    'not decided as a whole: only the relations that define it.')
LEVEL_NOTE = 'Trusted: protobuf copy semantics; the spec rows (relations) are read off the property statement and the function docstrings.'
TECHNIQUE = 'static analysis: ownership/points-to, cleared/repopulated field sets from the write log, comparison normal forms at dataflow-located roles (guard relations), def-use of re-basing operands'
DESIGN_REF = 'DESIGN.md section 4 (C02)'
EXPLANATION = (
    'OWN on trim/_extract_subsequences/extract_subsequence/3 splitters; REBUILD (cleared vs repopulated repeated fields from the '
    'write log; filters for chord symbols, beats, preserved controllers; default controllers fold to {64,66,67}); GRD rows per '
    'traversal (skip / advance / include relations in CompareNF); REBASE operands; KEY (pedal dictionary key tuple, both carry '
    'loops over .values()); INFO formulas in rational normal form; SPLIT rows per splitter; ESC precondition classes.')
TRUSTED = ['protobuf copy semantics', 'spec rows taken from the property statement']
NOT_DECIDED = ['"appears exactly once / no other notes" and "state in effect at every instant" as behaviours of the loops over all inputs']
ASSUMPTIONS = []
# rules whose verdict does not depend on how the statements are arranged (semantic analyses); all other rules are shape rules:
# when one of those fails in a function that was restructured relative to reference/signatures.json the verdict is "cannot decide"
ROBUST = ('OWN/write', 'OWN/return')
FLOORS = {'OWN': 100, 'REBUILD': 8, 'GRD': 14, 'REBASE': 5, 'KEY': 4, 'INFO': 2, 'SPLIT': 12, 'ESC': 3}

CLEARED = {'notes', 'time_signatures', 'key_signatures', 'tempos', 'text_annotations', 'control_changes', 'pitch_bends'}
DROPPED = {'pitch_bends'}


def E(text):
  return U.E(text)


def conj(test):
  if isinstance(test, ast.BoolOp) and isinstance(test.op, ast.And):
    out = []
    for v in test.values:
      out.extend(conj(v))
    return out
  return [test]


def has_cmp(tests, want_text, env=None, polarity=True):
  """Does one of the conjunct tests equal the wanted comparison (normal form)?"""
  want = nf.compare_nf(E(want_text))
  for t in tests:
    try:
      c = nf.compare_nf(t, env, polarity)
    except nf.NFError:
      c = None
    if c is not None and nf.compare_equal(c, want):
      return True
  return False


def state_in_force_is_latest(ctx, rule):
  """Location-independent: the state carried into the first piece (tempo, time signature, key, chord) is the one *in force* at
  the first split time: the latest event at or before it.  Taking it with next(<events in ascending time order> if time <= t)
  yields the earliest such event; the search must run from the end (reversed / descending) or overwrite while walking forward."""
  fi = ctx.func(SL + ':_extract_subsequences')
  fn = fi.node
  n = 0
  for c in U.calls_in(fn):
    if not (dotted(c.func) == 'next' and c.args and isinstance(c.args[0], ast.GeneratorExp)):
      continue
    g = c.args[0].generators[0]
    if not any(isinstance(x, ast.Compare) and isinstance(x.ops[0], (ast.LtE, ast.Lt, ast.GtE, ast.Gt)) and any(isinstance(y, ast.Attribute) and y.attr == 'time' for y in ast.walk(x)) for f in g.ifs for x in ast.walk(f)):
      continue
    n += 1
    src = U.expand_locals(fn, g.iter, at=c)
    desc = (isinstance(src, ast.Call) and dotted(src.func) == 'reversed') or \
        (isinstance(src, ast.Call) and dotted(src.func) == 'sorted' and any(k.arg == 'reverse' and isinstance(k.value, ast.Constant) and k.value.value is True for k in src.keywords)) or \
        (isinstance(src, ast.Subscript) and isinstance(src.slice, ast.Slice) and U.const_value(src.slice.step) == -1)
    asc = isinstance(src, ast.Call) and dotted(src.func) == 'sorted' and not desc
    cons = 'the state carried into the first piece is the latest event at or before the first split'
    if desc:
      ctx.ob(rule, fi, c, True, 'the search runs from the latest event backwards', construct=cons)
    elif asc:
      ctx.ob(rule, fi, c, False, '%s takes the first match in ascending time order, i.e. the *earliest* event at or before the first split time: with two tempo (time / key signature, chord) '
             'events before the window the older one is carried in although the later one is in force' % norm_text(c)[:70], construct=cons, definite=True)
    else:
      why = 'cannot classify: the order of %s is not known' % norm_text(g.iter)[:50]
      ctx.ob(rule, fi, c, False, why, construct=cons, unknown=why)
  if n == 0:
    ctx.ob(rule, fi, fn, True, 'the carried state is not taken with a first-match search', construct='the state carried into the first piece is the latest event at or before the first split')


def touching_is_not_crossing(ctx, rule):
  """Location-independent, comparison by comparison: with skip_splits_inside_notes a split point is dropped only if a note is
  *sustained across* it: starts before and ends after.  A note that ends exactly at the point, or starts exactly there, is not
  sustained across it.  Whatever form the sweep takes (a loop with a running list, a helper with all()/any(), a comprehension),
  every comparison between a note's start_time / end_time and the candidate time is evaluated twice (sa.scenario): with the note
  clearly across (start one unit before / end one unit after) and with the note touching (start == time / end == time).  The two
  answers must differ; a comparison that gives the same answer for both treats a touching note as crossing (or vice versa)."""
  from sa import scenario
  for name in ('split_note_sequence', 'split_note_sequence_on_time_changes'):
    fi = ctx.func(SL + ':' + name)
    fn = fi.node
    found = {'start_time': 0, 'end_time': 0}
    for c in ast.walk(fn):
      if not (isinstance(c, ast.Compare) and len(c.ops) == 1 and isinstance(c.ops[0], (ast.Lt, ast.LtE, ast.Gt, ast.GtE))):
        continue
      for a, b in ((c.left, c.comparators[0]), (c.comparators[0], c.left)):
        if not (isinstance(a, ast.Attribute) and a.attr in found):
          continue
        if any(isinstance(x, ast.Attribute) and x.attr in ('start_time', 'end_time', 'total_time') for x in ast.walk(b)) or U.const_value(b) is not None:
          continue
        if isinstance(a.value, ast.Name) and a.value.id in fi.params():
          continue
        at, bt = norm_text(a), norm_text(b)
        delta = '- 1' if a.attr == 'start_time' else '+ 1'
        try:
          across = scenario.tv(c, scenario.subst_of([(at, '%s %s' % (bt, delta))]))
          touch = scenario.tv(c, scenario.subst_of([(at, bt)]))
        except Exception:      # pylint: disable=broad-except
          across = touch = None
        found[a.attr] += 1
        cons = '%s: %s separates "across" from "touching"' % (name, norm_text(c))
        if across is None or touch is None:
          why = 'cannot classify: %s cannot be evaluated at %s == %s' % (norm_text(c), at, bt)
          ctx.ob(rule, fi, c, False, why, construct=cons, unknown=why)
        elif across != touch:
          ctx.ob(rule, fi, c, True, '%s is %s for a note across the point and %s for one that %s exactly there' % (norm_text(c), across, touch, 'starts' if a.attr == 'start_time' else 'ends'),
                 construct=cons)
        else:
          ctx.ob(rule, fi, c, False, '%s gives %s both for a note sustained across the point (%s == %s %s) and for a note that only %s exactly there (%s == %s): a split point that '
                 'coincides with a note %s is %s' % (norm_text(c), across, at, bt, delta, 'starts' if a.attr == 'start_time' else 'ends', at, bt,
                                                      'start' if a.attr == 'start_time' else 'end',
                                                      'skipped although no note is sustained across it' if (across if a.attr == 'end_time' else across) else 'treated like a clear one'),
                 construct=cons, definite=True)
    if not found['end_time']:
      why = 'cannot classify: %s has no comparison between a note end and the candidate split time; how "sustained across" is decided is not recognised' % name
      ctx.ob(rule, fi, fn, False, why, construct='%s: note ends are compared with the candidate time' % name, unknown=why)


def run(ctx):
  from sa import pitfalls
  pitfalls.apply(ctx, 'PITFALL', [ctx.func(SL + ':' + n_) for n_ in ('trim_note_sequence', '_extract_subsequences', 'extract_subsequence', 'split_note_sequence',
                                                                     'split_note_sequence_on_time_changes', 'split_note_sequence_on_silence')], ['mergefrom-as-assignment'], {
      'mergefrom-as-assignment': 'a piece cut from a sequence that is itself a piece keeps the offsets of the earlier cut wherever the new offset is 0'})
  touching_is_not_crossing(ctx, 'SPLIT/touching-is-not-crossing')
  state_in_force_is_latest(ctx, 'STATE/in-force-is-latest')
  for name in ('trim_note_sequence', '_extract_subsequences', 'extract_subsequence', 'split_note_sequence',
               'split_note_sequence_on_time_changes', 'split_note_sequence_on_silence'):
    ptypes, consts, borrowed, _r = own.RETURNS_NEW[name]
    own.check_borrowed(ctx, SL + ':' + name, ptypes, consts, borrowed)
  fi = ctx.func(SL + ':_extract_subsequences')
  first_boundary(ctx, fi)
  from rules import C12 as _c12      # a stream merged or searched as if it were sorted (heapq.merge, bisect) must be sorted whatever the storage order
  _c12.assumes_sorted_in(ctx, ('_extract_subsequences', 'split_note_sequence', 'split_note_sequence_on_time_changes', 'split_note_sequence_on_silence', 'extract_subsequence', 'trim_note_sequence'))
  unit_advance(ctx, fi)
  carry_after_break(ctx, fi)
  rebuild(ctx, fi)
  loops = locate_loops(ctx, fi)
  boundaries(ctx, fi, loops)
  rebase(ctx, fi, loops)
  pedal_key(ctx, fi, loops)
  info(ctx, fi)
  preconditions(ctx, fi)
  trim(ctx)
  split_hop(ctx)
  split_time_changes(ctx)
  split_silence(ctx)
  wrappers(ctx)


def first_boundary(ctx, fi):
  """Location-independent, by boundary scenario (sa.scenario): a note that starts, or a beat that lies, *exactly* on
  split_times[0] belongs to the first piece (pieces are half-open [t_i, t_i+1)).  Every condition in _extract_subsequences that
  compares such an element's time with split_times[0] is evaluated under `time == split_times[0]`: a filter that selects the
  elements must not come out false, a guard that skips them (`if ...: continue / break`) must not come out true."""
  from sa import scenario
  fn = fi.node
  pm = U.parents(fn)

  def binder_source(name, at):
    cur = pm.get(id(at))
    while cur is not None:
      if isinstance(cur, ast.For) and isinstance(cur.target, ast.Name) and cur.target.id == name:
        return cur.iter
      if isinstance(cur, (ast.ListComp, ast.GeneratorExp, ast.SetComp)):
        for g in cur.generators:
          if isinstance(g.target, ast.Name) and g.target.id == name:
            return cur
      cur = pm.get(id(cur))
    return None

  def kind_of(src):
    seen = 0
    while src is not None and seen < 6:
      seen += 1
      if isinstance(src, ast.Call) and dotted(src.func) in ('sorted', 'list', 'tuple', 'reversed', 'iter') and src.args:
        src = src.args[0]
      elif isinstance(src, ast.Name):
        x = U.expand_locals(fn, src)
        if norm_text(x) == norm_text(src):
          return None
        src = x
      else:
        break
    t = norm_text(src) if src is not None else ''
    if '.notes' in t and '.text_annotations' not in t:
      return 'note'
    if '.text_annotations' in t and 'BEAT' in t and 'CHORD_SYMBOL' not in t:
      return 'beat'
    return None
  for c in ast.walk(fn):
    if not isinstance(c, ast.Compare):
      continue
    ops = [c.left] + list(c.comparators)
    if not any(norm_text(o) == 'split_times[0]' for o in ops):
      continue
    tm = [o for o in ops if isinstance(o, ast.Attribute) and o.attr in ('time', 'start_time') and isinstance(o.value, ast.Name)]
    if len(tm) != 1:
      continue
    kind = kind_of(binder_source(tm[0].value.id, c))
    if kind is None:
      continue
    sb = scenario.subst_of([(norm_text(tm[0]), 'split_times[0]')])
    # the role of the comparison: part of a comprehension filter, or of the test of a skipping guard
    top = c
    par = pm.get(id(top))
    while isinstance(par, (ast.BoolOp, ast.UnaryOp)):
      top, par = par, pm.get(id(par))
    val = scenario.tv(top, sb)
    if isinstance(par, ast.comprehension) and any(top is f for f in par.ifs):
      if val is None:
        continue
      ok = val is not False
      role = 'the filter %s' % norm_text(top)
    elif isinstance(par, ast.If) and par.test is top and U._terminal(par.body) and not par.orelse:
      if val is None:
        continue
      ok = val is not True
      role = 'the skipping guard %s' % norm_text(top)
    else:
      continue
    ctx.ob('GRD/first-boundary', fi, c, ok, 'a %s exactly on split_times[0] is kept (%s)' % (kind, role) if ok else
           '%s excludes a %s whose time equals split_times[0]: pieces are half-open [t_i, t_i+1), so a %s exactly at the start of the extracted range is lost' % (role, kind, kind),
           construct='%s exactly on the first split time' % kind, definite=True)


def unit_advance(ctx, fi):
  """Location-independent: the event traversals of _extract_subsequences walk a piece index forward and, for every piece they
  enter, write the carried state (pedals, tempo, key, ...) at its beginning.  The index must therefore advance one piece at a
  time (`idx += 1`, `idx = idx + 1`) inside the catch-up loop; an index that is *assigned* the piece an event falls into
  (bisect, arithmetic) jumps over the pieces in between, which then start without the state in force."""
  fn = fi.node
  for lp in ast.walk(fn):
    if not (isinstance(lp, ast.For) and isinstance(lp.iter, ast.Call) and dotted(lp.iter.func) == 'sorted'):
      continue
    # only traversals that carry state from one event to the pieces after it: the loop variable is remembered beyond the iteration
    # (previous_pedal_events[key] = pedal_event, state = event).  The note traversal carries nothing: its index may jump.
    var = lp.target.id if isinstance(lp.target, ast.Name) else None
    carries = var is not None and any(isinstance(s, ast.Assign) and isinstance(s.value, ast.Name) and s.value.id == var and
                                      isinstance(s.targets[0], (ast.Name, ast.Subscript)) for s in U.walk_stmts(lp))
    if not carries:
      continue
    idx = set(norm_text(x.slice) for x in ast.walk(lp) if isinstance(x, ast.Subscript) and norm_text(x.value) == 'subsequences' and isinstance(x.slice, ast.Name))
    for s in U.walk_stmts(lp):
      if not (isinstance(s, ast.Assign) and len(s.targets) == 1 and isinstance(s.targets[0], ast.Name) and s.targets[0].id in idx):
        continue
      name = s.targets[0].id
      try:
        d = (nf.rat(U.expand_locals(fn, s.value, at=s)) - nf.rat(E(name))).const_value()
      except (nf.NFError, AttributeError):
        d = None
      if d == 1:
        continue
      ranged = any(isinstance(r, ast.For) and isinstance(r.iter, ast.Call) and dotted(r.iter.func) == 'range' and
                   any(isinstance(x, ast.Subscript) and norm_text(x.value) == 'subsequences' for x in ast.walk(r)) for r in ast.walk(lp) if r is not lp)
      ctx.ob('STATE/unit-advance', fi, s, ranged, 'the pieces in between are visited by a range loop' if ranged else
             '%s moves the piece index to where the event falls without visiting the pieces in between: they receive no carried state at their beginning '
             '(a pedal held across several pieces is only written into the piece of the next pedal event)' % norm_text(s), construct='piece index advances one piece at a time', definite=True)


def carry_after_break(ctx, fi, rule='STATE/carry-after-break'):
  """Location-independent: a state-carrying traversal of _extract_subsequences ends by writing the state in force into every piece
  that no event opened.  When that closing step is the `else` branch of the `for`, a `break` skips it; a break taken under a
  condition that says nothing about the piece index (how many pieces have been opened) then leaves the remaining pieces - possibly
  all of them - without the state in force at their start."""
  fn = fi.node
  n = 0
  for lp in ast.walk(fn):
    if not (isinstance(lp, ast.For) and isinstance(lp.iter, ast.Call) and dotted(lp.iter.func) == 'sorted'):
      continue
    var = lp.target.id if isinstance(lp.target, ast.Name) else None
    carries = var is not None and any(isinstance(s, ast.Assign) and isinstance(s.value, ast.Name) and s.value.id == var and
                                      isinstance(s.targets[0], (ast.Name, ast.Subscript)) for s in U.walk_stmts(lp))
    if not carries:
      continue
    n += 1
    cons = 'the closing carry of the traversal at line %d runs after every exit of the loop' % lp.lineno
    writes_in_else = [c for s_ in lp.orelse for c in ast.walk(s_) if isinstance(c, ast.Call) and isinstance(c.func, ast.Attribute) and c.func.attr in ('extend', 'append', 'add', 'CopyFrom', 'MergeFrom')]
    if not writes_in_else:
      ctx.ob(rule, fi, lp, True, 'the traversal has no else branch that writes pieces: what follows the loop runs after a break as well', construct=cons)
      continue
    idx = set(x.id for s_ in lp.orelse for x in ast.walk(s_) if isinstance(x, ast.Name) and isinstance(x.ctx, ast.Load)) & \
        set(t.id for s_ in U.walk_stmts(lp) for t in ([s_.target] if isinstance(s_, ast.AugAssign) else []) if isinstance(t, ast.Name))
    breaks = [b for b in ast.walk(lp) if isinstance(b, ast.Break) and U.enclosing_loops(fn, b) and U.enclosing_loops(fn, b)[-1] is lp]
    bad = []
    for b in breaks:
      conds = U.path_conditions(lp, b)
      if not any(isinstance(x, ast.Name) and x.id in idx for t, _p in conds for x in ast.walk(t)):
        bad.append((b, conds))
    if not breaks:
      ctx.ob(rule, fi, lp, True, 'no break leaves the traversal: the else branch always runs', construct=cons)
    elif bad and idx:
      b, conds = bad[0]
      ctx.ob(rule, fi, b, False, 'the carry-forward into the pieces no event opened is the `else` branch of the loop, which a break skips; the break at line %d is taken when %s, a condition that '
             'does not involve the piece index %s: an event after the last split time ends the traversal while pieces (all of them, if it comes first) have not received the '
             'state in force at their start' % (b.lineno, ' and '.join(('' if p else 'not ') + norm_text(t) for t, p in conds) or 'reached', '/'.join(sorted(idx))), construct=cons, definite=True)
    else:
      why = 'cannot classify: whether the breaks of the traversal at line %d leave pieces without the closing carry (it is in the else branch)' % lp.lineno
      ctx.ob(rule, fi, lp, False, why, construct=cons, unknown=why)
  if n == 0:
    why = 'cannot classify: no state-carrying sorted traversal found in _extract_subsequences'
    ctx.ob(rule, fi, fn, False, why, construct='closing carry after every exit', unknown=why)


# ------------------------------------------------------------------ S2
def rebuild(ctx, fi):
  res = ctx.analyze(SL + ':_extract_subsequences', {'sequence': own.NS}, {})
  ws = [w for w in cov.result_writes(res) if not w.chain]
  cleared = set()
  filled = set()
  for w in ws:
    if len(w.path) == 1 and w.op == 'del' and isinstance(w.node, ast.Subscript) and isinstance(w.node.slice, ast.Slice) and \
        w.node.slice.lower is None and w.node.slice.upper is None:
      cleared.add(w.path[0])
    if len(w.path) == 1 and w.op in ('call:extend', 'call:add', 'call:append'):
      filled.add(w.path[0])
  ok = cleared == CLEARED
  ctx.ob('REBUILD/cleared', fi, fi.node, ok, 'cleared fields are the seven documented event kinds' if ok else
         'cleared fields %s differ from the documented %s: %s' % (sorted(cleared), sorted(CLEARED),
                                                                   'events of %s are copied wholesale into every piece' % sorted(CLEARED - cleared) if CLEARED - cleared else 'extra fields cleared'),
         construct='cleared repeated fields')
  for f in sorted(CLEARED - DROPPED):
    ok = f in filled
    ctx.ob('REBUILD/repopulated', fi, fi.node, ok, '%s is repopulated' % f if ok else '%s is cleared and never repopulated: that event kind is lost' % f,
           construct='%s repopulated' % f)
  for f in sorted(DROPPED):
    ok = f not in filled
    ctx.ob('REBUILD/dropped', fi, fi.node, ok, '%s is dropped as documented' % f if ok else '%s is documented as dropped but is repopulated' % f,
           construct='%s dropped' % f)
  # filters
  comps = [n for n in ast.walk(fi.node) if isinstance(n, ast.ListComp)]
  chord = [c for c in comps if norm_text(c.generators[0].iter).endswith('.text_annotations') and
           any(has_cmp([t], 'annotation.annotation_type == CHORD_SYMBOL', {c.generators[0].target.id: E('annotation')}) for t in c.generators[0].ifs)]
  ctx.ob('REBUILD/filter', fi, chord[0] if chord else fi.node, len(chord) == 1, 'chord symbols are selected by annotation_type == CHORD_SYMBOL' if len(chord) == 1 else
         'no selection of CHORD_SYMBOL annotations for the stateful pass', construct='stateful annotations: annotation_type == CHORD_SYMBOL')
  beat = [c for c in comps if norm_text(c.generators[0].iter).endswith('.text_annotations') and
          any(isinstance(t, ast.Compare) and isinstance(t.ops[0], (ast.In, ast.Eq)) and 'BEAT' in norm_text(t.comparators[0]) and
              norm_text(t.left).endswith('.annotation_type') for t in c.generators[0].ifs)]
  ctx.ob('REBUILD/filter', fi, beat[0] if beat else fi.node, len(beat) == 1, 'beats are selected by annotation_type' if len(beat) == 1 else
         'no selection of BEAT annotations for the stateless pass', construct='stateless annotations: annotation_type in (BEAT,)')
  ped = [c for c in comps if norm_text(c.generators[0].iter).endswith('.control_changes') and
         any(isinstance(t, ast.Compare) and isinstance(t.ops[0], ast.In) and norm_text(t.left).endswith('.control_number') and
             norm_text(t.comparators[0]) == 'preserve_control_numbers' for t in c.generators[0].ifs)]
  ctx.ob('REBUILD/filter', fi, ped[0] if ped else fi.node, len(ped) == 1, 'pedal events are those whose control_number is in preserve_control_numbers' if len(ped) == 1 else
         'pedal selection is not "control_number in preserve_control_numbers"', construct='pedal events: control_number in preserve_control_numbers')
  mi = fi.module
  v = mi.assigns.get('DEFAULT_SUBSEQUENCE_PRESERVE_CONTROL_NUMBERS', [])
  vals = None
  if len(v) == 1 and isinstance(v[0], (ast.Tuple, ast.List)):
    vals = set(U.const_value(e) for e in v[0].elts)
  ok = vals == {64, 66, 67}
  ctx.ob('REBUILD/default-controllers', mi, v[0] if v else fi.node, ok, 'default preserved controllers fold to {64, 66, 67}' if ok else
         'default preserved controllers fold to %s, the property names CC 64/66/67' % (sorted(vals) if vals else None), construct='DEFAULT_SUBSEQUENCE_PRESERVE_CONTROL_NUMBERS')
  dflt = [s for s in fi.node.body if isinstance(s, ast.If) and has_cmp([s.test], 'preserve_control_numbers == None') or
          (isinstance(s, ast.If) and norm_text(s.test) == 'preserve_control_numbers is None')]
  ok = len(dflt) == 1 and any(norm_text(x) == 'preserve_control_numbers = DEFAULT_SUBSEQUENCE_PRESERVE_CONTROL_NUMBERS' for x in dflt[0].body)
  ctx.ob('REBUILD/default-controllers', fi, dflt[0] if dflt else fi.node, ok, 'None selects the default controllers' if ok else 'None no longer selects the default controllers',
         construct='preserve_control_numbers is None -> default')


# ------------------------------------------------------------------ loops
def locate_loops(ctx, fi):
  """Find the four traversals by what they iterate."""
  out = {}
  for n in ast.walk(fi.node):
    if not (isinstance(n, ast.For) and isinstance(n.iter, ast.Call) and dotted(n.iter.func) == 'sorted' and n.iter.args):
      continue
    src = n.iter.args[0]
    stxt = norm_text(src)
    if stxt.endswith('.notes'):
      out['notes'] = n
      continue
    if isinstance(src, ast.Name):
      v = cov.local_value(fi.node, src.id, n)
      if isinstance(v, ast.ListComp) and norm_text(v.generators[0].iter).endswith('.control_changes'):
        out['pedal'] = n
        continue
    var = n.target.id if isinstance(n.target, ast.Name) else None
    carries = any(isinstance(s, ast.Assign) and isinstance(s.value, ast.Name) and s.value.id == var and isinstance(s.targets[0], ast.Name)
                  for s in U.walk_stmts(n))
    out['state' if carries else 'beats'] = n
  for k in ('notes', 'state', 'beats', 'pedal'):
    ctx.require(k in out, '_extract_subsequences: the %s traversal was not found' % k)
    key = next((kw.value for kw in out[k].iter.keywords if kw.arg == 'key'), None)
    ctx.require(key is not None, '_extract_subsequences: the %s traversal is not sorted with a key' % k)
  return out


def _time_attr(kind):
  return 'start_time' if kind == 'notes' else 'time'


def _idx_name(loop):
  """The piece-index variable: the name incremented in the while loop of the traversal."""
  for n in ast.walk(loop):
    if isinstance(n, ast.While):
      for s in n.body:
        if isinstance(s, ast.AugAssign) and isinstance(s.target, ast.Name) and isinstance(s.op, ast.Add) and U.const_value(s.value) == 1:
          return s.target.id
  return None


def boundaries(ctx, fi, loops):
  for kind, loop in loops.items():
    var = loop.target.id
    t = '%s.%s' % (var, _time_attr(kind))
    idx = _idx_name(loop)
    ctx.require(idx is not None, '_extract_subsequences: piece index of the %s traversal not found' % kind)
    stateful = kind in ('state', 'pedal')
    # (a) events before the first split
    first = loop.body[0]
    want = '%s <= split_times[0]' % t if stateful else '%s < split_times[0]' % t
    ok = isinstance(first, ast.If) and has_cmp(conj(first.test), want) and isinstance(first.body[-1], ast.Continue)
    ctx.ob('GRD/%s/before-first' % kind, fi, first, ok,
           ('events with %s are %s' % (want, 'remembered as the state in force and skipped' if stateful else 'skipped')) if ok else
           'the %s traversal does not treat "%s" as before the first piece (%s): %s' % (
               kind, want, 'an event exactly at the start would not be carried as state' if stateful else 'an event exactly at the start would be dropped',
               norm_text(first.test) if isinstance(first, ast.If) else norm_text(first)),
           construct='%s: before first split iff %s' % (kind, want))
    if stateful:
      # the skipped event is recorded as previous state
      rec = isinstance(first, ast.If) and any(isinstance(s, ast.Assign) and var in U.names_in(s.value) for s in first.body)
      ctx.ob('GRD/%s/before-first-recorded' % kind, fi, first, rec, 'the event is recorded as the state in force' if rec else
             'an event at or before the first split is skipped without being recorded as the state in force', construct='%s: early event recorded' % kind)
    # (b) advance
    wh = next((s for s in loop.body if isinstance(s, ast.While)), None)
    ctx.require(wh is not None, '_extract_subsequences: advance loop of the %s traversal not found' % kind)
    want = '%s > split_times[%s + 1]' % (t, idx) if stateful else '%s >= split_times[%s + 1]' % (t, idx)
    ok = has_cmp(conj(wh.test), want) and has_cmp(conj(wh.test), '%s < len(split_times) - 1' % idx)
    ctx.ob('GRD/%s/advance' % kind, fi, wh, ok, 'the piece index advances while %s' % want if ok else
           'the %s traversal advances under %s, not while "%s": %s' % (
               kind, norm_text(wh.test), want, 'a boundary event would open the next piece too early' if stateful else 'an event exactly on a boundary would stay in the earlier piece'),
           construct='%s: advance while %s' % (kind, want))
    # (c) termination
    br = [s for s in loop.body if isinstance(s, ast.If) and len(s.body) == 1 and isinstance(s.body[0], ast.Break)]
    ok = any(has_cmp(conj(s.test), '%s == len(split_times) - 1' % idx) for s in br)
    ctx.ob('GRD/%s/stop' % kind, fi, br[0] if br else loop, ok, 'traversal stops after the last piece' if ok else
           'the %s traversal has no stop at the last split' % kind, construct='%s: break when index == len(split_times) - 1' % kind)
    # (d) inclusion
    if stateful:
      inc = [s for s in loop.body if isinstance(s, ast.If) and has_cmp(conj(s.test), '%s < split_times[%s + 1]' % (t, idx))]
      ok = len(inc) == 1 and any(isinstance(c.func, ast.Attribute) and c.func.attr == 'extend' for c in U.calls_in(inc[0]))
      ctx.ob('GRD/%s/include' % kind, fi, inc[0] if inc else loop, ok, 'the event is placed in the piece iff %s < split_times[%s + 1]' % (t, idx) if ok else
             'the %s traversal does not restrict inclusion to "%s < next split": an event on the boundary would appear in both pieces' % (kind, t),
             construct='%s: include iff %s < split_times[%s + 1]' % (kind, t, idx))
      # carry at piece start inside the advance loop, and the trailing loop
      carry_in = any(isinstance(c.func, ast.Attribute) and c.func.attr == 'extend' for c in U.calls_in(wh))
      ctx.ob('GRD/%s/carry' % kind, fi, wh, carry_in, 'the state in force is inserted at the start of every piece that is opened' if carry_in else
             'opening a new piece does not insert the state in force', construct='%s: carry on advance' % kind)
      tail = _trailing_loop(fi, loop, idx)
      for blk_owner in [wh] + ([tail] if tail is not None else []):
        for st in U.walk_stmts(blk_owner):
          if isinstance(st, ast.Expr) and isinstance(st.value, ast.Call) and isinstance(st.value.func, ast.Attribute) and st.value.func.attr == 'extend':
            par = U.parent(fi.node, st)
            blk = par.body if any(x is st for x in par.body) else par.orelse
            i = [k for k, x in enumerate(blk) if x is st][0]
            nxt = blk[i + 1] if i + 1 < len(blk) else None
            okz = isinstance(nxt, ast.Assign) and norm_text(nxt.targets[0]) == norm_text(st.value.func.value) + '[-1].time' and U.const_value(nxt.value) == 0
            ctx.ob('GRD/%s/carry-at-zero' % kind, fi, st, okz, 'the carried state is placed at time 0 of the piece' if okz else
                   'the carried state keeps its old (absolute) time instead of being placed at the start of the piece')
      ok = tail is not None and any(isinstance(c.func, ast.Attribute) and c.func.attr == 'extend' for c in U.calls_in(tail)) and \
          has_cmp(conj(tail.test), '%s < len(split_times) - 2' % idx)
      ctx.ob('GRD/%s/trailing' % kind, fi, tail or loop, ok, 'remaining pieces receive the final state' if ok else
             'the pieces after the last %s event do not receive the state in force' % kind, construct='%s: trailing carry loop' % kind)
      # after handling, the event becomes the state in force
      last = loop.body[-1]
      ok = isinstance(last, ast.Assign) and var in U.names_in(last.value)
      # positively identified: the recording statement exists in the loop but only runs under a condition
      nested = [s_ for s_ in U.walk_stmts(loop) if isinstance(s_, ast.Assign) and s_ not in loop.body and isinstance(s_.value, ast.Name) and s_.value.id == var and
                isinstance(s_.targets[0], ast.Subscript) and U.enclosing_tests(fi.node, s_, stop_at=loop)] if not ok else []
      ctx.ob('GRD/%s/update-state' % kind, fi, nested[0] if nested else last, ok, 'the event becomes the state in force' if ok else
             ('the handled event is recorded as the state in force only under %s: an event that is not copied into the current piece is forgotten' %
              ', '.join(norm_text(t) for t, _p in U.enclosing_tests(fi.node, nested[0], stop_at=loop)) if nested else 'the handled event is not recorded as the state in force'),
             construct='%s: state updated last' % kind, definite=bool(nested))
    else:
      # unconditional placement
      ext = [s for s in loop.body if isinstance(s, ast.Expr) and isinstance(s.value, ast.Call) and isinstance(s.value.func, ast.Attribute) and s.value.func.attr == 'extend']
      ok = len(ext) == 1
      ctx.ob('GRD/%s/include' % kind, fi, ext[0] if ext else loop, ok, 'every in-range event is placed exactly once' if ok else
             'the %s traversal places an event %d times' % (kind, len(ext)), construct='%s: one unconditional placement' % kind)


def _trailing_loop(fi, loop, idx):
  par = U.parent(fi.node, loop)
  body = getattr(par, 'body', [])
  if not any(s is loop for s in body):
    return None
  i = [k for k, s in enumerate(body) if s is loop][0]
  for s in body[i + 1:i + 3]:
    if isinstance(s, ast.While) and idx in U.names_in(s.test):
      return s
  return None


# ------------------------------------------------------------------ re-basing
def rebase(ctx, fi, loops):
  for kind, loop in loops.items():
    idx = _idx_name(loop)
    want = nf.rat(E('split_times[%s]' % idx))
    n = 0
    for st in U.walk_stmts(loop):
      if isinstance(st, ast.AugAssign) and isinstance(st.target, ast.Attribute) and st.target.attr in ('time', 'start_time', 'end_time'):
        ok = isinstance(st.op, ast.Sub) and nf.rat(st.value).equals(want)
        n += 1
        ctx.ob('REBASE/' + kind, fi, st, ok, 'time is re-based by the start of its own piece' if ok else
               'time is re-based by %s %s, not by the start of the piece it was appended to (split_times[%s])' % (type(st.op).__name__, norm_text(st.value), idx))
      if isinstance(st, ast.Assign) and isinstance(st.targets[0], ast.Attribute) and st.targets[0].attr == 'time':
        ok = U.const_value(st.value) == 0
        n += 1
        ctx.ob('REBASE/' + kind, fi, st, ok, 'carried state is placed at time 0 of the piece' if ok else 'carried state is placed at %s, not at 0' % norm_text(st.value))
      if isinstance(st, ast.Assign) and isinstance(st.targets[0], ast.Attribute) and st.targets[0].attr == 'end_time':
        # min(note.end, next split) - this split
        v = st.value
        ok = False
        if isinstance(v, ast.BinOp) and isinstance(v.op, ast.Sub) and isinstance(v.left, ast.Call) and dotted(v.left.func) == 'min':
          args = set(repr(nf.rat(a)) for a in v.left.args)
          ok = args == {repr(nf.rat(E('%s.end_time' % loop.target.id))), repr(nf.rat(E('split_times[%s + 1]' % idx)))} and nf.rat(v.right).equals(want)
        n += 1
        ctx.ob('REBASE/' + kind, fi, st, ok, 'note end is clipped to the next split and re-based' if ok else
               'note end is %s, not min(end, next split) - piece start' % norm_text(v))
    if kind in ('state', 'pedal'):
      tail = _trailing_loop(fi, loop, idx)
      for st in U.walk_stmts(tail) if tail is not None else []:
        if isinstance(st, ast.Assign) and isinstance(st.targets[0], ast.Attribute) and st.targets[0].attr == 'time':
          ok = U.const_value(st.value) == 0
          ctx.ob('REBASE/' + kind, fi, st, ok, 'carried state is placed at time 0 of the piece' if ok else 'carried state is placed at %s, not at 0' % norm_text(st.value))
    ctx.require(n >= 1, '_extract_subsequences: no re-basing found in the %s traversal' % kind)
  # total_time of a piece: max-reduction over the piece's note ends
  loop = loops['notes']
  red = [s for s in loop.body if isinstance(s, ast.If) and len(s.body) == 1 and isinstance(s.body[0], ast.Assign) and
         norm_text(s.body[0].targets[0]).endswith('.total_time')]
  ok = False
  if red:
    c = U.compare_full(red[0].test)
    ok = c is not None and c[1] == '<' and c[0] == norm_text(red[0].body[0].targets[0]) and c[2] == norm_text(red[0].body[0].value) and c[2].endswith('.end_time')
  ctx.ob('REBASE/total-time', fi, red[0] if red else loop, ok, "each piece's total_time is the max of its (clipped, re-based) note ends" if ok else
         "piece total_time is not a max-reduction over the piece's note ends", construct='piece.total_time = max note end')


# ------------------------------------------------------------------ S4
def pedal_key(ctx, fi, loops):
  loop = loops['pedal']
  var = loop.target.id
  want = {'%s.instrument' % var, '%s.control_number' % var}
  stores = []
  for st in U.walk_stmts(loop):
    if isinstance(st, ast.Assign) and isinstance(st.targets[0], ast.Subscript) and isinstance(st.targets[0].value, ast.Name):
      stores.append(st)
  ctx.require(len(stores) >= 2, '_extract_subsequences: pedal state stores not found')
  dname = stores[0].targets[0].value.id
  for st in stores:
    k = st.targets[0].slice
    ok = isinstance(k, ast.Tuple) and set(norm_text(e) for e in k.elts) == want and norm_text(st.value) == var
    ctx.ob('KEY/pedal-state', fi, st, ok, 'pedal state is keyed by (instrument, control_number)' if ok else
           'pedal state is keyed by %s: pedals of different instruments or controllers overwrite each other' % norm_text(k))
  carries = [n for n in ast.walk(fi.node) if isinstance(n, ast.For) and isinstance(n.iter, ast.Call) and
             isinstance(n.iter.func, ast.Attribute) and n.iter.func.attr == 'values' and norm_text(n.iter.func.value) == dname]
  ok = len(carries) == 2
  for c in carries:
    ctx.ob('KEY/pedal-carry', fi, c, True, 'every remembered (instrument, controller) state is carried')
  if not ok:
    ctx.ob('KEY/pedal-carry', fi, loop, False, 'expected two carry loops over %s.values() (on advance and trailing), found %d' % (dname, len(carries)),
           construct='two carry loops over pedal state values')


# ------------------------------------------------------------------ S5
def info(ctx, fi):
  loop = None
  for n in ast.walk(fi.node):
    if isinstance(n, ast.For) and isinstance(n.iter, ast.Call) and dotted(n.iter.func) == 'zip' and len(n.iter.args) == 2 and \
        norm_text(n.iter.args[1]) == 'split_times[:-1]' and isinstance(n.target, ast.Tuple):
      loop = n
  ctx.require(loop is not None, '_extract_subsequences: subsequence_info loop not found')
  piece, start = [e.id for e in loop.target.elts]
  got = {}
  for st in loop.body:
    if isinstance(st, ast.Assign) and isinstance(st.targets[0], ast.Attribute):
      got[st.targets[0].attr] = st
  st = got.get('start_time_offset')
  ok = st is not None and nf.rat(st.value).equals(nf.rat(E(start)))
  ctx.ob('INFO/start-offset', fi, st or loop, ok, 'start_time_offset is the split start' if ok else 'start_time_offset is not the start of the piece')
  st = got.get('end_time_offset')
  ok = st is not None and nf.rat(st.value).equals(nf.rat(E('sequence.total_time - %s - %s.total_time' % (start, piece))))
  ctx.ob('INFO/end-offset', fi, st or loop, ok, 'end_time_offset = total_time - start - piece.total_time' if ok else
         'end_time_offset is %s, not total_time - start - piece.total_time' % (norm_text(st.value) if st is not None else None))


def preconditions(ctx, fi):
  checks = {'len(split_times) < 2': False, 'unsorted': False, 'past-end': False}
  for st in fi.node.body:
    if isinstance(st, ast.If) and any(isinstance(x, ast.Raise) for x in st.body):
      r = next(x for x in st.body if isinstance(x, ast.Raise))
      cls = dotted(r.exc.func) if isinstance(r.exc, ast.Call) else dotted(r.exc)
      t = norm_text(st.test)
      if has_cmp([st.test], 'len(split_times) < 2'):
        checks['len(split_times) < 2'] = cls == 'ValueError'
      elif 'zip(split_times[:-1], split_times[1:])' in t and isinstance(st.test, ast.Call) and dotted(st.test.func) == 'any':
        g = st.test.args[0]
        checks['unsorted'] = cls == 'ValueError' and isinstance(g, ast.GeneratorExp) and has_cmp([g.elt], 'a > b', {g.generators[0].target.elts[0].id: E('a'), g.generators[0].target.elts[1].id: E('b')})
      elif 'split_times[:-1]' in t and 'total_time' in t:
        g = st.test.args[0] if isinstance(st.test, ast.Call) and st.test.args else None
        checks['past-end'] = cls == 'ValueError' and isinstance(g, ast.GeneratorExp) and has_cmp([g.elt], 't >= sequence.total_time', {g.generators[0].target.id: E('t')})
  for k, ok in checks.items():
    ctx.ob('ESC/precondition', fi, fi.node, ok, 'precondition "%s" raises ValueError' % k if ok else 'precondition "%s" is no longer rejected with ValueError' % k,
           construct='precondition %s -> ValueError' % k)
  first = fi.node.body[1] if isinstance(fi.node.body[0], ast.Expr) else fi.node.body[0]
  ok = isinstance(first, ast.If) and 'is_quantized_sequence' in norm_text(first.test) and any(isinstance(x, ast.Raise) for x in first.body)
  ctx.ob('ESC/precondition', fi, first, ok, 'quantized input is rejected first' if ok else 'quantized input is not rejected before any work', construct='quantized -> QuantizationStatusError')


def trim(ctx):
  fi = ctx.func(SL + ':trim_note_sequence')
  loop = next((n for n in fi.node.body if isinstance(n, ast.For)), None)
  ctx.require(loop is not None, 'trim_note_sequence: note loop not found')
  first = loop.body[0]
  tests = []
  if isinstance(first, ast.If) and isinstance(first.body[-1], ast.Continue):
    tests = first.test.values if isinstance(first.test, ast.BoolOp) and isinstance(first.test.op, ast.Or) else [first.test]
  v = loop.target.id
  ok = len(tests) == 2 and has_cmp(tests, '%s.start_time < start_time' % v) and has_cmp(tests, '%s.start_time >= end_time' % v)
  ctx.ob('GRD/trim/window', fi, first, ok, 'kept notes start in [start_time, end_time)' if ok else
         'trim keeps notes under %s, not exactly those starting in [start_time, end_time)' % (norm_text(first.test) if isinstance(first, ast.If) else '?'),
         construct='trim: skip iff start < start_time or start >= end_time')


# ------------------------------------------------------------------ S6
def _is_sorted_notes(v, st):
  return isinstance(v, ast.Call) and dotted(v.func) == 'sorted' and v.args and '.notes' in norm_text(v.args[0])


def _main_loop_target(fn):
  return [n.target.id for n in fn.body if isinstance(n, ast.For) and isinstance(n.target, ast.Name)]


SPLITTER_ROLES = {
    'notes_by_start_time': lambda fn: roles.assigned_where(fn, _is_sorted_notes),
    'note_idx': lambda fn: roles.assigned_where(fn, lambda v, st: isinstance(v, ast.Constant) and v.value == 0 and not isinstance(v.value, (bool, float))),
    'notes_crossing_split': lambda fn: roles.assigned_where(fn, lambda v, st: isinstance(v, ast.List) and not v.elts),
    'valid_split_times': lambda fn: roles.assigned_where(fn, lambda v, st: isinstance(v, ast.List) and len(v.elts) == 1 and U.const_value(v.elts[0]) == 0),
}


def _crossing(ctx, fi, tvar_text, rule):
  fn = fi.node
  wh = next((n for n in ast.walk(fn) if isinstance(n, ast.While) and 'start_time' in norm_text(n.test)), None)
  ctx.require(wh is not None, '%s: crossing-note scan not found' % fi.name)
  ok = has_cmp(conj(wh.test), 'notes_by_start_time[note_idx].start_time < %s' % tvar_text)
  ctx.ob(rule + '/crossing-start', fi, wh, ok, 'candidate crossing notes start strictly before the split' if ok else
         'crossing candidates are collected under %s: a note starting exactly at the split would count as sounding across it' % norm_text(wh.test),
         construct='crossing: start < split')
  # the scan index only moves forward, so a note it has passed must stay in the crossing list until it ends:
  # the list and the index are initialised once before the loop over candidate splits and never reset inside it
  outer = next((a_ for a_ in U.ancestors(fn, wh) if isinstance(a_, ast.For)), None)
  appended = [c.func.value.id for s_ in wh.body for c in U.calls_in(s_) if isinstance(c.func, ast.Attribute) and c.func.attr == 'append' and isinstance(c.func.value, ast.Name)]
  idxs = [s_.target.id for s_ in wh.body if isinstance(s_, ast.AugAssign) and isinstance(s_.target, ast.Name) and isinstance(s_.op, ast.Add) and U.const_value(s_.value) == 1]
  okp = outer is not None and len(appended) == 1 and len(idxs) == 1
  bad = None
  if okp:
    lst, idx = appended[0], idxs[0]
    for s_ in U.walk_stmts(outer):
      for tgt, val, op in U.store_targets(s_):
        if isinstance(tgt, ast.Name) and tgt.id == lst:
          keep = isinstance(val, ast.ListComp) and norm_text(val.generators[0].iter) == lst and norm_text(val.elt) == norm_text(val.generators[0].target)
          if not keep:
            bad = s_
        if isinstance(tgt, ast.Name) and tgt.id == idx and not (op == 'aug:Add'):
          bad = s_
    inits = [s_ for s_ in fn.body if s_.lineno < outer.lineno and isinstance(s_, ast.Assign) and norm_text(s_.targets[0]) in (lst, idx)]
    okp = bad is None and len(inits) == 2
  ctx.ob(rule + '/crossing-persistent', fi, bad or outer or wh, okp, 'crossing candidates and the scan index are carried across candidate splits (initialised once, only filtered / advanced in the loop)' if okp else
         'the crossing-note list or the scan index is re-initialised inside the loop over candidate splits: a note already passed by the index is forgotten and a later split inside it is not suppressed',
         construct='crossing list and index persist across splits', definite=bad is not None)
  comp = [n for n in ast.walk(fn) if isinstance(n, ast.ListComp) and any('end_time' in norm_text(t) for t in n.generators[0].ifs)]
  ok = len(comp) == 1 and has_cmp(comp[0].generators[0].ifs, '%s.end_time > %s' % (comp[0].generators[0].target.id, tvar_text))
  ctx.ob(rule + '/crossing-end', fi, comp[0] if comp else fn, ok, 'a note crosses the split only if it ends strictly after it' if ok else
         'crossing test on the note end is not strict: a note ending exactly at the split would block it', construct='crossing: end > split')
  app = [s for s in U.walk_stmts(fn) if isinstance(s, ast.If) and any(norm_text(x).startswith('valid_split_times.append') for x in s.body)
         and 'skip_splits_inside_notes' in norm_text(s.test)]
  ok = len(app) == 1 and norm_text(app[0].test) in ('not (skip_splits_inside_notes and notes_crossing_split)',)
  if len(app) == 1 and not ok:
    # accept De Morgan form
    t = app[0].test
    ok = isinstance(t, ast.BoolOp) and isinstance(t.op, ast.Or) and set(norm_text(v) for v in t.values) == {'not skip_splits_inside_notes', 'not notes_crossing_split'}
  ctx.ob(rule + '/skip-inside-notes', fi, app[0] if app else fn, ok, 'a split is dropped iff the option is set and a note crosses it' if ok else
         'split suppression is not "skip_splits_inside_notes and a crossing note exists"', construct='append split unless (skip and crossing)')


def _tail(ctx, fi, rule, listname):
  fn = fi.node
  tl = [s for s in fn.body if isinstance(s, ast.If) and any(norm_text(x).startswith('%s.append(' % listname) and 'total_time' in norm_text(x) for x in s.body)]
  ok = len(tl) == 1 and has_cmp([tl[0].test], 'note_sequence.total_time > %s[-1]' % listname)
  ctx.ob(rule + '/tail', fi, tl[0] if tl else fn, ok, 'the trailing piece is added iff total_time > last split' if ok else
         'trailing piece condition is not "total_time > last split"', construct='tail piece iff total_time > %s[-1]' % listname)
  ret = [s for s in fn.body if isinstance(s, ast.If) and has_cmp([s.test], 'len(%s) > 1' % listname)]
  ok = len(ret) == 1 and isinstance(ret[0].body[0], ast.Return) and isinstance(ret[0].body[0].value, ast.Call) and \
      dotted(ret[0].body[0].value.func) == '_extract_subsequences' and [norm_text(a) for a in ret[0].body[0].value.args] == ['note_sequence', listname]
  ctx.ob(rule + '/delegate', fi, ret[0] if ret else fn, ok, 'pieces are cut by _extract_subsequences at the chosen split times' if ok else
         'the splitter does not hand (note_sequence, %s) to _extract_subsequences' % listname, construct='return _extract_subsequences(note_sequence, %s)' % listname)
  init = [s for s in fn.body if isinstance(s, ast.Assign) and norm_text(s.targets[0]) == listname]
  ok = len(init) == 1 and isinstance(init[0].value, ast.List) and len(init[0].value.elts) == 1 and U.const_value(init[0].value.elts[0]) == 0
  ctx.ob(rule + '/origin', fi, init[0] if init else fn, ok, 'the first piece starts at 0' if ok else 'split times do not start at 0', construct='%s = [0.0]' % listname)


def split_hop(ctx):
  fi = ctx.func(SL + ':split_note_sequence')
  spec = dict(SPLITTER_ROLES)
  spec['split_times'] = lambda fn: roles.assigned_where(fn, lambda v, st: isinstance(v, ast.Call) and (dotted(v.func) == 'sorted' and norm_text(v.args[0]) == 'hop_size_seconds'
                                                                                                   or (dotted(v.func) or '').endswith('arange')))
  spec['split_time'] = _main_loop_target
  fi = Canon(fi, roles.discover(fi, spec))
  fn = fi.node
  ar = [c for c in U.calls_in(fn) if (dotted(c.func) or '').endswith('arange')]
  ok = len(ar) == 1 and [norm_text(a) for a in ar[0].args] == ['hop_size_seconds', 'note_sequence.total_time', 'hop_size_seconds']
  ctx.ob('SPLIT/hop/multiples', fi, ar[0] if ar else fn, ok, 'candidate splits are the hop multiples below total_time' if ok else
         'candidate splits are %s, not arange(hop, total_time, hop)' % (norm_text(ar[0]) if ar else None), construct='np.arange(hop, total_time, hop)')
  srt = [s for s in U.walk_stmts(fn) if isinstance(s, ast.Assign) and norm_text(s.targets[0]) == 'split_times' and isinstance(s.value, ast.Call) and dotted(s.value.func) == 'sorted']
  ctx.ob('SPLIT/hop/list-sorted', fi, srt[0] if srt else fn, len(srt) == 1, 'an explicit list of split times is sorted first' if srt else 'explicit split times are used unsorted',
         construct='split_times = sorted(hop_size_seconds)')
  _crossing(ctx, fi, 'split_time', 'SPLIT/hop')
  _tail(ctx, fi, 'SPLIT/hop', 'valid_split_times')


def implicit_defaults(ctx, fi):
  """Location-independent (a necessary condition): a time signature / tempo event is a change only relative to the value in force,
  which before the first event is the implicit 4/4 at the default tempo.  A splitter that nowhere refers to the default tempo
  (constants.DEFAULT_QUARTERS_PER_MINUTE, or its value) or to the literal 4 cannot know them: the first event then always counts
  as a change and a 4/4 or 120 qpm event inside the sequence produces a spurious split.  (No verdict if the function hands its
  state to a helper the rules were not confirmed on.)"""
  from sa import reference
  fn = fi.node
  refd = reference.load().get('functions', {})
  for c in U.calls_in(fn):
    d = dotted(c.func) or ''
    if d in fi.module.functions and reference.key(fi.module.rel, d) not in refd:
      return
  nodes = U.reachable_nodes(fi)      # the function, the module-level helpers it calls, the module constants they read
  names = set(norm_text(n) for n in nodes if isinstance(n, (ast.Attribute, ast.Name)))
  consts = [U.const_value(n) for n in nodes if isinstance(n, ast.Constant)]
  has_qpm = any(x.endswith('DEFAULT_QUARTERS_PER_MINUTE') for x in names) or 120 in consts or 120.0 in consts
  has_meter = sum(1 for x in consts if x == 4) >= 1
  ok = has_qpm and has_meter
  ctx.ob('SPLIT/time/implicit-defaults', fi, fn, ok, 'the splitter refers to the default tempo and to 4 (the implicit 4/4)' if ok else
         'split_note_sequence_on_time_changes nowhere refers to %s: the value in force before the first event is unknown to it, so a first tempo of 120 qpm / a first 4/4 inside the '
         'sequence is treated as a change and produces a split where nothing changes' % ' or '.join(
             ([] if has_qpm else ['the default tempo (constants.DEFAULT_QUARTERS_PER_MINUTE)']) + ([] if has_meter else ['the implicit 4/4'])),
         construct='implicit 4/4 and default tempo are the initial state', definite=True)


def split_time_changes(ctx):
  fi = ctx.func(SL + ':split_note_sequence_on_time_changes')
  implicit_defaults(ctx, fi)
  spec = dict(SPLITTER_ROLES)
  for attr in ('numerator', 'denominator', 'qpm'):
    spec['current_' + attr] = (lambda a: lambda fn: roles.assigned_where(fn, lambda v, st: isinstance(v, ast.Attribute) and v.attr == a and isinstance(v.value, ast.Name)))(attr)
  spec['time_change'] = _main_loop_target
  fi = Canon(fi, roles.discover(fi, spec))
  fn = fi.node
  _crossing(ctx, fi, 'time_change.time', 'SPLIT/time')
  _tail(ctx, fi, 'SPLIT/time', 'valid_split_times')
  loop = next((n for n in fn.body if isinstance(n, ast.For)), None)
  ctx.require(loop is not None, 'split_note_sequence_on_time_changes: main loop not found')
  v = loop.target.id
  # genuine change = differs from the running value
  first = loop.body[0]
  ok = False
  if isinstance(first, ast.If) and first.orelse:
    ts_if = first.body[0] if first.body and isinstance(first.body[0], ast.If) else None
    tp_if = first.orelse[0] if isinstance(first.orelse[0], ast.If) else None
    ok = ts_if is not None and tp_if is not None and isinstance(ts_if.body[-1], ast.Continue) and isinstance(tp_if.body[-1], ast.Continue) and \
        has_cmp(conj(ts_if.test), '%s.numerator == current_numerator' % v) and has_cmp(conj(ts_if.test), '%s.denominator == current_denominator' % v) and \
        has_cmp(conj(tp_if.test), '%s.qpm == current_qpm' % v)
  ctx.ob('SPLIT/time/genuine-change', fi, first, ok, 'an event equal to the running time signature / tempo is not a change' if ok else
         'genuine-change test is not "numerator and denominator (resp. qpm) equal the running values -> skip"', construct='skip unchanged time signature / tempo')
  # running values are updated at the end of the loop body, unconditionally
  last = loop.body[-1]
  ok = isinstance(last, ast.If) and last.orelse and \
      {norm_text(s) for s in last.body} == {'current_numerator = %s.numerator' % v, 'current_denominator = %s.denominator' % v} and \
      {norm_text(s) for s in last.orelse} == {'current_qpm = %s.qpm' % v}
  skips = [x for st in loop.body[1:] for x in ast.walk(st) if isinstance(x, (ast.Continue, ast.Break))]
  ok = ok and not skips
  # positively identified: a running-value update that is reached only when the split was not suppressed
  upd = [s_ for s_ in U.walk_stmts(loop) if isinstance(s_, ast.Assign) and isinstance(s_.targets[0], ast.Name) and s_.targets[0].id.startswith('current_') and
         isinstance(s_.value, ast.Attribute) and norm_text(s_.value.value) == v]
  tainted = []
  for s_ in upd:
    for (t, pol) in U.path_conditions(fi.node, s_, stop_at=loop):
      if any(isinstance(n_, ast.Name) and n_.id in ('skip_splits_inside_notes', 'notes_crossing_split') for n_ in ast.walk(t)):
        tainted.append((s_, t))
  ctx.ob('SPLIT/time/running-update', fi, tainted[0][0] if tainted else last, ok, 'the running values are updated even when the split was skipped' if ok else
         ('`%s` is reached only when %s does not suppress the split: after a suppressed change the next event is compared with a stale value' % (
             norm_text(tainted[0][0]), norm_text(tainted[0][1])) if tainted else
          'the running time signature / tempo is not updated unconditionally at the end of each change'), construct='running values updated last', definite=bool(tainted))
  # the running values before the first change are the implicit 4/4 and the default tempo - constants, not something read off the sequence
  dq = U.const_value(ast.parse('constants.DEFAULT_QUARTERS_PER_MINUTE', mode='eval').body)
  for name_, want_ in (('current_numerator', 4), ('current_denominator', 4), ('current_qpm', dq)):
    d_ = U.reaching_def(fn, name_, loop)
    cons_ = 'before the first change %s is the implicit default' % name_
    if d_ is None:
      why_ = 'cannot classify: the value of %s before the loop over the changes is not a plain assignment' % name_
      ctx.ob('SPLIT/time/initial', fi, fn, False, why_, construct=cons_, unknown=why_)
      continue
    dx_ = U.expand_locals(fn, d_, at=loop)
    v_ = U.const_value(dx_)
    reads_input = any(isinstance(n_, ast.Name) and n_.id in fi.params() for n_ in ast.walk(dx_))
    ok = v_ is not None and want_ is not None and v_ == want_
    ctx.ob('SPLIT/time/initial', fi, fn, ok, '%s starts at %s' % (name_, want_) if ok else
           ('%s starts at %s, a value read off the sequence: a first tempo / time signature mark later than time 0 that differs from the implicit default is a change '
            '(the piece begins at 120 qpm in 4/4), but it is compared with itself and no split is made' % (name_, norm_text(d_)[:70]) if reads_input else
            '%s starts at %s, not at the implicit default %s' % (name_, norm_text(d_)[:50], want_)), construct=cons_, definite=reads_input or (v_ is not None and want_ is not None))
  g = [s for s in loop.body if isinstance(s, ast.If) and has_cmp([s.test], '%s.time > valid_split_times[-1]' % v)]
  ctx.ob('SPLIT/time/increasing', fi, g[0] if g else loop, len(g) == 1, 'a split is added only after the previous split' if g else
         'split times may repeat or decrease', construct='split only if change.time > valid_split_times[-1]')
  flt = [n for n in ast.walk(fn) if isinstance(n, ast.ListComp) and has_cmp(n.generators[0].ifs, '%s.time < note_sequence.total_time' % n.generators[0].target.id)]
  ctx.ob('SPLIT/time/before-end', fi, flt[0] if flt else fn, len(flt) == 1, 'only changes before total_time are considered' if flt else
         'changes at or after total_time are not excluded', construct='changes with time < total_time')
  srt = [c for c in U.calls_in(fn) if dotted(c.func) == 'sorted' and 'time_signatures' in norm_text(c) and 'tempos' in norm_text(c)]
  ctx.ob('SPLIT/time/both-kinds', fi, srt[0] if srt else fn, len(srt) == 1, 'time signatures and tempos are merged and sorted by time' if srt else
         'time signatures and tempos are not examined together in time order', construct='sorted(time_signatures + tempos, key=time)')


def silence_reference(ctx, fi):
  """Location-independent: silence is the time during which *no* note sounds, so the onset is compared with the latest end of all
  earlier notes (a running maximum).  A gap test that reads the end_time of one particular note (the previous one in start order)
  forgets a long note that started earlier and is still sounding: a split lands inside it."""
  fn = fi.node
  loopvars = set()
  for n in ast.walk(fn):
    if isinstance(n, (ast.For, ast.comprehension)):
      loopvars.update(x.id for x in ast.walk(n.target) if isinstance(x, ast.Name))
  for c in ast.walk(fn):
    if not isinstance(c, ast.Compare):
      continue
    ex = U.expand_locals(fn, c, at=c)
    if 'gap_seconds' not in U.names_in(ex):
      continue
    inside_max = set(id(x) for m in ast.walk(ex) if isinstance(m, ast.Call) and dotted(m.func) == 'max' for x in ast.walk(m))
    single = [x for x in ast.walk(ex) if isinstance(x, ast.Attribute) and x.attr == 'end_time' and isinstance(x.value, ast.Name) and x.value.id in loopvars and id(x) not in inside_max]
    ok = not single
    ctx.ob('SPLIT/silence/against-latest-end', fi, c, ok, 'the gap test reads no single note\'s end' if ok else
           'the gap test %s measures the silence from %s, the end of one note: an earlier note that is still sounding is ignored and the sequence is split inside it' % (
               norm_text(c), norm_text(single[0])), construct='silence is measured from the latest end so far', definite=True)


def split_silence(ctx):
  fi = ctx.func(SL + ':split_note_sequence_on_silence')
  silence_reference(ctx, fi)
  fi = Canon(fi, roles.discover(fi, {
      'notes_by_start_time': SPLITTER_ROLES['notes_by_start_time'],
      'split_times': SPLITTER_ROLES['valid_split_times'],
      'last_active_time': lambda fn: sorted(set(n.id for lp in fn.body if isinstance(lp, ast.For) for s in lp.body if isinstance(s, ast.If) and
                                                    'gap_seconds' in U.names_in(s.test) for n in ast.walk(s.test) if isinstance(n, ast.Name)) &
                                                set(t.id for lp in fn.body if isinstance(lp, ast.For) for s in lp.body for t, _v, _o in U.store_targets(s) if isinstance(t, ast.Name))),
  }))
  fn = fi.node
  loop = next((n for n in fn.body if isinstance(n, ast.For)), None)
  ctx.require(loop is not None, 'split_note_sequence_on_silence: loop not found')
  v = loop.target.id
  g = [s for s in loop.body if isinstance(s, ast.If)]
  ok = len(g) == 1 and has_cmp([g[0].test], '%s.start_time > last_active_time + gap_seconds' % v) and \
      [norm_text(x) for x in g[0].body] == ['split_times.append(%s.start_time)' % v]
  ctx.ob('SPLIT/silence/gap', fi, g[0] if g else loop, ok, 'a split is placed at an onset after strictly more than gap_seconds of silence' if ok else
         'silence rule is not "start > last_active + gap -> split at start"', construct='start > last_active_time + gap_seconds')
  upd = [s for s in loop.body if isinstance(s, ast.Assign) and norm_text(s.targets[0]) == 'last_active_time']
  ok = len(upd) == 1 and isinstance(upd[0].value, ast.Call) and dotted(upd[0].value.func) == 'max' and \
      set(norm_text(a) for a in upd[0].value.args) == {'last_active_time', '%s.end_time' % v}
  ctx.ob('SPLIT/silence/last-active', fi, upd[0] if upd else loop, ok, 'last active time is the max note end so far' if ok else
         'last active time is not max-reduced over note ends: a long earlier note is forgotten', construct='last_active_time = max(last_active_time, end_time)')
  _tail(ctx, fi, 'SPLIT/silence', 'split_times')


def wrappers(ctx):
  fi = ctx.func(SL + ':extract_subsequence')
  r = fi.node.body[-1]
  ok = isinstance(r, ast.Return) and isinstance(r.value, ast.Subscript) and U.const_value(r.value.slice) == 0 and isinstance(r.value.value, ast.Call) and \
      dotted(r.value.value.func) == '_extract_subsequences'
  kw = {k.arg: norm_text(k.value) for k in r.value.value.keywords} if ok else {}
  ok = ok and norm_text(r.value.value.args[0]) == 'sequence' and kw.get('split_times') == '[start_time, end_time]' and kw.get('preserve_control_numbers') == 'preserve_control_numbers'
  ctx.ob('SPLIT/extract-wrapper', fi, r, ok, 'extract_subsequence = the single piece [start_time, end_time)' if ok else
         'extract_subsequence does not return piece 0 of the split at [start_time, end_time]', construct='_extract_subsequences(sequence, [start_time, end_time], ...)[0]')


MUTANTS = [
    Mutant('seed C02_e: crossing notes reset at every candidate split', F, "  note_idx = 0\n  notes_crossing_split = []\n\n  if isinstance(hop_size_seconds, list):", "  note_idx = 0\n\n  if isinstance(hop_size_seconds, list):", rule='SPLIT/hop/crossing-persistent',
           also=[(F, "  for split_time in split_times:\n    # Update notes crossing potential split.\n", "  for split_time in split_times:\n    notes_crossing_split = []\n")]),
    Mutant('note on the boundary stays in the earlier piece', F, '           note.start_time >= split_times[subsequence_index + 1]):', '           note.start_time > split_times[subsequence_index + 1]):', rule='GRD/notes/advance'),
    Mutant('note exactly at the first split is dropped', F, '    if note.start_time < split_times[0]:', '    if note.start_time <= split_times[0]:', rule='GRD/notes/before-first'),
    Mutant('state event at the start not carried', F, '      if event.time <= split_times[0]:\n        previous_event = event', '      if event.time < split_times[0]:\n        previous_event = event', rule='GRD/state/before-first'),
    Mutant('boundary state event duplicated', F, '      if event.time < split_times[subsequence_index + 1]:\n        containers[subsequence_index].extend([event])',
           '      if event.time <= split_times[subsequence_index + 1]:\n        containers[subsequence_index].extend([event])', rule='GRD/state/include'),
    Mutant('state advance non-strict', F, '             event.time > split_times[subsequence_index + 1]):', '             event.time >= split_times[subsequence_index + 1]):', rule='GRD/state/advance'),
    Mutant('pedal advance non-strict', F, '           pedal_event.time > split_times[subsequence_index + 1]):', '           pedal_event.time >= split_times[subsequence_index + 1]):', rule='GRD/pedal/advance'),
    Mutant('beat on the boundary goes to the earlier piece', F, '             event.time >= split_times[subsequence_index + 1]):', '             event.time > split_times[subsequence_index + 1]):', rule='GRD/beats/advance'),
    Mutant('pitch bends copied into every piece', F, '  del subsequence.pitch_bends[:]\n', '', rule='REBUILD/cleared'),
    Mutant('control changes never cleared', F, '  del subsequence.control_changes[:]\n', '', rule='REBUILD/cleared'),
    Mutant('pedal state keyed by controller only', F, '    previous_pedal_events[\n        (pedal_event.instrument, pedal_event.control_number)] = pedal_event\n  # Add final',
           '    previous_pedal_events[pedal_event.control_number] = pedal_event\n  # Add final', rule='KEY/pedal-state'),
    Mutant('trailing state carry dropped', F, "    # Add final state event to the beginning of all remaining subsequences.\n    while subsequence_index < len(split_times) - 2:\n      subsequence_index += 1\n      if previous_event is not None:\n        containers[subsequence_index].extend([previous_event])\n        containers[subsequence_index][-1].time = 0.0\n",
           '', rule='GRD/state/trailing'),
    Mutant('trailing pedal carry dropped', F, "  while subsequence_index < len(split_times) - 2:\n    subsequence_index += 1\n    for previous_pedal_event in previous_pedal_events.values():\n      subsequences[subsequence_index].control_changes.extend(\n          [previous_pedal_event])\n      subsequences[subsequence_index].control_changes[-1].time = 0.0\n", '', rule=None),
    Mutant('note re-based by the next split', F, '    subsequences[subsequence_index].notes[-1].start_time -= (\n        split_times[subsequence_index])', '    subsequences[subsequence_index].notes[-1].start_time -= (\n        split_times[subsequence_index + 1])', rule='REBASE/notes'),
    Mutant('note end not clipped', F, '    subsequences[subsequence_index].notes[-1].end_time = min(\n        note.end_time,\n        split_times[subsequence_index + 1]) - split_times[subsequence_index]',
           '    subsequences[subsequence_index].notes[-1].end_time = (\n        note.end_time - split_times[subsequence_index])', rule='REBASE/notes'),
    Mutant('carried state placed at its old time', F, '          containers[subsequence_index].extend([previous_event])\n          containers[subsequence_index][-1].time = 0.0\n      if subsequence_index',
           '          containers[subsequence_index].extend([previous_event])\n      if subsequence_index', rule='GRD/state/carry-at-zero'),
    Mutant('end offset forgets the piece length', F, '        sequence.total_time - start_time - subsequence.total_time)', '        sequence.total_time - start_time)', rule='INFO/end-offset'),
    Mutant('only sustain preserved by default', F, 'DEFAULT_SUBSEQUENCE_PRESERVE_CONTROL_NUMBERS = (\n    64,  # sustain\n    66,  # sostenuto\n    67,  # una corda\n)', 'DEFAULT_SUBSEQUENCE_PRESERVE_CONTROL_NUMBERS = (\n    64,  # sustain\n)', rule='REBUILD/default-controllers'),
    Mutant('unsorted split times accepted', F, "  if any(t1 > t2 for t1, t2 in zip(split_times[:-1], split_times[1:])):\n    raise ValueError('Split times must be sorted.')\n", '', rule='ESC/precondition'),
    Mutant('hop split: note ending at the split blocks it', F, '        note for note in notes_crossing_split if note.end_time > split_time\n', '        note for note in notes_crossing_split if note.end_time >= split_time\n', rule='SPLIT/hop/crossing-end'),
    Mutant('time split: note starting at the change blocks it', F, '           notes_by_start_time[note_idx].start_time < time_change.time):', '           notes_by_start_time[note_idx].start_time <= time_change.time):', rule='SPLIT/time/crossing-start'),
    Mutant('time split: running tempo only updated on a split', F, '    if time_change.time > valid_split_times[-1]:\n      if not (skip_splits_inside_notes and notes_crossing_split):\n        valid_split_times.append(time_change.time)\n',
           '    if time_change.time > valid_split_times[-1]:\n      if not (skip_splits_inside_notes and notes_crossing_split):\n        valid_split_times.append(time_change.time)\n      else:\n        continue\n', rule=None),
    Mutant('time split: numerator-only change detection', F, '      if (time_change.numerator == current_numerator and\n          time_change.denominator == current_denominator):', '      if (time_change.numerator == current_numerator):', rule='SPLIT/time/genuine-change'),
    Mutant('silence: gap not strict', F, '    if note.start_time > last_active_time + gap_seconds:', '    if note.start_time >= last_active_time + gap_seconds:', rule='SPLIT/silence/gap'),
    Mutant('silence: last active is the previous note end', F, '    last_active_time = max(last_active_time, note.end_time)', '    last_active_time = note.end_time', rule='SPLIT/silence/last-active'),
    Mutant('hop split: tail piece also when equal', F, '  if note_sequence.total_time > valid_split_times[-1]:\n    valid_split_times.append(note_sequence.total_time)\n\n  if len(valid_split_times) > 1:\n    return _extract_subsequences(note_sequence, valid_split_times)\n  else:\n    return []\n\n\ndef split_note_sequence_on_time_changes',
           '  if note_sequence.total_time >= valid_split_times[-1]:\n    valid_split_times.append(note_sequence.total_time)\n\n  if len(valid_split_times) > 1:\n    return _extract_subsequences(note_sequence, valid_split_times)\n  else:\n    return []\n\n\ndef split_note_sequence_on_time_changes', rule='SPLIT/hop/tail'),
    Mutant('trim keeps notes starting at end_time', F, '    if note.start_time < start_time or note.start_time >= end_time:', '    if note.start_time < start_time or note.start_time > end_time:', rule='GRD/trim'),
    Mutant('sort the argument in place', F, '  for note in sorted(sequence.notes, key=lambda note: note.start_time):\n    if note.start_time < split_times[0]:', '  sequence.notes.sort(key=lambda note: note.start_time)\n  for note in sorted(sequence.notes, key=lambda note: note.start_time):\n    if note.start_time < split_times[0]:', rule='OWN/'),
    # equivalent
    Mutant('advance written with a negation', F, '           note.start_time >= split_times[subsequence_index + 1]):', '           not note.start_time < split_times[subsequence_index + 1]):', expect='silent'),
    Mutant('first-split test flipped', F, '    if note.start_time < split_times[0]:', '    if split_times[0] > note.start_time:', expect='silent'),
    Mutant('silence gap rearranged', F, '    if note.start_time > last_active_time + gap_seconds:', '    if note.start_time - gap_seconds > last_active_time:', expect='silent'),
    Mutant('end offset terms reordered', F, '        sequence.total_time - start_time - subsequence.total_time)', '        sequence.total_time - subsequence.total_time - start_time)', expect='silent'),
    Mutant('skip condition in De Morgan form', F, '    if not (skip_splits_inside_notes and notes_crossing_split):\n      valid_split_times.append(split_time)', '    if not skip_splits_inside_notes or not notes_crossing_split:\n      valid_split_times.append(split_time)', expect='silent'),
]

RENAME_FUNCS = [(F, n) for n in ('trim_note_sequence', '_extract_subsequences', 'extract_subsequence', 'split_note_sequence',
                                 'split_note_sequence_on_time_changes', 'split_note_sequence_on_silence')]

EXPLANATION += (' Location-independent additions: GRD/first-boundary (boundary scenario time == split_times[0] for notes and beats), STATE/unit-advance (state-carrying traversals advance one piece at a time), SPLIT/silence/against-latest-end, SPLIT/time/implicit-defaults (the splitter mentions the default tempo and 4/4).')
EXPLANATION += (' Round 6: ' + 'SPLIT/touching-is-not-crossing: every comparison of a note start / end with a candidate split time is evaluated for a note across the point and for one touching it; the answers must differ.')
EXPLANATION += (' Round 7: ' + 'STATE/in-force-is-latest (the state carried into the first piece is not taken with a first-match search over ascending events).')
EXPLANATION += (' Rounds 9-10: ' + 'SPLIT/time/initial is semantic (the running values before the loop fold to 4/4 and the default qpm; a value read off the input is located); STATE/carry-after-break (a closing carry in for-else is skipped by a break whose condition does not involve the piece index).')
EXPLANATION += (' Round 11: ' + 'ORD/assumes-sorted shared from C12 for the splitters and _extract_subsequences.')
EXPLANATION += (' Round 12: ' + 'PITFALL/mergefrom-as-assignment over the splitters.')
