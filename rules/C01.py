"""C01 - quantization snaps every event to the nearest step and changes nothing else (DESIGN.md §4 C01)."""
import ast
from fractions import Fraction

from sa import own, cov, nf, roles, astutil as U
from sa.roles import Canon
from sa.loader import norm_text, dotted
from sa.selftest import Mutant

PROPERTY = 'C01'
SL = 'sequences_lib'
F = 'note_seq/sequences_lib.py'
LEVEL_TEXT = (
    'Structural necessary conditions of the quantization contract, decided for all inputs: the input is never written and the '
    'result is a fresh copy (ownership analysis); the copy is written only inside the documented frame (quantization_info, '
    'total_quantized_steps, the quantized_* fields, and for relative quantization the single explicit 4/4-or-kept time '
    'signature and tempo at time 0); the one rounding function is floor(seconds*steps_per_second + 1/2) with the half obtained '
    'by folding 1 - QUANTIZE_CUTOFF and no call site overriding it; every quantized field is computed from its own time field '
    'with the same steps_per_second, which is steps_per_quarter*qpm/60; the one-step minimum and the total_quantized_steps '
    'max-reduction sit unconditionally in the note loop; exactly the four documented exception classes can leave; the negative '
    'check tests the quantized step; validation precedes any quantization write. Monotonicity/stretch invariance and ulp-level '
    'behaviour are floating-point facts and are not decided.')
LEVEL_NOTE = 'Trusted: protobuf copy semantics; int()/math.floor are floor-class for non-negative operands; constant folding of module-level literals.'
TECHNIQUE = 'static analysis: ownership/points-to, write-frame against the schema, rational normal form of the rounding expression, call-site agreement, raise-class inventory with dominance'
DESIGN_REF = 'DESIGN.md section 4 (C01)'
EXPLANATION = (
    'OWN on quantize_note_sequence(_absolute); WHO-MAY-CALL _quantize_notes (only with a fresh root); FRAME of writes on the '
    'copy per entry point with value constraints (time = 0, 4/4, DEFAULT_QUARTERS_PER_MINUTE); NF of quantize_to_step after '
    'inlining locals and the default of quantize_cutoff; 5 call sites pass exactly two arguments, source/target field pairing; '
    'steps_per_quarter_to_steps_per_second = spq*qpm/60; PAIR rules in the note loop; raise inventory and dominance.')
EXPLANATION += (' ' + 'Added after the seeded-change round: FRAME/single-at-zero (the element kept by `del C[1:]` is the one whose time is set to 0, on the stored container of the copy) and PAIR/total-then-notes (total_quantized_steps is assigned before and never after _quantize_notes, whose max-extension would otherwise be overwritten).')
TRUSTED = ['int() and math.floor() agree on the accepted (non-negative) domain', 'protobuf copy semantics']
NOT_DECIDED = ['monotonicity and stretch invariance of step assignment (floating point)', 'behaviour within a few ulps of a half-step boundary']
ASSUMPTIONS = []
# rules whose verdict does not depend on how the statements are arranged (semantic analyses); all other rules are shape rules:
# when one of those fails in a function that was restructured relative to reference/signatures.json the verdict is "cannot decide"
ROBUST = ('OWN/write', 'OWN/return', 'FRAME', 'PAIR/total-then-notes')
FLOORS = {'OWN': 30, 'FRAME': 6, 'ROUND': 3, 'SITE': 5, 'PAIR': 4, 'ESC': 5}

DOCUMENTED = {'MultipleTimeSignatureError', 'MultipleTempoError', 'BadTimeSignatureError', 'NegativeTimeError'}
FIELD_SOURCE = {'quantized_start_step': 'start_time', 'quantized_end_step': 'end_time', 'quantized_step': 'time',
                'total_quantized_steps': 'total_time'}


REJECTIONS = [
    # (function, exception class, inside a loop over the repeated field?, attributes the guard must read, [(values by attribute, reached?)], what is decided)
    ('quantize_note_sequence', 'MultipleTimeSignatureError', False, ('time', 'numerator', 'denominator'),
     [({'time': 1, 'numerator': 4, 'denominator': 4}, False), ({'time': 1, 'numerator': 3, 'denominator': 4}, True), ({'time': 1, 'numerator': 4, 'denominator': 8}, True),
      ({'time': 0, 'numerator': 3, 'denominator': 8}, False)], 'a first time signature after time 0 is an implicit change unless it is 4/4'),
    ('quantize_note_sequence', 'MultipleTempoError', False, ('time', 'qpm'),
     [({'time': 1, 'qpm': 120}, False), ({'time': 1, 'qpm': 100}, True), ({'time': 0, 'qpm': 100}, False)], 'a first tempo after time 0 is an implicit change unless it is the default 120 qpm'),
    ('quantize_note_sequence', 'BadTimeSignatureError', False, ('numerator',),
     [({'numerator': 0}, True), ({'numerator': 1}, False), ({'numerator': 7}, False)], 'a zero numerator is rejected, every other numerator is not'),
    ('quantize_note_sequence', 'BadTimeSignatureError', False, ('denominator',),
     [({'denominator': 1}, False), ({'denominator': 4}, False), ({'denominator': 256}, False), ({'denominator': 1073741824}, False), ({'denominator': 3}, True), ({'denominator': 6}, True),
      ({'denominator': 0}, True)], 'a denominator is rejected exactly when it is not a power of two (every power of two up to 2**30 is accepted)'),
    ('_quantize_notes', 'NegativeTimeError', True, ('quantized_start_step', 'quantized_end_step'),
     [({'quantized_start_step': -1, 'quantized_end_step': 3}, True), ({'quantized_start_step': 0, 'quantized_end_step': 1}, False), ({'quantized_start_step': 2, 'quantized_end_step': -1}, True)],
     'a note is rejected as soon as one of its steps is negative'),
    ('_quantize_notes', 'NegativeTimeError', True, ('quantized_step',),
     [({'quantized_step': -1}, True), ({'quantized_step': 0}, False)], 'a control change / annotation is rejected when its step is negative'),
]


def rejection_scenarios(ctx, rule):
  """Location-independent: each documented rejection is reached for exactly the inputs it is documented for.  The path
  conditions of every raise site (enclosing tests and earlier early exits, expanded through locals) are evaluated three-valued
  (sa.scenario) under a few value assignments to the attributes they read - all attribute reads with the same name get the same
  value - and the outcome "reached / not reached" is compared with the table.  Raise sites are matched to a table row by
  exception class and by the attributes their conditions read, never by position."""
  from sa import scenario
  done = set()
  for fname, cls, in_loop, attrs, cases, what in REJECTIONS:
    fi = ctx.func(SL + ':' + fname)
    # the function and the module-level helpers it calls (validation moved into a helper is still the same validation): a raise in
    # a helper is reached under the helper's own tests (parameters replaced by the arguments) and the tests around the call
    from sa import pathval
    found = []

    def collect(f_, prefix, env, depth):
      for r in ast.walk(f_.node):
        if isinstance(r, ast.Raise) and r.exc is not None:
          c = (dotted(r.exc.func) if isinstance(r.exc, ast.Call) else dotted(r.exc)) or ''
          if c.split('.')[-1] == cls:
            own_c = [(pathval.subst(U.expand_locals(f_.node, t, at=r), env), p) for t, p in U.enclosing_tests(f_.node, r)]
            # `for bad, reason in ((c1, m1), (c2, m2)): if bad: raise`: one guarded raise per row of the literal table
            unrolled = False
            for lp in U.enclosing_loops(f_.node, r):
              if not (isinstance(lp, ast.For) and isinstance(lp.target, (ast.Tuple, ast.Name))):
                continue
              tab = U.expand_locals(f_.node, lp.iter, at=lp)
              names = [e.id if isinstance(e, ast.Name) else None for e in (lp.target.elts if isinstance(lp.target, ast.Tuple) else [lp.target])]
              if isinstance(tab, (ast.Tuple, ast.List)) and tab.elts and all(isinstance(e, (ast.Tuple, ast.List)) and len(e.elts) == len(names) for e in tab.elts) and isinstance(lp.target, ast.Tuple):
                for row in tab.elts:
                  envr = dict(env)
                  envr.update((nm, pathval.subst(U.expand_locals(f_.node, x, at=lp), env)) for nm, x in zip(names, row.elts) if nm)
                  found.append((f_, r, prefix + [(pathval.subst(U.expand_locals(f_.node, t, at=r), envr), p) for t, p in U.enclosing_tests(f_.node, r)]))
                unrolled = True
                break
            if not unrolled:
              found.append((f_, r, prefix + own_c))
      if depth < 2:
        for c_ in ast.walk(f_.node):
          if isinstance(c_, ast.Call) and isinstance(c_.func, ast.Name) and c_.func.id in fi.module.functions and not c_.keywords:
            g_ = fi.module.functions[c_.func.id]
            ps = [a_.arg for a_ in g_.node.args.args]
            if len(ps) != len(c_.args) or g_ is f_:
              continue
            env2 = dict((p_, pathval.subst(U.expand_locals(f_.node, a_, at=c_), env)) for p_, a_ in zip(ps, c_.args))
            at_call = [(pathval.subst(U.expand_locals(f_.node, t, at=c_), env), p) for t, p in U.enclosing_tests(f_.node, c_)]
            collect(g_, prefix + at_call, env2, depth + 1)
    collect(fi, [], {}, 0)
    sites = []
    for owner, r, conds in found:
      read = set(x.attr for t, _p in conds for x in ast.walk(t) if isinstance(x, ast.Attribute))
      if not set(attrs) & read:
        continue      # a guard that reads only some of the attributes is judged too: the cases say what it misses
      # the same attribute read off two different objects is a comparison between elements (change detection), not a test of one element
      bases = {}
      for t, _p in conds:
        in_lambda = set(id(y) for l_ in ast.walk(t) if isinstance(l_, ast.Lambda) for y in ast.walk(l_))      # sort keys
        for x in ast.walk(t):
          if isinstance(x, ast.Attribute) and x.attr in attrs and id(x) not in in_lambda:
            bases.setdefault(x.attr, set()).add(norm_text(x.value))
      if any(len(b) > 1 for b in bases.values()):
        continue
      sites.append((owner, r, conds))
    cons = '%s: %s' % (cls, what)
    if not sites:
      why = 'cannot classify: no raise of %s in %s whose conditions read %s' % (cls, fname, ', '.join(attrs))
      ctx.ob(rule, fi, fi.node, False, why, construct=cons, unknown=why)
      continue
    for owner, r, conds in sites:
      rel = [(t, p) for t, p in conds if any(isinstance(x, ast.Attribute) and x.attr in attrs for x in ast.walk(t))]
      for vals, want in cases:
        pairs = []
        for t, _p in rel:
          for x in ast.walk(t):
            if isinstance(x, ast.Attribute) and x.attr in vals:
              pairs.append((norm_text(x), repr(vals[x.attr])))
        got = scenario.tv_all(rel, scenario.subst_of(sorted(set(pairs))))
        sc = ', '.join('%s = %s' % kv for kv in sorted(vals.items()))
        if got is None:
          why = 'cannot classify: the conditions of %s cannot be evaluated for %s' % (norm_text(r)[:50], sc)
          ctx.ob(rule, owner, r, False, why, construct=cons + ' [%s]' % sc, unknown=why)
        else:
          ctx.ob(rule, owner, r, got == want, 'for %s the rejection is %s' % (sc, 'reached' if got else 'not reached') if got == want else
                 'for %s the %s is %s, but %s: its guard is %s' % (sc, cls, 'raised' if got else 'not raised', what,
                                                                   ' and '.join(('' if p else 'not ') + '(' + norm_text(t) + ')' for t, p in rel)),
                 construct=cons + ' [%s]' % sc, definite=True)


def first_element_only(ctx, rule):
  """Location-independent: after the change detection every remaining time signature / tempo equals the first in time order, and
  only element 0 is kept (`del ...[1:]`).  A constant subscript other than 0 on those fields reads an element that may not
  exist (a sequence with a single entry) or that is about to be deleted."""
  fi = ctx.func(SL + ':quantize_note_sequence')
  n = 0
  for x in ast.walk(fi.node):
    if isinstance(x, ast.Subscript) and not isinstance(x.slice, ast.Slice) and U.const_value(x.slice) is not None:
      base = U.expand_locals(fi.node, x.value, at=x)
      while isinstance(base, ast.Call) and dotted(base.func) in ('sorted', 'list', 'tuple') and base.args:
        base = base.args[0]       # the field itself, possibly time-sorted / copied - not a tuple built from its elements
      if isinstance(base, ast.Attribute) and base.attr in ('time_signatures', 'tempos'):
        n += 1
        k = U.const_value(x.slice)
        ctx.ob(rule, fi, x, k == 0, 'element 0 (the one that is kept)' if k == 0 else
               '%s reads element %s of a field of which only element 0 is validated and kept: a sequence with a single entry raises IndexError, and otherwise an entry that is '
               'about to be deleted is tested instead of the one that stays' % (norm_text(x), k), definite=True)
  if n == 0:
    why = 'cannot classify: quantize_note_sequence reads no element of time_signatures / tempos by constant index'
    ctx.ob(rule, fi, fi.node, False, why, construct='the kept element is element 0', unknown=why)


def run(ctx):
  rejection_scenarios(ctx, 'ESC/rejection-scenarios')
  first_element_only(ctx, 'FRAME/element-zero')
  mi = ctx.P.module(SL)
  rel = own.check_borrowed(ctx, SL + ':quantize_note_sequence', {'note_sequence': own.NS}, {}, ['note_sequence'])
  ab = own.check_borrowed(ctx, SL + ':quantize_note_sequence_absolute', {'note_sequence': own.NS}, {}, ['note_sequence'])
  who_may_call(ctx, rel, ab)
  frame(ctx, 'quantize_note_sequence', rel, relative=True)
  frame(ctx, 'quantize_note_sequence_absolute', ab, relative=False)
  stale_total(ctx)
  rounding(ctx, mi)
  call_sites(ctx)
  pairing(ctx)
  total_order(ctx, 'PAIR/total-then-notes')
  single_explicit(ctx)
  change_detection_exact(ctx)
  every_exit_quantizes(ctx)
  every_annotation_quantized(ctx)
  # "stretching the sequence and its tempo together gives the same steps": the stretch has to reach every time-bearing container
  from rules import C13 as _c13
  _c13.fields_named(ctx, cov.time_paths(ctx.S), names=('stretch_note_sequence',), rule='STRETCH/fields-named')
  escapes(ctx, rel, ab)
  validation(ctx)


def who_may_call(ctx, rel, ab):
  callers = []
  for m in ctx.P.modules.values():
    if m.name in ctx.TEST_SUPPORT:
      continue
    for fi in m.all_functions.values():
      for c in U.calls_in(fi.node):
        d = dotted(c.func) or ''
        if d.split('.')[-1] == '_quantize_notes':
          callers.append((fi, c))
  ctx.require(callers, '_quantize_notes has no caller')
  for fi, c in callers:
    ok = fi.fq in ('note_seq.sequences_lib:quantize_note_sequence', 'note_seq.sequences_lib:quantize_note_sequence_absolute')
    fresh = False
    if ok:
      res = rel if fi.name == 'quantize_note_sequence' else ab
      av = res.facts.get(id(c.args[0]))
      fresh = av is not None and bool(av.refs) and all(r[0] == 'F' for r, _p in av.refs)
    ctx.ob('OWN/in-place-callee', fi, c, ok and fresh,
           '_quantize_notes (mutates its argument by contract) receives a fresh copy' if ok and fresh else
           '_quantize_notes mutates its argument in place and is called here with a value that is not a fresh copy')


def frame(ctx, name, res, relative):
  fi = ctx.func(SL + ':' + name)
  ws = cov.result_writes(res)
  allowed = {
      ('total_quantized_steps',): None,
      ('notes', '[]', 'quantized_start_step'): None,
      ('notes', '[]', 'quantized_end_step'): None,
      ('control_changes', '[]', 'quantized_step'): None,
      ('text_annotations', '[]', 'quantized_step'): None,
  }
  if relative:
    allowed[('quantization_info', 'steps_per_quarter')] = None
    allowed.update({
        ('time_signatures',): 'container',
        ('time_signatures', '[]', 'time'): 'zero',
        ('time_signatures', '[]', 'numerator'): 'four',
        ('time_signatures', '[]', 'denominator'): 'four',
        ('tempos',): 'container',
        ('tempos', '[]', 'time'): 'zero',
        ('tempos', '[]', 'qpm'): 'default_qpm',
    })
  else:
    allowed[('quantization_info', 'steps_per_second')] = None
  bad = []
  default_qpm = U.const_value(ast.parse('constants.DEFAULT_QUARTERS_PER_MINUTE', mode='eval').body)
  for w in ws:
    if w.path == () and w.op in ('call:CopyFrom', 'call:MergeFrom'):
      continue      # the defensive copy itself (a fresh message filled from the argument), like copy.deepcopy
    if w.path not in allowed:
      bad.append((w, 'field outside the quantization frame'))
      continue
    kind = allowed[w.path]
    if kind is None:
      continue
    if kind == 'container':
      if w.op == 'call:add':
        call = w.node if isinstance(w.node, ast.Call) else next((c for c in ast.walk(w.stmt) if isinstance(c, ast.Call) and isinstance(c.func, ast.Attribute) and
                                                                 c.func.attr == 'add'), None) if w.stmt is not None else None
        # add(field=value, ...) makes the implicit default explicit in one call: the same values as the field-wise stores
        for kw in (call.keywords if call is not None else []):
          want = allowed.get(w.path + ('[]', kw.arg)) if kw.arg else 'opaque'
          v = _folded(w, kw.value)
          if want is None or want == 'opaque' or want == 'container' or v is None or v != {'zero': 0, 'four': 4, 'default_qpm': default_qpm}[want]:
            bad.append((w, 'add(%s=%s): only the implicit defaults (4/4, the default tempo, time 0) may be made explicit' % (kw.arg or '**', norm_text(kw.value))))
        continue
      if w.op == 'del' and isinstance(w.node, ast.Subscript) and isinstance(w.node.slice, ast.Slice) and \
          U.const_value(w.node.slice.lower) == 1 and w.node.slice.upper is None:
        continue
      bad.append((w, 'only add() or del [1:] is allowed on %s' % cov.path_text(w.path)))
    elif kind == 'zero':
      if not (w.op == 'store' and w.value is not None and U.const_value(w.value) == 0):
        bad.append((w, 'only time = 0 is allowed'))
    elif kind == 'four':
      if not (w.op == 'store' and w.value is not None and _folded(w, w.value) == 4 and _on_added(w)):
        bad.append((w, 'only the implicit 4/4 may be made explicit, on the element just added'))
    elif kind == 'default_qpm':
      if not (w.op == 'store' and w.value is not None and (norm_text(w.value) == 'constants.DEFAULT_QUARTERS_PER_MINUTE' or
                                                           (default_qpm is not None and _folded(w, w.value) == default_qpm)) and _on_added(w)):
        bad.append((w, 'only the implicit default tempo may be made explicit, on the element just added'))
  for (w, why) in bad:
    ctx.ob('FRAME/' + name, w.func, w.stmt or w.node, False,
           '%s writes %s of the copy: %s ("leaving every other field of the copy untouched")' % (name, cov.path_text(w.path), why))
  ctx.ob('FRAME/' + name, fi, fi.node, not bad, 'all %d writes on the copy lie inside the quantization frame' % len(ws) if not bad else
         '%d writes leave the frame' % len(bad), construct='%s: write frame (%d writes)' % (name, len(ws)))
  # and the frame is filled: every quantized field is written
  for p in allowed:
    if allowed[p] is None:
      hit = any(w.path == p for w in ws)
      ctx.ob('FRAME/' + name + '/filled', fi, fi.node, hit, '%s is written' % cov.path_text(p) if hit else
             '%s never writes %s' % (name, cov.path_text(p)), construct='%s writes %s' % (name, cov.path_text(p)))
  if relative:
    ctx.count('frame_writes_relative', len(ws))
  else:
    ctx.count('frame_writes_absolute', len(ws))


def _folded(w, value):
  """The constant a stored value folds to; a local is read through the plain assignment that reaches the store."""
  if isinstance(value, ast.Name) and w.stmt is not None:
    d = U.reaching_def(w.func.node, value.id, w.stmt)
    if d is not None:
      value = d
  return U.const_value(value)


def _on_added(w):
  """The store goes through a local bound to the result of <container>.add()."""
  if not isinstance(w.recv, ast.Name):
    return False
  v = cov.local_value(w.func.node, w.recv.id, w.stmt)
  return isinstance(v, ast.Call) and isinstance(v.func, ast.Attribute) and v.func.attr == 'add'


def _raising(ctx, fi, stmts):
  """The block raises: directly, or by calling a repo helper that always raises."""
  for x in stmts:
    if isinstance(x, ast.Raise):
      return True
    if isinstance(x, ast.Expr) and isinstance(x.value, ast.Call):
      r = ctx.P.resolve_expr(fi.module, x.value.func)
      if hasattr(r, 'node') and isinstance(r.node, ast.FunctionDef) and r.node.body and isinstance(r.node.body[-1], ast.Raise):
        return True
  return False


def _fold_const(ctx, mi, node):
  """Fold a module-level numeric constant expression."""
  if isinstance(node, ast.Name) and node.id in mi.assigns and len(mi.assigns[node.id]) == 1:
    return _fold_const(ctx, mi, mi.assigns[node.id][0])
  return U.const_value(node)


def rounding(ctx, mi):
  fi = ctx.func(SL + ':quantize_to_step')
  fn = fi.node
  params = fi.params()
  ctx.require(params[:2] == ['unquantized_seconds', 'steps_per_second'] and len(params) == 3,
              'quantize_to_step signature changed: %s' % params)
  d = fn.args.defaults
  ctx.require(len(d) == 1, 'quantize_to_step: expected exactly one defaulted parameter')
  cutoff = _fold_const(ctx, mi, d[0])
  ok = cutoff is not None and Fraction(str(cutoff)) == Fraction(1, 2)
  ctx.ob('ROUND/cutoff', fi, d[0], ok, 'default cutoff folds to 0.5' if ok else
         'the default quantize cutoff folds to %r, not 0.5: steps are no longer the nearest ones' % (cutoff,),
         construct='default of %s folds to 0.5' % params[2])
  rets = [s for s in U.walk_stmts(fn) if isinstance(s, ast.Return)]
  ctx.require(len(rets) == 1 and rets[0].value is not None, 'quantize_to_step: expected a single return')
  rv = cov.resolve_value(fn, rets[0].value, rets[0])
  inner = None
  cls = None
  v = rv
  while isinstance(v, ast.Call) and len(v.args) == 1 and dotted(v.func) in ('int', 'math.floor', 'numpy.floor', 'np.floor'):
    cls = 'floor'
    inner = v.args[0]
    v = inner
  if isinstance(rv, ast.Call) and dotted(rv.func) in ('round', 'math.ceil', 'numpy.round', 'np.round', 'numpy.rint'):
    cls = dotted(rv.func)
  ctx.ob('ROUND/floor-class', fi, rets[0], cls == 'floor', 'result is a floor-class conversion (int / math.floor)' if cls == 'floor' else
         'result conversion is %s: ties no longer round up / not nearest-step' % (cls or norm_text(rv)), construct='return <floor-class>(...)')
  if cls != 'floor':
    return
  env = {}
  for st in U.walk_stmts(fn):
    if isinstance(st, ast.Assign) and len(st.targets) == 1 and isinstance(st.targets[0], ast.Name):
      env[st.targets[0].id] = st.value
  env[params[2]] = ast.Constant(value=cutoff if cutoff is not None else 0.5)
  try:
    r = nf.rat(inner, env)
    want = nf.rat(ast.parse('unquantized_seconds * steps_per_second', mode='eval').body)
    diff = r - want
    half = diff.const_value()
  except nf.NFError as e:
    half = None
    r = 'unreadable (%s)' % e
  # located: the position is rounded to some number of digits before the floor - every value within that distance below a half-step
  # boundary is moved onto the boundary and then up, to the farther step
  pre = [c for c in ast.walk(fn) if isinstance(c, ast.Call) and dotted(c.func) in ('round', 'numpy.round', 'np.round', 'numpy.around', 'np.around', 'numpy.round_', 'np.round_')]
  ctx.ob('ROUND/no-rounding-before-the-floor', fi, pre[0] if pre else rets[0], not pre, 'the position reaches the floor unrounded' if not pre else
         '`%s` rounds the position before floor(position + 1/2): a time a few ulps (anything less than the rounding unit) below a half-step boundary is moved onto the boundary and quantized to the '
         'farther step - only exact ties may round up' % norm_text(pre[0])[:70], construct='no rounding of the position before the floor', definite=True)
  if pre:
    return
  ok = half is not None and half == Fraction(1, 2)
  ctx.ob('ROUND/half', fi, rets[0], ok, 'operand is seconds*steps_per_second + 1/2' if ok else
         'operand of the floor is %r, not seconds*steps_per_second + 1/2' % (r,), construct='floor operand = seconds * steps_per_second + 1/2')
  # relative resolution
  sp = ctx.func(SL + ':steps_per_quarter_to_steps_per_second')
  rets = [s for s in U.walk_stmts(sp.node) if isinstance(s, ast.Return)]
  ok = False
  got = None
  if len(rets) == 1:
    try:
      got = nf.rat(rets[0].value)
      ok = got.equals(nf.rat(ast.parse('steps_per_quarter * qpm / 60', mode='eval').body))
    except nf.NFError:
      ok = False
  ctx.ob('ROUND/steps-per-second', sp, rets[0] if rets else sp.node, ok, 'steps_per_second = steps_per_quarter*qpm/60' if ok else
         'steps_per_second is %r, not steps_per_quarter*qpm/60' % (got,), construct='steps_per_quarter * qpm / 60')


def _rel_canon(ctx):
  fi = ctx.func(SL + ':quantize_note_sequence')
  return Canon(fi, roles.discover(fi, {
      'steps_per_second': lambda fn: roles.assigned_where(fn, lambda v, st: isinstance(v, ast.Call) and (dotted(v.func) or '').endswith('steps_per_quarter_to_steps_per_second')),
      'qns': lambda fn: roles.assigned_where(fn, lambda v, st: isinstance(v, ast.Call) and dotted(v.func) == 'copy.deepcopy'),
  }))


def call_sites(ctx):
  rel_canon = _rel_canon(ctx)
  sites = []
  for m in ctx.P.modules.values():
    if m.name in ctx.TEST_SUPPORT:
      continue
    for fi in m.all_functions.values():
      if fi.fq == rel_canon.fq:
        fi = rel_canon
      for c in U.calls_in(fi.node):
        if (dotted(c.func) or '').split('.')[-1] == 'quantize_to_step':
          sites.append((fi, c))
  for fi, c in sites:
    ok = len(c.args) == 2 and not c.keywords
    ctx.ob('SITE/default-cutoff', fi, c, ok, 'call uses the default cutoff' if ok else 'call overrides the quantize cutoff')
    if not fi.fq.startswith('note_seq.sequences_lib:'):
      continue
    # target/source pairing and the shared resolution operand
    st = c
    par = U.parent(fi.node, c)
    tgt = None
    if isinstance(par, ast.Assign) and len(par.targets) == 1 and isinstance(par.targets[0], ast.Attribute):
      tgt = par.targets[0]
    src = c.args[0] if c.args else None
    ok = tgt is not None and isinstance(src, ast.Attribute) and FIELD_SOURCE.get(tgt.attr) == src.attr and \
        norm_text(tgt.value) == norm_text(src.value)
    ctx.ob('SITE/field-pairing', fi, par if tgt is not None else c, ok,
           '%s is computed from %s of the same object' % (tgt.attr, src.attr) if ok else
           'quantized field and its source time do not correspond: %s' % norm_text(par if tgt is not None else c))
    ok2 = len(c.args) >= 2 and isinstance(c.args[1], ast.Name) and c.args[1].id == 'steps_per_second'
    ctx.ob('SITE/same-resolution', fi, c, ok2, 'resolution operand is steps_per_second' if ok2 else
           'resolution operand is %s' % (norm_text(c.args[1]) if len(c.args) > 1 else None))
  ctx.require(len(sites) >= 5, 'only %d quantize_to_step call sites found' % len(sites))
  # steps_per_second of the relative entry point
  fi = rel_canon
  defs = [st for st in U.walk_stmts(fi.node) if isinstance(st, ast.Assign) and isinstance(st.targets[0], ast.Name) and st.targets[0].id == 'steps_per_second']
  ok = len(defs) == 1 and isinstance(defs[0].value, ast.Call) and dotted(defs[0].value.func) == 'steps_per_quarter_to_steps_per_second' and \
      len(defs[0].value.args) == 2 and norm_text(defs[0].value.args[0]) == 'steps_per_quarter' and norm_text(defs[0].value.args[1]).endswith('tempos[0].qpm')
  ctx.ob('SITE/relative-resolution', fi, defs[0] if defs else fi.node, ok,
         'steps_per_second = f(steps_per_quarter, the single tempo)' if ok else 'steps_per_second of the relative quantizer is not derived from steps_per_quarter and the single tempo',
         construct='steps_per_second = steps_per_quarter_to_steps_per_second(steps_per_quarter, tempos[0].qpm)')
  for name in ('quantize_note_sequence', 'quantize_note_sequence_absolute'):
    f2 = rel_canon if name == 'quantize_note_sequence' else ctx.func(SL + ':' + name)
    qn = [c for c in U.calls_in(f2.node) if dotted(c.func) == '_quantize_notes']
    ok = len(qn) == 1 and len(qn[0].args) == 2 and norm_text(qn[0].args[1]) == 'steps_per_second'
    ctx.ob('SITE/notes-resolution', f2, qn[0] if qn else f2.node, ok, 'notes are quantized at the same steps_per_second as total_time' if ok else
           'notes are quantized at a different resolution than total_time')
  ab = ctx.func(SL + ':quantize_note_sequence_absolute')
  st = [s for s in U.walk_stmts(ab.node) if isinstance(s, ast.Assign) and norm_text(s.targets[0]).endswith('quantization_info.steps_per_second')]
  ok = len(st) == 1 and norm_text(st[0].value) == 'steps_per_second'
  ctx.ob('SITE/recorded-resolution', ab, st[0] if st else ab.node, ok, 'the recorded resolution is the one used' if ok else 'recorded steps_per_second differs from the one used')
  st = [s for s in U.walk_stmts(fi.node) if isinstance(s, ast.Assign) and norm_text(s.targets[0]).endswith('quantization_info.steps_per_quarter')]
  ok = len(st) == 1 and norm_text(st[0].value) == 'steps_per_quarter'
  ctx.ob('SITE/recorded-resolution', fi, st[0] if st else fi.node, ok, 'the recorded resolution is the one used' if ok else 'recorded steps_per_quarter differs from the one used')


def pairing(ctx):
  fi = ctx.func(SL + ':_quantize_notes')
  loop = next((n for n in fi.node.body if isinstance(n, ast.For) and norm_text(n.iter).endswith('.notes')), None)
  ctx.require(loop is not None, '_quantize_notes: note loop not found at top level')
  body = loop.body
  idx_end = max([i for i, s in enumerate(body) if isinstance(s, ast.Assign) and isinstance(s.targets[0], ast.Attribute) and
                 s.targets[0].attr in ('quantized_end_step', 'quantized_start_step')], default=None)
  fix = None
  red = None
  for i, s in enumerate(body):
    if isinstance(s, ast.If) and not s.orelse:
      c = U.compare_nf(s.test)
      if c is not None and c[1] == '==' and {c[0], c[2]} == {'quantized_end_step', 'quantized_start_step'}:
        if len(s.body) == 1 and isinstance(s.body[0], ast.AugAssign) and isinstance(s.body[0].op, ast.Add) and \
            U.const_value(s.body[0].value) == 1 and isinstance(s.body[0].target, ast.Attribute) and s.body[0].target.attr == 'quantized_end_step':
          fix = i
      if c is not None and c[1] == '<' and c[0] == 'total_quantized_steps' and c[2] == 'quantized_end_step':
        if len(s.body) == 1 and isinstance(s.body[0], ast.Assign) and norm_text(s.body[0].targets[0]).endswith('total_quantized_steps') and \
            norm_text(s.body[0].value).endswith('.quantized_end_step'):
          red = i
  ok = fix is not None and idx_end is not None and fix > idx_end
  ctx.ob('PAIR/min-one-step', fi, body[fix] if fix is not None else loop, ok,
         'every note gets end += 1 when end == start, unconditionally in the note loop' if ok else
         'the one-step minimum (end == start -> end += 1) is missing or conditional', construct='if end_step == start_step: end_step += 1')
  ok = red is not None and fix is not None and red > fix
  ctx.ob('PAIR/total-steps', fi, body[red] if red is not None else loop, ok,
         'total_quantized_steps is max-reduced over note ends after the fix-up' if ok else
         'total_quantized_steps is not extended to every (fixed-up) note end', construct='if end_step > total_quantized_steps: total_quantized_steps = end_step')


def _copy_name(fi):
  # the local whose quantization_info is filled in is the sequence being quantized
  n = set()
  for st in U.walk_stmts(fi.node):
    if isinstance(st, ast.Assign):
      for t in st.targets:
        if isinstance(t, ast.Attribute) and isinstance(t.value, ast.Attribute) and t.value.attr == 'quantization_info' and isinstance(t.value.value, ast.Name):
          n.add(t.value.value.id)
  return n.pop() if len(n) == 1 else None


def _copy_source(fi, q):
  """The name the working copy `q` was deep-copied from (`q = copy.deepcopy(src)`), or None."""
  for st in U.walk_stmts(fi.node):
    if isinstance(st, ast.Assign) and len(st.targets) == 1 and isinstance(st.targets[0], ast.Name) and st.targets[0].id == q and isinstance(st.value, ast.Call) and \
        (dotted(st.value.func) or '').split('.')[-1] == 'deepcopy' and len(st.value.args) == 1 and isinstance(st.value.args[0], ast.Name):
      return st.value.args[0].id
  return None


def stale_total(ctx, rule='PAIR/running-maximum'):
  """Location-independent: the extension of total_quantized_steps in _quantize_notes is a running maximum; comparing each note
  end with a snapshot of the field taken before the loop is not (see astutil.stale_running_maximum)."""
  fi = ctx.func(SL + ':_quantize_notes')
  stale = U.stale_running_maximum(fi.node)
  for st, name, snap in stale:
    ctx.ob(rule, fi, st, False, '%s is guarded by a comparison with %s, which was read from the field before the loop (%s) and is not updated in it: a later note that ends '
           'earlier than a previous one but after the initial value lowers the total below the earlier note\'s end' % (norm_text(st), name, norm_text(snap)),
           construct='total_quantized_steps is a running maximum over the note ends', definite=True)
  if not stale:
    ctx.ob(rule, fi, fi.node, True, 'no field is raised against a stale snapshot of itself', construct='total_quantized_steps is a running maximum over the note ends', definite=True)


def total_order(ctx, rule):
  """_quantize_notes max-extends total_quantized_steps to every fixed-up note end
  (PAIR/total-steps); an entry point must not overwrite it afterwards, and must
  initialise it from total_time before.  Used by C01 and C11."""
  for name in ('quantize_note_sequence', 'quantize_note_sequence_absolute'):
    fi = ctx.func(SL + ':' + name)
    q = _copy_name(fi)
    ctx.require(q is not None, '%s: the deep copy being quantized was not found' % name)
    seq = list(U.walk_stmts(fi.node))
    calls = [i for i, st in enumerate(seq) if isinstance(st, ast.Expr) and isinstance(st.value, ast.Call) and dotted(st.value.func) == '_quantize_notes'
             and st.value.args and norm_text(st.value.args[0]) == q]
    ctx.require(len(calls) == 1, '%s: expected exactly one _quantize_notes(%s, ...) statement, found %d' % (name, q, len(calls)))
    writes = [i for i, st in enumerate(seq) if isinstance(st, (ast.Assign, ast.AugAssign)) and
              any(norm_text(t) == q + '.total_quantized_steps' for t in (st.targets if isinstance(st, ast.Assign) else [st.target]))]
    after = [i for i in writes if i > calls[0]]
    before = [i for i in writes if i < calls[0]]
    ok = not after and len(before) >= 1
    ctx.ob(rule, fi, seq[after[0]] if after else seq[calls[0]], ok,
           'total_quantized_steps is set from total_time before the notes are quantized and not written afterwards' if ok else
           ('total_quantized_steps is assigned after _quantize_notes: the extension to the (fixed-up) note ends is overwritten' if after else
            'total_quantized_steps is not initialised before _quantize_notes'),
           construct='%s: total_quantized_steps assigned before _quantize_notes' % name)


def single_explicit(ctx):
  """"makes the single tempo and time signature explicit at time zero": the element
  that survives `del C[1:]` is C[0], so the time that is zeroed must be C[0].time
  of the same stored container C of the copy (not of a sorted view)."""
  fi = ctx.func(SL + ':quantize_note_sequence')
  q = _copy_name(fi)
  ctx.require(q is not None, 'quantize_note_sequence: the deep copy was not found')
  seen = set()
  for blk in U.blocks(fi.node):
    for i, st in enumerate(blk):
      if not (isinstance(st, ast.Delete) and len(st.targets) == 1 and isinstance(st.targets[0], ast.Subscript) and isinstance(st.targets[0].slice, ast.Slice)):
        continue
      sl = st.targets[0].slice
      cont = st.targets[0].value
      if not (isinstance(cont, ast.Attribute) and norm_text(cont.value) == q and cont.attr in ('tempos', 'time_signatures')):
        continue
      seen.add(cont.attr)
      tail = U.const_value(sl.lower) == 1 and sl.upper is None and sl.step is None
      # before or after the deletion: element 0 is the one that is kept either way
      zero = [x for x in blk if isinstance(x, ast.Assign) and len(x.targets) == 1 and isinstance(x.targets[0], ast.Attribute) and x.targets[0].attr == 'time' and
              U.const_value(x.value) == 0 and isinstance(x.targets[0].value, ast.Subscript) and U.const_value(x.targets[0].value.slice) == 0 and
              norm_text(x.targets[0].value.value) == norm_text(cont)]
      ok = tail and len(zero) == 1
      ctx.ob('FRAME/single-at-zero', fi, st, ok, 'the stored %s[0] is kept and its time set to 0' % cont.attr if ok else
             'the %s element kept by `%s` is not the one whose time is set to 0 (the write must be %s[0].time = 0 on the stored list)' % (cont.attr, norm_text(st), norm_text(cont)),
             construct='%s[0].time = 0; del %s[1:]' % (cont.attr, cont.attr))
      # "explicit at time zero" holds for one stored element as well: the zeroing runs whenever the list is non-empty,
      # i.e. the only enclosing branch condition on the path to it is the non-emptiness of that list
      if zero:
        def _strip(t, pol):
          while isinstance(t, ast.UnaryOp) and isinstance(t.op, ast.Not):
            t, pol = t.operand, not pol
          return t, pol
        src = _copy_source(fi, q)
        opaque = []

        def _same_truth(t):
          # a sorted / listed view of the stored list (of the copy, or of the argument it was copied from) is non-empty exactly when
          # the stored list is; a local holding such a view is read through its reaching definition
          hops = 0
          while hops < 4:
            hops += 1
            if isinstance(t, ast.Name):
              d = U.reaching_def(fi.node, t.id, zero[0])
              if d is None:
                opaque.append(t)
                return False
              t = d
              continue
            if isinstance(t, ast.Call) and isinstance(t.func, ast.Name) and t.func.id in ('sorted', 'list', 'tuple') and t.args:
              t = t.args[0]
              continue
            break
          if isinstance(t, ast.Attribute) and t.attr == cont.attr and isinstance(t.value, ast.Name) and t.value.id in (q, src):
            first = min(getattr(zero[0], 'lineno', 0), getattr(st, 'lineno', 0))
            grown = [c for c in ast.walk(fi.node) if isinstance(c, ast.Call) and isinstance(c.func, ast.Attribute) and norm_text(c.func.value) == norm_text(cont) and
                     c.func.attr in ('add', 'append', 'extend', 'pop', 'remove', 'insert', 'clear') and getattr(c, 'lineno', 0) < first and
                     not U.exclusive(fi.node, c, zero[0])]
            return not grown
          return False
        extra = [t for (t, pol) in (_strip(*tp) for tp in U.enclosing_tests(fi.node, zero[0])) if not (pol and _same_truth(t))]
        ctx.ob('FRAME/single-at-zero', fi, zero[0], not extra, 'the kept %s element is moved to time 0 whenever there is one' % cont.attr if not extra else
               'the time of the kept %s element is set to 0 only under the further condition %s: a single element at a later time stays where it is' % (
                   cont.attr, ', '.join(norm_text(t) for t in extra)),
               construct='%s[0].time = 0 whenever %s is non-empty' % (cont.attr, cont.attr), definite=not opaque,
               unknown=('the enclosing condition %s is a local whose definition is not a plain assignment' % ', '.join(norm_text(t) for t in opaque)) if (extra and opaque) else None)
  for f in ('tempos', 'time_signatures'):
    if f not in seen:
      ctx.ob('FRAME/single-at-zero', fi, fi.node, False, 'quantize_note_sequence no longer reduces %s to its first stored element' % f, construct='%s[0].time = 0; del %s[1:]' % (f, f),
             unknown='no `del <copy>.%s[1:]` found: how the list is reduced to one element is not recognised' % f)


def every_annotation_quantized(ctx, rule='FRAME/every-annotation-quantized'):
  """"every ... text annotation gets its quantized step": _quantize_notes may not select annotations by their type (a chord symbol, a
  beat and an annotation of unknown type are all stamped).  A filter on annotation_type on the way to the store leaves the others at
  whatever step they carried - and lets one before time zero through unrejected."""
  fi = ctx.func(SL + ':_quantize_notes')
  fn = fi.node
  sel = []
  for c in ast.walk(fn):
    if isinstance(c, (ast.ListComp, ast.GeneratorExp, ast.SetComp)):
      for g in c.generators:
        if 'text_annotations' in norm_text(g.iter) and any(isinstance(a, ast.Attribute) and a.attr == 'annotation_type' for f in g.ifs for a in ast.walk(f)):
          sel.append(c)
  for st in U.walk_stmts(fn):
    if isinstance(st, ast.Assign) and len(st.targets) == 1 and isinstance(st.targets[0], ast.Attribute) and st.targets[0].attr == 'quantized_step':
      for t, _p in U.path_conditions(fn, st):
        if any(isinstance(a, ast.Attribute) and a.attr == 'annotation_type' for a in ast.walk(t)):
          sel.append(st)
  ctx.ob(rule, fi, sel[0] if sel else fn, not sel, 'annotations are quantized whatever their type' if not sel else
         '_quantize_notes selects text annotations by annotation_type (%s): the annotations of the other types (beats, unknown) keep the step they carried and are not checked for a negative '
         'step' % norm_text(sel[0])[:70], construct='_quantize_notes stamps every text annotation', definite=True)


def every_exit_quantizes(ctx, rule='PAIR/every-exit-quantizes'):
  """Must-pass-through: every normal exit of quantize_note_sequence / quantize_note_sequence_absolute has run _quantize_notes on
  the copy (and, before it, the validations that precede it).  A return that comes earlier - "already quantized at this resolution"
  - hands back a sequence whose steps are whatever the input carried."""
  for name in ('quantize_note_sequence', 'quantize_note_sequence_absolute'):
    fi = ctx.func(SL + ':' + name)
    miss = U.exits_missing_call(fi.node, lambda c: (dotted(c.func) or '').split('.')[-1] == '_quantize_notes')
    cons = '%s: every normal exit has passed _quantize_notes' % name
    if not miss:
      ctx.ob(rule, fi, fi.node, True, 'every normal exit of %s has quantized the notes' % name, construct=cons)
    for ex in miss:
      node = ex if ex is not fi.node else fi.node
      conds = U.path_conditions(fi.node, ex) if ex is not fi.node else []
      ctx.ob(rule, fi, node, False, '%s can return%s without having called _quantize_notes: the steps, the total and the validation of the result are those of the input, not of this '
             'quantization' % (name, (' (when %s)' % ' and '.join(('' if p else 'not ') + norm_text(t)[:60] for t, p in conds)) if conds else ''), construct=cons, definite=True)


def change_detection_exact(ctx, rule='ESC/change-is-exact'):
  """"a sequence with a tempo / time signature change is rejected": any difference is a change.  A test that lets nearly equal values
  pass (math.isclose, numpy.isclose / allclose, |a - b| against a tolerance) accepts a sequence with two different tempos and
  quantizes it at whichever is stored first."""
  fi = ctx.func(SL + ':quantize_note_sequence')
  fn = fi.node
  n = 0
  for r in ast.walk(fn):
    if not (isinstance(r, ast.Raise) and r.exc is not None):
      continue
    cls = (dotted(r.exc.func) if isinstance(r.exc, ast.Call) else dotted(r.exc)) or ''
    if cls.split('.')[-1] not in ('MultipleTempoError', 'MultipleTimeSignatureError'):
      continue
    n += 1
    conds = [U.expand_locals(fn, t, at=r) for t, _p in U.path_conditions(fn, r)]
    loose = []
    for t in conds:
      for c in ast.walk(t):
        if isinstance(c, ast.Call) and (dotted(c.func) or '').split('.')[-1] in ('isclose', 'allclose', 'approx', 'assert_allclose'):
          loose.append(norm_text(c))
        if isinstance(c, ast.Compare) and len(c.ops) == 1 and isinstance(c.ops[0], (ast.Lt, ast.LtE, ast.Gt, ast.GtE)):
          for side in (c.left, c.comparators[0]):
            if isinstance(side, ast.Call) and dotted(side.func) in ('abs', 'math.fabs', 'np.abs', 'numpy.abs') and side.args and isinstance(side.args[0], ast.BinOp) and isinstance(side.args[0].op, ast.Sub):
              loose.append(norm_text(c))
    cons = '%s is raised for any difference' % cls.split('.')[-1]
    ctx.ob(rule, fi, r, not loose, 'the change test compares exactly' if not loose else
           'the test on the way to `raise %s` lets nearly equal values pass (%s): two events that differ by less than the tolerance are a change all the same, and the sequence is quantized '
           'with whichever of them is stored first instead of being rejected' % (cls.split('.')[-1], loose[0][:70]), construct=cons, definite=True)
  if n == 0:
    why = 'cannot classify: no raise of MultipleTempoError / MultipleTimeSignatureError in quantize_note_sequence itself'
    ctx.ob(rule, fi, fn, False, why, construct='a change is raised for any difference', unknown=why)


def escapes(ctx, rel, ab):
  for name, res, want in (('quantize_note_sequence', rel, DOCUMENTED), ('quantize_note_sequence_absolute', ab, {'NegativeTimeError'})):
    fi = ctx.func(SL + ':' + name)
    seen = {}
    for (node, chain, func) in res.raises:
      cls = None
      if node.exc is not None:
        cls = dotted(node.exc.func) if isinstance(node.exc, ast.Call) else dotted(node.exc)
      cls = (cls or 're-raise').split('.')[-1]
      seen.setdefault(cls, []).append((node, func))
    for cls, lst in sorted(seen.items()):
      ok = cls in want
      ctx.ob('ESC/class', lst[0][1], lst[0][0], ok, '%s may raise %s (documented)' % (name, cls) if ok else
             '%s may raise %s, which is not one of the documented rejection errors %s' % (name, cls, sorted(want)),
             construct='%s raises %s' % (name, cls))
    for cls in sorted(want):
      ok = cls in seen
      ctx.ob('ESC/reachable', fi, fi.node, ok, '%s has a raise site for %s' % (name, cls) if ok else
             '%s can no longer raise %s: the corresponding input is quantized instead of rejected' % (name, cls),
             construct='%s can raise %s' % (name, cls))
  # the negative check is on the quantized step
  qn = ctx.func(SL + ':_quantize_notes')
  for st in U.walk_stmts(qn.node):
    if isinstance(st, ast.If) and any(isinstance(x, ast.Raise) for x in st.body):
      attrs = set(n.attr for n in ast.walk(st.test) if isinstance(n, ast.Attribute))
      cmps = [c for c in ast.walk(st.test) if isinstance(c, ast.Compare)]
      ok = attrs and attrs <= {'quantized_start_step', 'quantized_end_step', 'quantized_step'} and \
          all(U.compare_nf(c) is not None and U.compare_nf(c)[1] == '<' and U.compare_nf(c)[2] == '0' for c in cmps)
      # located deviation: the guard of the rejection reads the raw time of the event and no quantized step at all
      raw = attrs & {'time', 'start_time', 'end_time'}
      ctx.ob('ESC/negative-on-step', qn, st, ok, 'negative check compares the quantized step with 0' if ok else
             'negative-time rejection does not test "quantized step < 0" (%s): %s' % (norm_text(st.test), (
                 'it tests the raw %s, so an event less than half a step before zero - whose nearest step is 0 and which is quantized there - is rejected instead' % '/'.join(sorted(raw))
                 if raw else 'the rejected region is no longer "two or more steps before zero"')),
             definite=bool(raw) and not (attrs & {'quantized_start_step', 'quantized_end_step', 'quantized_step'}))


def validation(ctx):
  fi = ctx.func(SL + ':quantize_note_sequence')
  fn = fi.node
  first_q = None
  for i, st in enumerate(fn.body):
    if any((dotted(c.func) or '') in ('quantize_to_step', '_quantize_notes') for c in U.calls_in(st)):
      first_q = i
      break
  ctx.require(first_q is not None, 'quantize_note_sequence: quantization statements not found')
  guards = {'power-of-2': None, 'numerator-zero': None}
  for i, st in enumerate(fn.body):
    if isinstance(st, ast.If) and _raising(ctx, fi, st.body):
      t = norm_text(st.test)
      if '_is_power_of_2' in t and 'denominator' in t:
        guards['power-of-2'] = i
      c = U.compare_nf(st.test)
      if c is not None and c[1] == '==' and {c[0], c[2]} == {'numerator', '0'}:
        guards['numerator-zero'] = i
  for g, i in guards.items():
    ok = i is not None and i < first_q
    ctx.ob('ESC/validation-first', fi, fn.body[i] if i is not None else fn, ok,
           '%s check precedes quantization' % g if ok else 'the %s rejection is missing or comes after quantization' % g,
           construct='%s rejection before quantization' % g)
  p2 = ctx.func(SL + ':_is_power_of_2')
  r = [s for s in U.walk_stmts(p2.node) if isinstance(s, ast.Return)]
  ctx.require(len(r) == 1 and r[0].value is not None and len(p2.params()) == 1, '_is_power_of_2: unexpected shape')
  x = p2.params()[0]
  v = r[0].value
  trick = [n for n in ast.walk(v) if isinstance(n, ast.BinOp) and isinstance(n.op, ast.BitAnd) and
           {norm_text(n.left), norm_text(n.right)} == {x, '%s - 1' % x}]
  ctx.require(trick, '_is_power_of_2 no longer uses the x & (x - 1) idiom: cannot decide')
  # the trick must be tested for zero, and x itself for non-zero
  zero_tested = False
  nonzero_x = False
  if isinstance(v, ast.BoolOp) and isinstance(v.op, ast.And):
    for part in v.values:
      if isinstance(part, ast.Name) and part.id == x:
        nonzero_x = True
      if isinstance(part, ast.Compare) and len(part.ops) == 1 and (U.compare_full(part) or ())[:3] in ((x, '!=', '0'), ('0', '<', x)):
        nonzero_x = True
      if isinstance(part, ast.UnaryOp) and isinstance(part.op, ast.Not) and part.operand is trick[0]:
        zero_tested = True
      if isinstance(part, ast.Compare) and part.left is trick[0] and isinstance(part.ops[0], ast.Eq) and U.const_value(part.comparators[0]) == 0:
        zero_tested = True
  elif isinstance(v, ast.UnaryOp) and isinstance(v.op, ast.Not) and v.operand is trick[0]:
    zero_tested = True
  elif isinstance(v, ast.Compare) and len(v.ops) == 1 and isinstance(v.ops[0], ast.Eq) and \
      ((v.left is trick[0] and U.const_value(v.comparators[0]) == 0) or (v.comparators[0] is trick[0] and U.const_value(v.left) == 0)):
    zero_tested = True
  ok = zero_tested and nonzero_x
  ctx.ob('ESC/power-of-2', p2, r[0], ok, 'x is non-zero and x & (x - 1) is zero' if ok else
         'power-of-two test %s does not require both x != 0 and x & (x - 1) == 0' % norm_text(v), construct='power-of-two test',
         definite=bool(trick) and zero_tested and not nonzero_x)      # the idiom is located and tested for zero, but nothing excludes x == 0
  # location-independent: inside a loop over the tempos / time signatures, the rejection of a change must not be exempted by
  # the event's *time*: two different tempos (or meters) stamped with the same time, e.g. both at 0, are a change as well
  for lp in ast.walk(fn):
    if not (isinstance(lp, ast.For) and isinstance(lp.target, ast.Name)):
      continue
    v = lp.target.id
    src = norm_text(U.expand_locals(fn, lp.iter, at=lp))
    fld = next((f for f in ('tempos', 'time_signatures') if ('.' + f) in src), None)
    if fld is None:
      continue
    for r_ in U.walk_stmts(lp):
      if not (isinstance(r_, ast.Raise) and r_.exc is not None and (dotted(r_.exc.func) if isinstance(r_.exc, ast.Call) else dotted(r_.exc) or '').startswith('Multiple')):
        continue
      conds = U.path_conditions(fn, r_, stop_at=lp)
      timed = [(t, p) for t, p in conds if ('%s.time' % v) in norm_text(t)]
      ctx.ob('ESC/change-not-exempted-by-time', fi, r_, not timed, 'every %s entry after the first is compared, whatever its time' % fld if not timed else
             'the rejection of a changed %s value is reached only if %s: entries excluded by that condition are never compared, so two different values stamped with the same '
             'time (e.g. both at 0) are accepted and one of them silently wins' % (fld[:-1], ' and '.join(('' if p else 'not ') + '(' + norm_text(t) + ')' for t, p in timed)),
             construct='change detection over %s ignores the time stamp' % fld, definite=True)
  # change detection: every later event compared on the value fields with !=, against the first in time order
  for field, attrs in (('time_signatures', {'numerator', 'denominator'}), ('tempos', {'qpm'})):
    loop = None
    for n in ast.walk(fn):
      if isinstance(n, ast.For) and isinstance(n.iter, ast.Subscript) and isinstance(n.iter.slice, ast.Slice) and \
          U.const_value(n.iter.slice.lower) == 1 and isinstance(n.iter.value, ast.Name):
        sname = n.iter.value.id
        v = cov.local_value(fn, sname, n)
        if v is not None and isinstance(v, ast.Call) and dotted(v.func) == 'sorted' and norm_text(v.args[0]).endswith('.' + field):
          loop = (n, sname)
    ok = False
    why = 'no loop over the time-sorted %s[1:]' % field
    if loop is not None:
      n, sname = loop
      ifs = [s for s in n.body if isinstance(s, ast.If) and any(isinstance(x, ast.Raise) for x in s.body)]
      got = set()
      for s in ifs:
        for c in ast.walk(s.test):
          if isinstance(c, ast.Compare) and len(c.ops) == 1 and isinstance(c.ops[0], ast.NotEq):
            l, r = c.left, c.comparators[0]
            if isinstance(l, ast.Attribute) and isinstance(r, ast.Attribute) and l.attr == r.attr and \
                {norm_text(l.value), norm_text(r.value)} == {norm_text(n.target), sname + '[0]'}:
              got.add(l.attr)
      ok = got == attrs
      why = 'compared fields %s' % sorted(got)
    ctx.ob('ESC/change-detection', fi, loop[0] if loop else fn, ok,
           'every later %s is compared with the first in time order on %s' % (field, sorted(attrs)) if ok else
           'change detection for %s does not compare %s of every later event with the first in time order (%s)' % (field, sorted(attrs), why),
           construct='%s change detection on %s' % (field, sorted(attrs)))


MUTANTS = [
    Mutant('seed C01_b: the first of the sorted tempos is zeroed, the first stored one is kept', F, '    qns.tempos[0].time = 0\n', '    tempos[0].time = 0\n', rule='FRAME/single-at-zero'),
    Mutant('the kept time signature is not moved to time 0', F, '    qns.time_signatures[0].time = 0\n', '', rule='FRAME/'),
    Mutant('seed C11_b: total_quantized_steps assigned after the notes (absolute)', F,
           '  qns.total_quantized_steps = quantize_to_step(qns.total_time, steps_per_second)\n  _quantize_notes(qns, steps_per_second)\n\n  return qns\n\n\ndef transpose_note_sequence',
           '  _quantize_notes(qns, steps_per_second)\n  qns.total_quantized_steps = quantize_to_step(qns.total_time, steps_per_second)\n\n  return qns\n\n\ndef transpose_note_sequence', rule='PAIR/total-then-notes'),
    Mutant('cutoff 0.75', F, 'QUANTIZE_CUTOFF = 0.5', 'QUANTIZE_CUTOFF = 0.75', rule='ROUND/cutoff'),
    Mutant('truncate without the half', F, '  return int(unquantized_steps + (1 - quantize_cutoff))', '  return int(unquantized_steps)', rule='ROUND/half'),
    Mutant('round() (banker\'s ties)', F, '  return int(unquantized_steps + (1 - quantize_cutoff))', '  return round(unquantized_steps)', rule='ROUND/floor-class'),
    Mutant('half added twice', F, '  unquantized_steps = unquantized_seconds * steps_per_second\n', '  unquantized_steps = unquantized_seconds * steps_per_second + 0.5\n', rule='ROUND/half'),
    Mutant('alias instead of deepcopy', F, 'qns = copy.deepcopy(note_sequence)\n\n  qns.quantization_info.steps_per_quarter', 'qns = note_sequence\n\n  qns.quantization_info.steps_per_quarter', rule='OWN/'),
    Mutant('total_time rewritten on the copy', F, '  qns.total_quantized_steps = quantize_to_step(qns.total_time, steps_per_second)\n  _quantize_notes(qns, steps_per_second)\n\n  return qns\n\n\ndef quantize_note_sequence_absolute',
           '  qns.total_quantized_steps = quantize_to_step(qns.total_time, steps_per_second)\n  _quantize_notes(qns, steps_per_second)\n  qns.total_time = qns.total_quantized_steps / steps_per_second\n\n  return qns\n\n\ndef quantize_note_sequence_absolute', rule='FRAME/'),
    Mutant('absolute quantizer drops tempos', F, '  qns.quantization_info.steps_per_second = steps_per_second\n', '  qns.quantization_info.steps_per_second = steps_per_second\n  del qns.tempos[1:]\n', rule='FRAME/'),
    Mutant('kept time signature moved to 4/4', F, '    qns.time_signatures[0].time = 0\n', '    qns.time_signatures[0].time = 0\n    qns.time_signatures[0].numerator = 4\n', rule='FRAME/'),
    Mutant('denominator check removed', F, "  if not _is_power_of_2(qns.time_signatures[0].denominator):\n    raise BadTimeSignatureError(\n        'Denominator is not a power of 2. Time signature: %d/%d' %\n        (qns.time_signatures[0].numerator, qns.time_signatures[0].denominator))\n", '', rule='ESC/'),
    Mutant('zero numerator raises ValueError', F, "    raise BadTimeSignatureError(\n        'Numerator is 0.", "    raise ValueError(\n        'Numerator is 0.", rule='ESC/class'),
    Mutant('tempo change no longer rejected', F, '      if tempo.qpm != tempos[0].qpm:\n        raise MultipleTempoError(', '      if False:\n        raise MultipleTempoError(', rule='ESC/change-detection'),
    Mutant('time signature change compares numerators only', F, '      if (time_signature.numerator != time_signatures[0].numerator or\n          time_signature.denominator != time_signatures[0].denominator):',
           '      if (time_signature.numerator != time_signatures[0].numerator):', rule='ESC/change-detection'),
    Mutant('negative check on the raw time', F, '    if note.quantized_start_step < 0 or note.quantized_end_step < 0:', '    if note.start_time < 0 or note.end_time < 0:', rule='ESC/negative-on-step'),
    Mutant('one-step minimum only for short notes', F, '    if note.quantized_end_step == note.quantized_start_step:\n      note.quantized_end_step += 1',
           '    if note.quantized_end_step == note.quantized_start_step and note.end_time > note.start_time:\n      note.quantized_end_step += 1', rule='PAIR/min-one-step'),
    Mutant('total steps extension before the fix-up', F, '    if note.quantized_end_step == note.quantized_start_step:\n      note.quantized_end_step += 1\n',
           '    if note.quantized_end_step > note_sequence.total_quantized_steps:\n      note_sequence.total_quantized_steps = note.quantized_end_step\n    if note.quantized_end_step == note.quantized_start_step:\n      note.quantized_end_step += 1\n', rule=None, expect='silent'),
    Mutant('total steps extension dropped', F, '    if note.quantized_end_step > note_sequence.total_quantized_steps:\n      note_sequence.total_quantized_steps = note.quantized_end_step\n', '', rule='PAIR/total-steps'),
    Mutant('end step from start time', F, 'note.quantized_end_step = quantize_to_step(note.end_time, steps_per_second)', 'note.quantized_end_step = quantize_to_step(note.start_time, steps_per_second)', rule='SITE/field-pairing'),
    Mutant('events quantized with an explicit cutoff', F, 'event.quantized_step = quantize_to_step(event.time, steps_per_second)', 'event.quantized_step = quantize_to_step(event.time, steps_per_second, 0.75)', rule='SITE/default-cutoff'),
    Mutant('steps per second off by the tempo', F, '  return steps_per_quarter * qpm / 60.0', '  return steps_per_quarter * 120.0 / 60.0', rule='ROUND/steps-per-second'),
    Mutant('total_time quantized at another resolution', F, '  qns.total_quantized_steps = quantize_to_step(qns.total_time, steps_per_second)\n  _quantize_notes(qns, steps_per_second)\n\n  return qns\n\n\ndef quantize_note_sequence_absolute',
           '  qns.total_quantized_steps = quantize_to_step(qns.total_time, steps_per_quarter)\n  _quantize_notes(qns, steps_per_second)\n\n  return qns\n\n\ndef quantize_note_sequence_absolute', rule='SITE/same-resolution'),
    Mutant('power-of-two test accepts 0', F, '  return x and not x & (x - 1)', '  return not x & (x - 1)', rule='ESC/power-of-2'),
    # equivalent
    Mutant('power-of-two test spelled with comparisons', F, '  return x and not x & (x - 1)', '  return x > 0 and (x & (x - 1)) == 0', expect='silent'),
    Mutant('math.floor(x + .5)', F, '  return int(unquantized_steps + (1 - quantize_cutoff))', '  return int(math.floor(unquantized_steps + 0.5))', expect='silent'),
    Mutant('operand order', F, '  unquantized_steps = unquantized_seconds * steps_per_second\n', '  unquantized_steps = steps_per_second * unquantized_seconds\n', expect='silent'),
    Mutant('validation moved into a helper', F, "  if qns.time_signatures[0].numerator == 0:\n    raise BadTimeSignatureError(\n        'Numerator is 0. Time signature: %d/%d' %\n        (qns.time_signatures[0].numerator, qns.time_signatures[0].denominator))\n",
           "  if qns.time_signatures[0].numerator == 0:\n    _bad_numerator(qns)\n", expect='silent',
           also=[(F, "def _is_power_of_2(x):", "def _bad_numerator(qns):\n  raise BadTimeSignatureError(\n      'Numerator is 0. Time signature: %d/%d' %\n      (qns.time_signatures[0].numerator, qns.time_signatures[0].denominator))\n\n\ndef _is_power_of_2(x):")]),
    Mutant('steps per second written as a product of reciprocals', F, '  return steps_per_quarter * qpm / 60.0', '  return qpm / 60.0 * steps_per_quarter', expect='silent'),
]

RENAME_FUNCS = [(F, n) for n in ('quantize_to_step', 'steps_per_quarter_to_steps_per_second', '_quantize_notes', 'quantize_note_sequence',
                                 'quantize_note_sequence_absolute', '_is_power_of_2')]

EXPLANATION += (" Location-independent additions: PAIR/running-maximum (a field raised against a snapshot of itself taken before the loop), ESC/change-not-exempted-by-time (the rejection of a changed tempo/meter inside the loop does not depend on the event's time).")
EXPLANATION += (' Round 6: ' + 'ESC/negative-on-step is a located deviation (wherever it stands) when the guard of a NegativeTimeError reads a raw time and no quantized step.')
EXPLANATION += (' Round 7: ' + 'ESC/rejection-scenarios (REJECTIONS table: every documented rejection is reached for exactly the documented inputs; raise sites matched by exception class and the attributes their guard reads, through helpers and literal condition tables; values folded, including _is_power_of_2); FRAME/element-zero.')
EXPLANATION += (' Rounds 9-10: ' + "FRAME: keyword arguments of add(...) are held to the same table as field-wise stores; stored defaults are folded through the reaching assignment; FRAME/single-at-zero reads a sorted view of the argument's list as the copy's list.")
EXPLANATION += (' Round 11: ' + 'ESC/change-is-exact (no tolerance on the way to the multiple-tempo / multiple-time-signature rejections); STRETCH/fields-named shared from C13.')
EXPLANATION += (' Round 12: ' + 'PAIR/every-exit-quantizes; FRAME/every-annotation-quantized.')
EXPLANATION += (' Round 14: ' + 'ROUND/no-rounding-before-the-floor.')
