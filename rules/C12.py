"""C12 - results do not depend on the storage order of notes and events (DESIGN.md §3.2, §4 C12)."""
import ast

from sa import ordr, astutil as U
from sa.loader import norm_text, dotted, AnalysisError
from sa.selftest import Mutant

PROPERTY = 'C12'
LEVEL_TEXT = (
    'Static iteration-order analysis: in every operation named by the property, each traversal of a permutable repeated '
    'field (notes, control_changes, pitch_bends, text_annotations, tempos, time_signatures, key_signatures) in storage '
    'order has an order-insensitive body (own-element writes, bag accumulation, commutative reductions, idempotent constant '
    'stores, find-unique), every order-sensitive consumer iterates a sequence sorted by a time/step key, and no positional '
    'read ([0], [-1], [i], slices) is applied to storage-ordered data. Ties among NOTES that are equal in a sort key '
    '(stable sorts visit them in storage order) are decided too: the note fields the consumer uses order-sensitively '
    '(carried state, first-wins / emit-on-change regions, last-writer-wins stores, values packed together with carried state) '
    'must be ordered by the key, be address-only, or be in a triaged table with a reason. Ties among coinciding state events '
    'of one kind (two tempos at one instant) and floating-point summation order are not claimed. This decides the '
    'structural necessary condition for permutation invariance for all inputs and all permutations, which sampling cannot.')
LEVEL_NOTE = ('Trusted: PrettyMIDI.write sorts track events (bag accumulation into pm.* lists is order-insensitive); a relative-'
              'quantized NoteSequence carries exactly one time signature and tempo (single writer of quantization_info checked '
              'on every run); allow-list rows each carry a structural precondition that is re-checked on every run.')
TECHNIQUE = 'static analysis: provenance (storage/sorted) def-use analysis of iterables + loop-body effect classification with liveness (loop-carried state) + sort-key tie analysis (key fields vs order-sensitive reads), over the AST'
DESIGN_REF = 'DESIGN.md sections 3.2 and 4 (C12)'
EXPLANATION = (
    'ORD analysis over 27 functions of 7 modules. For each: provenance of every iterated or subscripted expression '
    '(STORAGE = a permutable repeated field of the argument or of a copy of it, or anything that preserves its relative order; '
    'SORTED = sorted()/.sort() with a key starting with a time/step field); every STORAGE traversal body is classified by its '
    'effects (stores into shared objects, loop-carried variables decided by liveness, break/return, calls on objects the loop '
    'also mutates); positional reads of STORAGE values are violations unless an allow-list row with a re-checked structural '
    'precondition applies. A function of the scope modules with a NoteSequence parameter that is in neither the scope table '
    'nor the out-of-scope table is an analysis error (fail closed). TIE (sa/ties.py): for each of the 9 sorted(<notes>, key=...) '
    'sites the key fields (closed under start_time -> quantized_start_step etc.) are compared with the note fields read in '
    'order-sensitive positions of the consumer loop; the residual must be empty, address-only (subscript only), or listed in '
    'TIE_ALLOW with the reason confirmed by reading.')
TRUSTED = ['PrettyMIDI.write sorts events of each track; pm.<list>.append is a bag accumulation',
           'quantization is monotone, so a key ordering by start_time also orders by quantized_start_step (same for end_time, time)']
NOT_DECIDED = ['ties between coinciding state events of one kind (two tempos / time signatures / control changes of one number at the same instant): which is "in force" is not defined by the property',
               'overlapping paints of tied duplicate notes of different lengths in the frame rolls are accepted by the TIE_ALLOW table (reason recorded), not derived',
               'floating-point summation order']
ASSUMPTIONS = ['quantized inputs of extractors were produced by quantize_note_sequence (single writer of quantization_info, checked)']
# rules whose verdict does not depend on how the statements are arranged (semantic analyses); all other rules are shape rules:
# when one of those fails in a function that was restructured relative to reference/signatures.json the verdict is "cannot decide"
ROBUST = ('ORD/traversal', 'TIE')
FLOORS = {'ORD/traversal': 30, 'ORD/sorted-traversal': 14, 'ORD/positional': 10, 'TIE/note-sort': 10}

SCOPE = [
    ('sequences_lib:quantize_note_sequence', ['note_sequence']),
    ('sequences_lib:quantize_note_sequence_absolute', ['note_sequence']),
    ('sequences_lib:_quantize_notes', ['note_sequence']),
    ('sequences_lib:trim_note_sequence', ['sequence']),
    ('sequences_lib:_extract_subsequences', ['sequence']),
    ('sequences_lib:extract_subsequence', ['sequence']),
    ('sequences_lib:split_note_sequence', ['note_sequence']),
    ('sequences_lib:split_note_sequence_on_time_changes', ['note_sequence']),
    ('sequences_lib:split_note_sequence_on_silence', ['note_sequence']),
    ('sequences_lib:apply_sustain_control_changes', ['note_sequence']),
    ('sequences_lib:transpose_note_sequence', ['ns']),
    ('sequences_lib:stretch_note_sequence', ['note_sequence']),
    ('sequences_lib:shift_sequence_times', ['sequence']),
    ('sequences_lib:sequence_to_pianoroll', ['sequence']),
    ('sequences_lib:steps_per_bar_in_quantized_sequence', ['note_sequence']),
    ('midi_io:note_sequence_to_pretty_midi', ['sequence']),
    ('pianoroll_lib:PianorollSequence._from_quantized_sequence', ['quantized_sequence']),
    ('pianoroll_lib:PianorollSequence.__init__', ['quantized_sequence']),
    ('performance_lib:_program_and_is_drum_from_sequence', ['sequence']),
    ('performance_lib:BasePerformance._from_quantized_sequence', ['quantized_sequence']),
    ('performance_lib:Performance.__init__', ['quantized_sequence']),
    ('performance_lib:MetricPerformance.__init__', ['quantized_sequence']),
    ('performance_lib:NotePerformance.__init__', ['quantized_sequence']),
    ('performance_lib:NotePerformance._from_quantized_sequence', ['quantized_sequence']),
    ('melodies_lib:Melody.from_quantized_sequence', ['quantized_sequence']),
    ('drums_lib:DrumTrack.from_quantized_sequence', ['quantized_sequence']),
    ('chords_lib:ChordProgression.from_quantized_sequence', ['quantized_sequence']),
]
SCOPE_MODULES = ['sequences_lib', 'midi_io', 'pianoroll_lib', 'performance_lib', 'melodies_lib', 'drums_lib', 'chords_lib']
# functions of the scope modules that touch permutable fields but are not among the operations C12 names
OUT_OF_SCOPE = {
    'sequences_lib:remove_redundant_data': 'concatenation family (C13), not named by C12',
    'sequences_lib:concatenate_sequences': 'concatenation family (C13)',
    'sequences_lib:merge_sequences': 'concatenation family (C13)',
    'sequences_lib:repeat_sequence_to_duration': 'concatenation family (C13)',
    'sequences_lib:expand_section_groups': 'section expansion, not named by C12',
    'sequences_lib:augment_note_sequence': 'random augmentation, in-place by contract',
    'sequences_lib:adjust_notesequence_times': 'time adjustment (C13), not named by C12',
    'sequences_lib:rectify_beats': 'time adjustment (C13)',
    'sequences_lib:infer_dense_chords_for_sequence': 'chord inference, not named by C12',
    'sequences_lib:sequence_to_valued_intervals': 'mir_eval export: returns parallel arrays in storage order by design',
    'sequences_lib:pianoroll_to_note_sequence': 'builds a new sequence; no input sequence',
    'sequences_lib:pianoroll_onsets_to_note_sequence': 'builds a new sequence; no input sequence',
    'midi_io:midi_to_note_sequence': 'reader: builds a new sequence',
    'chords_lib:event_list_chords': 'helper over already extracted event lists, not an extractor named by C12',
    'chords_lib:event_list_keys': 'helper over already extracted event lists',
    'chords_lib:add_chords_to_sequence': 'writer helper',
    'chords_lib:add_keys_to_sequence': 'writer helper',
    'chords_lib:BasicChordRenderer.render': 'chord rendering, not named by C12',
    'chords_lib:BasicChordRenderer._render_notes': 'chord rendering',
    'chords_lib:ChordRenderer.render': 'abstract',
    'pianoroll_lib:PianorollSequence.to_sequence': 'renderer: builds a new sequence',
    'performance_lib:BasePerformance._to_sequence': 'renderer: builds a new sequence',
    'performance_lib:NotePerformance.to_sequence': 'renderer: builds a new sequence',
    'melodies_lib:Melody.to_sequence': 'renderer',
    'drums_lib:DrumTrack.to_sequence': 'renderer',
    'chords_lib:ChordProgression.to_sequence': 'renderer',
    'melodies_lib:midi_file_to_melody': 'convenience wrapper around the extractor',
    'drums_lib:midi_file_to_drum_track': 'convenience wrapper around the extractor',
}


def silence_previous_note(ctx, rule):
  """Location-independent: split_note_sequence_on_silence walks the notes in start order (a stable sort by start_time).  If the
  silence in front of a note is measured from the end of *one* earlier note - the previous one in that order - then among notes
  that start together the one stored last is "the previous note", and with different lengths the split points depend on the
  storage order.  Measured from a running maximum of the ends (order-insensitive reduction) they do not.  Not raised when the
  sort key also orders by end_time (then the previous note is determined by the values alone)."""
  fi = ctx.func('sequences_lib:split_note_sequence_on_silence')
  fn = fi.node
  loopvars = set()
  for n in ast.walk(fn):
    if isinstance(n, (ast.For, ast.comprehension)):
      loopvars.update(x.id for x in ast.walk(n.target) if isinstance(x, ast.Name))
  keyed_by_end = any(isinstance(c, ast.Call) and dotted(c.func) in ('sorted',) or (isinstance(c, ast.Call) and isinstance(c.func, ast.Attribute) and c.func.attr == 'sort')
                     for c in ast.walk(fn)) and any(isinstance(k, ast.keyword) and k.arg == 'key' and any(isinstance(x, ast.Attribute) and x.attr == 'end_time' for x in ast.walk(k.value))
                                                    for c in ast.walk(fn) if isinstance(c, ast.Call) for k in c.keywords)
  # loop variables that stand for the end of one note: bound (directly or through zip) to a collection of `x.end_time` values
  end_vars = set()
  for nd in ast.walk(fn):
    gens = [(nd.target, nd.iter)] if isinstance(nd, ast.For) else [(g.target, g.iter) for g in getattr(nd, 'generators', [])]
    for tg, it in gens:
      pairs = [(tg, it)]
      if isinstance(it, ast.Call) and dotted(it.func) == 'zip' and isinstance(tg, ast.Tuple) and len(tg.elts) == len(it.args):
        pairs = list(zip(tg.elts, it.args))
      for t_, src in pairs:
        if not isinstance(t_, ast.Name):
          continue
        srcx = U.expand_locals(fn, src, at=nd)
        if any(isinstance(m, (ast.ListComp, ast.GeneratorExp)) and isinstance(m.elt, ast.Attribute) and m.elt.attr == 'end_time' for m in ast.walk(srcx)):
          end_vars.add(t_.id)
  n = 0
  for c in ast.walk(fn):
    if not isinstance(c, ast.Compare):
      continue
    ex = U.expand_locals(fn, c, at=c)
    comps = set(id(x) for m in ast.walk(ex) if isinstance(m, (ast.ListComp, ast.GeneratorExp, ast.SetComp, ast.DictComp)) for x in ast.walk(m))
    if not any(isinstance(x, ast.Name) and x.id == 'gap_seconds' and id(x) not in comps for x in ast.walk(ex)):
      continue        # gap_seconds only inside a collection this comparison measures (its own filter is judged where it stands)
    n += 1
    inside_max = set(id(x) for m in ast.walk(ex) if isinstance(m, ast.Call) and dotted(m.func) == 'max' for x in ast.walk(m))
    single = [x for x in ast.walk(ex) if id(x) not in inside_max and (
        (isinstance(x, ast.Attribute) and x.attr == 'end_time' and isinstance(x.value, ast.Name) and x.value.id in loopvars) or (isinstance(x, ast.Name) and x.id in end_vars))]
    ok = not single or keyed_by_end
    ctx.ob(rule, fi, c, ok, 'the gap test reads no single note\'s end (or ties are ordered by end_time)' if ok else
           'the gap test %s measures the silence from %s, the end of the one note that precedes in start order; the sort is stable and keyed by start_time only, so among notes that '
           'start together the one stored last is that note: with different lengths the split points depend on the storage order' % (norm_text(c), norm_text(single[0])),
           construct='silence is measured from an order-insensitive reduction of the earlier ends', definite=True)
  if n == 0:
    why = 'cannot classify: no comparison with gap_seconds found in split_note_sequence_on_silence'
    ctx.ob(rule, fi, fn, False, why, construct='silence is measured from an order-insensitive reduction of the earlier ends', unknown=why)


def assumes_sorted(ctx, fi, o, rule):
  """heapq.merge and the bisect functions are only correct on inputs that are already sorted.  An argument whose order is the order
  in which events are stored (a repeated field, or a list filled while walking one) is sorted only if the caller happened to store
  its events that way: on the others the merged stream goes backwards in time / the search lands anywhere.  Shared with the
  properties whose functions consume such a stream (C02, C11, C14)."""
  n = 0
  for c in U.calls_in(fi.node):
    d = dotted(c.func) or ''
    if d not in ordr.ORDER_ASSUMING:
      continue
    seqs = c.args if d == 'heapq.merge' else c.args[:1]
    for a in seqs:
      p = o.prov(a.value if isinstance(a, ast.Starred) else a, c)
      n += 1
      if p.kind in ('STORAGE', 'BADSORT'):
        unk = p.detail if p.detail.startswith(ordr.UNK) else None
        ctx.ob(rule, fi, c, False, '%s is handed to %s, which %s; its order is the storage order (%s): with events stored out of time order the result depends on - and is wrong for - that '
               'order' % (norm_text(a)[:50], d, ordr.ORDER_ASSUMING[d], p.detail), construct='%s(%s)' % (d, norm_text(a)[:40]), definite=unk is None, unknown=unk)
      else:
        ctx.ob(rule, fi, c, True, '%s: %s is %s' % (d, norm_text(a)[:40], p.detail or 'not in storage order'), construct='%s(%s)' % (d, norm_text(a)[:40]))
  return n


def one_key_per_state_table(ctx, fi, rule='ORD/one-key-per-state-table'):
  """A table that remembers "the latest event per (instrument, controller)" is written in more than one place; every store uses the
  same key.  A store keyed by another attribute of the event (its value instead of its number) files the event under a key the
  other stores never look at - and two events that collide under the wrong key overwrite each other in storage order."""
  fn = fi.node
  by_table = {}
  for st in U.walk_stmts(fn):
    if isinstance(st, ast.Assign) and len(st.targets) == 1 and isinstance(st.targets[0], ast.Subscript) and isinstance(st.targets[0].value, ast.Name) and \
        isinstance(st.targets[0].slice, ast.Tuple) and isinstance(st.value, ast.Name):
      t = st.targets[0]
      # the key with the stored event's own name abstracted, so that `cc` and `pedal_event` stores compare
      key = tuple(norm_text(e).replace(st.value.id + '.', '<event>.') for e in t.slice.elts)
      by_table.setdefault(t.value.id, []).append((st, key))
  for name, lst in sorted(by_table.items()):
    if len(lst) < 2:
      continue
    keys = sorted(set(k for _s, k in lst))
    cons = '%s: every store into %s uses one key' % (fi.qualname, name)
    if len(keys) == 1:
      ctx.ob(rule, fi, lst[0][0], True, '%d stores into %s, all keyed by %s' % (len(lst), name, ', '.join(keys[0])), construct=cons)
    else:
      common = max(keys, key=lambda k: sum(1 for _s, k2 in lst if k2 == k))
      odd = next(s_ for s_, k in lst if k != common)
      ctx.ob(rule, fi, odd, False, '%s is keyed by (%s) in %d store(s) and by (%s) in `%s`: the event is remembered under a key the other stores and the carry-forward never use, and which '
             'of two events that share that key is carried depends on the order in which they are stored' % (
                 name, ', '.join(common), sum(1 for _s, k in lst if k == common), ', '.join(next(k for s_, k in lst if s_ is odd)), norm_text(odd)[:70]), construct=cons, definite=True)


def assumes_sorted_in(ctx, names, rule='ORD/assumes-sorted'):
  """assumes_sorted for the scope functions with the given names (used by the properties those functions are anchored in)."""
  for fq, params in SCOPE:
    if fq.split(':')[1] in names:
      fi = ctx.func(fq)
      o = ordr.FuncORD(fi, [p for p in params if p in fi.params()])
      o.run()
      assumes_sorted(ctx, fi, o, rule)


def run(ctx):
  silence_previous_note(ctx, 'ORD/ties/silence-previous-note')
  scope_fq = set(f for f, _p in SCOPE)
  # fail closed: unclassified functions that traverse permutable fields
  for m in SCOPE_MODULES:
    mi = ctx.P.module(m)
    for qn, fi in mi.all_functions.items():
      fq = m + ':' + qn
      if fi.parent is not None:
        continue
      uses = any(isinstance(n, ast.Attribute) and n.attr in ordr.PERMUTABLE and isinstance(n.value, ast.Name) and
                 n.value.id in fi.params() for n in ast.walk(fi.node))
      if uses and fq not in scope_fq and fq not in OUT_OF_SCOPE:
        raise AnalysisError('%s reads a permutable repeated field of a parameter but is in neither the C12 scope table nor '
                            'the out-of-scope table (new operation?)' % fq)
  single_writer_check(ctx)
  for fq, params in SCOPE:
    fi = ctx.func(fq)
    for p in params:
      ctx.require(p in fi.params(), '%s no longer has parameter %s' % (fq, p))
    o = ordr.FuncORD(fi, params)
    sites = o.run()
    ctx.count('ord_functions')
    if fq == 'midi_io:note_sequence_to_pretty_midi':
      from sa import pmfacts
      ordr.instrument_order(ctx, fi, o, 'ORD/traversal/instrument-order', pmfacts.PMFacts().write_keeps_instrument_order())
    # a cut at the first element that fails a test keeps a *stored prefix* (or drops one): which elements survive depends on where
    # in the stored order the first failing one stands, whatever is done with the survivors afterwards (sorting them comes too late)
    for c in U.calls_in(fi.node):
      d = (dotted(c.func) or '').split('.')[-1]
      if d in ('takewhile', 'dropwhile') and len(c.args) == 2:
        p = o.prov(c.args[1], c)
        if p.kind in ('STORAGE', 'BADSORT'):
          unk = p.detail if p.detail.startswith(ordr.UNK) else None
          ctx.ob('ORD/stored-prefix', fi, c, False, '%s cuts %s at the first element that fails the test, in storage order (%s): an element that passes the test but is stored behind a '
                 'failing one is lost, so the result depends on the order in which the events are stored' % (d, norm_text(c.args[1]), p.detail),
                 construct='%s over %s' % (d, norm_text(c.args[1])), definite=unk is None, unknown=unk)
        else:
          ctx.ob('ORD/stored-prefix', fi, c, True, '%s runs over %s' % (d, p.detail or 'a sequence that is not in storage order'), construct='%s over %s' % (d, norm_text(c.args[1])))
    assumes_sorted(ctx, fi, o, 'ORD/assumes-sorted')
    one_key_per_state_table(ctx, fi)
    for s in sites:
      if s.kind == 'sorted-traversal':
        ctx.ob('ORD/sorted-traversal', fi, s.stmt, True, 'iterates %s' % s.prov.detail, construct=s.what)
        continue
      reasons = list(s.reasons)
      why_ok = None
      if reasons:
        okd, whyd = _elementwise_index_delete(fi, s)
        if okd:
          reasons = []
          why_ok = whyd
      if reasons and s.kind == 'positional':
        ok, why = allow(ctx, fi, o, s)
        if ok:
          reasons = []
          why_ok = 'allow-listed: ' + why
      rule = 'ORD/traversal' if s.kind == 'traversal' else 'ORD/positional'
      if reasons:
        unk = ordr.undecided_reason(s, reasons)
        if unk is None and s.kind == 'positional' and isinstance(s.node, ast.Subscript):
          walked = _walking_index(fi, s.node)
          if walked:
            # X[i] with i stepped by an enclosing loop is a traversal by index, not a read of one privileged position: whether its body
            # is element-wise is not something the positional rule can say
            unk = 'cannot classify: %s is read at an index (%s) that an enclosing loop steps through: a traversal by index' % (norm_text(s.node), walked)
        ctx.ob(rule, fi, s.stmt if s.kind == 'traversal' else s.node, False,
               '; '.join(reasons) + ' [provenance: storage order of %s]' % s.prov.detail, construct=s.what, unknown=unk,
               # a positional read of storage-ordered data is a finding of the order analysis itself; only the reads that the
               # allow-list may discharge by looking at their context (<seq>.time_signatures[0], <seq>.tempos[0]) depend on arrangement
               definite=(unk is None and s.kind == 'positional' and isinstance(s.node, ast.Subscript) and
                         not norm_text(s.node.value).endswith(('.time_signatures', '.tempos'))))
      else:
        ctx.ob(rule, fi, s.stmt if s.kind == 'traversal' else s.node, True,
               why_ok or ('storage-order traversal of %s with an order-insensitive body' % s.prov.detail
                          if s.kind == 'traversal' else 'whole-container or just-added-element access'), construct=s.what)

  tie_rule(ctx)


# ------------------------------------------------------------------ ties among equal sort keys
# (function, residual field) -> why tied notes that differ in this field still give the same result.  Confirmed by reading;
# a field outside this table that the consumer uses order-sensitively, and that the sort key does not order, is a violation.
TIE_ALLOW = {
    ('sequences_lib:_extract_subsequences', 'end_time'):
        'the statements under the carried subsequence index truncate the copy of the note just appended (the iteration\'s own object) and '
        'max-extend total_time; the index itself is advanced from start_time (the sort key) only',
    ('sequences_lib:sequence_to_pianoroll', 'end_time'):
        'the end time only selects the rows that are painted; what is painted is a constant, the key-ordered velocity, or a weight that depends on the '
        'row alone, so notes that tie in (start_time, velocity) paint equal values wherever they overlap',
    ('pianoroll_lib:PianorollSequence._from_quantized_sequence', 'quantized_end_step'):
        'the end step only selects the rows painted with the constant 1 (a union); the cleared row start-1 is determined by the sort key',
}


def tie_rule(ctx):
  from sa import ties
  nsites = 0
  for fq, _params in SCOPE:
    fi = ctx.func(fq)
    for site in ties.analyse_function(fi):
      nsites += 1
      keytxt = norm_text(site.key)
      ctx.require(bool(site.loops), '%s: the consumer of sorted(..., key=%s) was not found: cannot decide ties' % (fq, keytxt))
      if not site.residual:
        ctx.ob('TIE/note-sort', fi, site.call, True, 'notes that tie under %s are indistinguishable wherever the consumer is order-sensitive' % keytxt,
               construct='%s: ties under the note sort key' % fi.qualname)
        continue
      for f, lst in sorted(site.residual.items()):
        addr = all(s.kind.startswith('store into shared') and ties.address_only(ctx, fi, site, s, f) for s in lst)
        reason = 'different %s address different cells' % f if addr else TIE_ALLOW.get((fq, f))
        first = lst[0]
        ok = reason is not None
        ctx.ob('TIE/note-sort', fi, first.stmt if not ok else site.call, ok,
               'ties under %s may differ in %s: %s' % (keytxt, f, reason) if ok else
               'notes that tie under the sort key %s are visited in storage order, and the consumer distinguishes them by %s in an order-sensitive way (%s: %s): '
               'the result depends on the order in which the notes are stored' % (keytxt, f, first.kind, norm_text(first.stmt)[:100]),
               construct='%s: ties under the note sort key may differ in %s' % (fi.qualname, f))
  ctx.require(nsites >= 9, 'only %d note sorts found in the C12 scope (9 confirmed by hand)' % nsites)


# ------------------------------------------------------------------ allow list
def _elementwise_index_delete(fi, site):
  """`del X[i]` where i walks, from the highest index down, a list of indices taken from enumerate(X) by a test on the element
  alone ([k for k, e in enumerate(X) if P(e)]): the elements removed are chosen one by one by their own values, so the surviving
  multiset does not depend on the storage order.  Discharges both the traversal over the index list and the positional delete."""
  fn = fi.node
  dels = [d for d in ast.walk(site.stmt if site.stmt is not None else site.node) if isinstance(d, ast.Delete)] if site.kind == 'traversal' else []
  node = site.node
  cands = []
  if site.kind == 'positional' and isinstance(node, ast.Subscript) and isinstance(node.ctx, ast.Del):
    cands.append(node)
  for d in dels:
    cands.extend(t for t in d.targets if isinstance(t, ast.Subscript))
  if site.kind == 'traversal' and not cands:
    return False, ''
  for sub in cands:
    if not isinstance(sub.slice, ast.Name):
      return False, ''
    loops = [lp for lp in U.enclosing_loops(fn, sub) if isinstance(lp, ast.For) and isinstance(lp.target, ast.Name) and lp.target.id == sub.slice.id]
    if not loops:
      return False, ''
    it = loops[-1].iter
    descending = False
    if isinstance(it, ast.Call) and dotted(it.func) == 'reversed' and len(it.args) == 1:
      it, descending = it.args[0], True
    elif isinstance(it, ast.Call) and dotted(it.func) == 'sorted' and any(k.arg == 'reverse' and isinstance(k.value, ast.Constant) and k.value.value is True for k in it.keywords):
      it, descending = it.args[0], True
    src = U.expand_locals(fn, it, at=loops[-1])
    if not (descending and isinstance(src, ast.ListComp) and len(src.generators) == 1):
      return False, ''
    g = src.generators[0]
    if not (isinstance(g.iter, ast.Call) and dotted(g.iter.func) == 'enumerate' and g.iter.args and norm_text(g.iter.args[0]) == norm_text(sub.value) and
            isinstance(g.target, ast.Tuple) and len(g.target.elts) == 2 and isinstance(g.target.elts[0], ast.Name) and norm_text(src.elt) == g.target.elts[0].id):
      return False, ''
    k = g.target.elts[0].id
    if any(isinstance(x, ast.Name) and x.id == k for f in g.ifs for x in ast.walk(f)):
      return False, ''
  if not cands:
    return False, ''
  return True, 'the deleted positions are those of the elements that satisfy a test on the element alone (indices from enumerate, removed from the highest down): an element-wise filter'


def _walking_index(fi, sub):
  """The index name when `sub` is X[i] and i walks X's *own* positions: a For target over range(len(X)) / enumerate(X) (possibly
  reversed), or a counter started from len(X) / a constant and stepped by a constant inside an enclosing While.  An index taken from
  the positions of another list (say, of a sorted copy) is not such a walk: X[i] then reads a privileged position of X."""
  if not isinstance(sub.slice, ast.Name):
    return None
  name = sub.slice.id
  cont = norm_text(sub.value)

  def own_len(e):
    return any(isinstance(c, ast.Call) and isinstance(c.func, ast.Name) and c.func.id == 'len' and len(c.args) == 1 and norm_text(c.args[0]) == cont for c in ast.walk(e))

  for lp in U.enclosing_loops(fi.node, sub):
    if isinstance(lp, ast.For):
      it = lp.iter
      if isinstance(it, ast.Call) and isinstance(it.func, ast.Name) and it.func.id == 'reversed' and len(it.args) == 1:
        it = it.args[0]
      if isinstance(lp.target, ast.Name) and lp.target.id == name and isinstance(it, ast.Call) and isinstance(it.func, ast.Name) and it.func.id == 'range' and own_len(it):
        return name
      if isinstance(lp.target, ast.Tuple) and lp.target.elts and isinstance(lp.target.elts[0], ast.Name) and lp.target.elts[0].id == name and \
          isinstance(it, ast.Call) and isinstance(it.func, ast.Name) and it.func.id == 'enumerate' and it.args and norm_text(it.args[0]) == cont:
        return name
    elif isinstance(lp, ast.While):
      steps = [st for st in ast.walk(lp) if isinstance(st, ast.AugAssign) and isinstance(st.target, ast.Name) and st.target.id == name]
      others = [st for st in ast.walk(lp) if isinstance(st, ast.Assign) and any(isinstance(t, ast.Name) and t.id == name for t in st.targets)]
      if steps and not others and all(isinstance(st.op, (ast.Add, ast.Sub)) and isinstance(U.const_value(st.value), int) for st in steps):
        init = U.reaching_def(fi.node, name, lp)
        if init is not None and (own_len(init) or isinstance(U.const_value(init), int)):
          return name
  return None


def allow(ctx, fi, o, site):
  name = fi.qualname
  txt = norm_text(site.node)
  if fi.module.name.endswith('sequences_lib') and name == 'quantize_note_sequence':
    return _allow_validated_equal(fi, site)
  if name in ('steps_per_bar_in_quantized_sequence', 'Melody.from_quantized_sequence', 'DrumTrack.from_quantized_sequence',
              'ChordProgression.from_quantized_sequence', 'PianorollSequence.__init__', 'MetricPerformance.__init__') and \
      (txt.endswith('.time_signatures[0]') or txt.endswith('.tempos[0]')):
    # singleton by construction in a relative-quantized sequence; the function must assert that status first
    seqname = site.node.value.value.id if isinstance(site.node.value, ast.Attribute) and isinstance(site.node.value.value, ast.Name) else None
    for st in U.walk_stmts(fi.node):
      if st.lineno >= site.node.lineno:
        break
      for c in U.calls_in(st):
        d = dotted(c.func) or ''
        if d.split('.')[-1] in ('assert_is_relative_quantized_sequence', 'steps_per_bar_in_quantized_sequence') and c.args and \
            isinstance(c.args[0], ast.Name) and c.args[0].id == seqname:
          return True, ('%s is asserted relative-quantized before this read; quantize_note_sequence (the only writer of '
                        'quantization_info.steps_per_quarter) leaves exactly one time signature and one tempo' % seqname)
    return False, ''
  return False, ''


def _allow_validated_equal(fi, site):
  """quantize_note_sequence: positional access to qns.<field> is order-independent
  once every element was compared equal to the first element *in time order*."""
  node = site.node
  base = node.value
  if not (isinstance(base, ast.Attribute) and isinstance(base.value, ast.Name)):
    return False, ''
  field = base.attr
  qtxt = norm_text(base)
  sorted_name = None
  for st in U.walk_stmts(fi.node):
    if isinstance(st, ast.Assign) and isinstance(st.value, ast.Call) and dotted(st.value.func) == 'sorted' and st.value.args and \
        norm_text(st.value.args[0]) == qtxt and isinstance(st.targets[0], ast.Name):
      sorted_name = st.targets[0].id
  if sorted_name is None:
    return False, ''
  for st in U.walk_stmts(fi.node):
    if isinstance(st, ast.For) and norm_text(st.iter) == '%s[1:]' % sorted_name:
      tests = [s for s in st.body if isinstance(s, ast.If) and any(isinstance(x, ast.Raise) for x in s.body)]
      if not tests:
        continue
      t = norm_text(tests[0].test)
      if ('%s[0].' % sorted_name) in t and (qtxt + '[0]') not in t:
        if node.lineno > st.end_lineno:
          return True, ('every element of %s was compared with the first element in time order (%s[0]) and the function '
                        'raised unless all are equal, so any element is representative' % (qtxt, sorted_name))
  # the else-branch that adds the single default element
  for tp in U.enclosing_tests(fi.node, site.stmt):
    pass
  return False, ''


def single_writer_check(ctx):
  """quantization_info.steps_per_quarter is written only by quantize_note_sequence,
  which leaves exactly one time signature and one tempo."""
  writers = []
  for mi in ctx.P.modules.values():
    if mi.name in ctx.TEST_SUPPORT:
      continue
    for fi in mi.all_functions.values():
      for st in U.walk_stmts(fi.node, into_nested=False):
        for tgt, _v, _o in U.store_targets(st):
          if isinstance(tgt, ast.Attribute) and tgt.attr == 'steps_per_quarter' and isinstance(tgt.value, ast.Attribute) and \
              tgt.value.attr == 'quantization_info':
            writers.append(fi)
  ok = [w.fq for w in writers] == ['note_seq.sequences_lib:quantize_note_sequence']
  fi = ctx.func('sequences_lib:quantize_note_sequence')
  ctx.ob('ORD/single-writer', fi, fi.node, ok,
         'quantization_info.steps_per_quarter is written only by quantize_note_sequence' if ok else
         'quantization_info.steps_per_quarter is written by %s: the "one time signature / tempo" precondition of the extractors is no longer established in one place' % [w.fq for w in writers],
         construct='writers of quantization_info.steps_per_quarter')
  cp = [st.targets[0].id for st in U.walk_stmts(fi.node) if isinstance(st, ast.Assign) and isinstance(st.targets[0], ast.Name) and
        isinstance(st.value, ast.Call) and dotted(st.value.func) == 'copy.deepcopy']
  ctx.require(len(cp) == 1, 'quantize_note_sequence: the copy of the input was not found')
  for field in ('time_signatures', 'tempos'):
    has_del = any(isinstance(st, ast.Delete) and norm_text(st.targets[0]) == '%s.%s[1:]' % (cp[0], field) for st in U.walk_stmts(fi.node))
    ctx.ob('ORD/single-writer', fi, fi.node, has_del,
           'quantize_note_sequence truncates %s to one element' % field if has_del else
           'quantize_note_sequence no longer truncates %s to one element, but extractors read [0]' % field,
           construct='del <copy>.%s[1:]' % field)


SL = 'note_seq/sequences_lib.py'
MUTANTS = [
    Mutant('seed C12_b: Performance notes sorted by start time only', 'note_seq/performance_lib.py', "        notes, key=lambda note: (note.start_time, note.pitch, note.velocity))", "        notes, key=lambda note: note.start_time)", rule='TIE/note-sort'),
    Mutant('Performance: velocity tie-break removed (the defect fixed in 678d6e8)', 'note_seq/performance_lib.py', "        notes, key=lambda note: (note.start_time, note.pitch, note.velocity))", "        notes, key=lambda note: (note.start_time, note.pitch))", rule='TIE/note-sort'),
    Mutant('NotePerformance: tie-breaks removed', 'note_seq/performance_lib.py', "        notes, key=lambda note: (note.start_time, note.pitch, note.velocity,\n                                 note.end_time))", "        notes, key=lambda note: (note.start_time, note.pitch))", rule='TIE/note-sort'),
    Mutant('Melody: end-step tie-break removed (the defect fixed in a0e47e5)', 'note_seq/melodies_lib.py', "                   key=lambda note: (note.quantized_start_step, -note.pitch,\n                                     note.quantized_end_step))", "                   key=lambda note: (note.quantized_start_step, -note.pitch))", rule='TIE/note-sort'),
    Mutant('Melody: notes sorted by start step only (highest-pitch rule now depends on storage order)', 'note_seq/melodies_lib.py', "                   key=lambda note: (note.quantized_start_step, -note.pitch,\n                                     note.quantized_end_step))", "                   key=lambda note: note.quantized_start_step)", rule='TIE/note-sort'),
    Mutant('pianoroll: velocity tie-break removed (the defect fixed in 5ea5f83)', SL, "  for note in sorted(sequence.notes, key=lambda n: (n.start_time, n.velocity)):", "  for note in sorted(sequence.notes, key=lambda n: n.start_time):", rule='TIE/note-sort'),
    Mutant('extract: an extra tie-break in the note sort (harmless)', SL, 'for note in sorted(sequence.notes, key=lambda note: note.start_time):', 'for note in sorted(sequence.notes, key=lambda note: (note.start_time, note.pitch)):', expect='silent'),
    Mutant('extract: notes traversed unsorted', SL, 'for note in sorted(sequence.notes, key=lambda note: note.start_time):', 'for note in sequence.notes:', rule='ORD/'),
    Mutant('extract: state events traversed unsorted', SL, '    for event in sorted(events, key=lambda event: event.time):\n      if event.time <= split_times[0]:',
           '    for event in events:\n      if event.time <= split_times[0]:', rule='ORD/'),
    Mutant('extract: pedal events traversed unsorted', SL, 'for pedal_event in sorted(pedal_events, key=lambda event: event.time):', 'for pedal_event in pedal_events:', rule='ORD/'),
    Mutant('extract: beats traversed unsorted', SL, '    for event in sorted(events, key=lambda event: event.time):\n      if event.time < split_times[0]:',
           '    for event in events:\n      if event.time < split_times[0]:', rule='ORD/'),
    Mutant('extract: notes sorted by pitch', SL, 'for note in sorted(sequence.notes, key=lambda note: note.start_time):', 'for note in sorted(sequence.notes, key=lambda note: note.pitch):', rule='ORD/'),
    Mutant('split on silence: unsorted', SL, '  notes_by_start_time = sorted(\n      list(note_sequence.notes), key=lambda note: note.start_time)\n\n  split_times = [0.0]',
           '  notes_by_start_time = list(note_sequence.notes)\n\n  split_times = [0.0]', rule='ORD/'),
    Mutant('split on time changes: events unsorted', SL, '  time_signatures_and_tempos = sorted(\n      list(note_sequence.time_signatures) + list(note_sequence.tempos),\n      key=lambda t: t.time)',
           '  time_signatures_and_tempos = (\n      list(note_sequence.time_signatures) + list(note_sequence.tempos))', rule='ORD/'),
    Mutant('sustain: events not sorted', SL, '  events.sort(key=operator.itemgetter(0, 1))\n', '  pass\n', rule='ORD/'),
    Mutant('sustain: sorted by rank only', SL, '  events.sort(key=operator.itemgetter(0, 1))\n', '  events.sort(key=operator.itemgetter(1))\n', rule='ORD/'),
    Mutant('extract: late state events cut off before sorting', SL, "    previous_event = None\n    subsequence_index = -1\n    for event in sorted(events, key=lambda event: event.time):",
           "    previous_event = None\n    subsequence_index = -1\n    for event in sorted(itertools.takewhile(lambda e: e.time <= split_times[-1], events), key=lambda event: event.time):", rule='ORD/stored-prefix'),
    Mutant('quantize: compare against first stored time signature', SL, 'time_signature.numerator != time_signatures[0].numerator', 'time_signature.numerator != qns.time_signatures[0].numerator', rule='ORD/positional'),
    Mutant('quantize: compare against first stored tempo', SL, 'if tempo.qpm != tempos[0].qpm:', 'if tempo.qpm != qns.tempos[0].qpm:', rule='ORD/positional'),
    Mutant('quantize: time signatures not sorted', SL, 'time_signatures = sorted(qns.time_signatures, key=lambda ts: ts.time)', 'time_signatures = list(qns.time_signatures)', rule='ORD/'),
    Mutant('pianoroll: control changes in storage order', SL, 'for cc in sorted(sequence.control_changes, key=lambda cc: cc.time):', 'for cc in sequence.control_changes:', rule='ORD/traversal'),
    Mutant('transpose: remember previous note', SL, '      new_note_list.append(note)\n    else:', '      new_note_list.append(note)\n      prev = note\n    else:', rule=None, expect='silent'),
    Mutant('transpose: state carried between notes', SL, '  for note in ns.notes:\n    new_pitch = note.pitch + amount', '  last_pitch = 0\n  for note in ns.notes:\n    new_pitch = note.pitch + amount + 0 * last_pitch\n    last_pitch = note.pitch', rule='ORD/traversal'),
    Mutant('split: first stored note used as anchor', SL, '  split_times = [0.0]\n  last_active_time = 0.0', '  split_times = [0.0]\n  last_active_time = note_sequence.notes[0].end_time if note_sequence.notes else 0.0', rule='ORD/positional'),
    Mutant('midi: tempos in storage order', 'note_seq/midi_io.py', 'for seq_tempo in sorted(sequence.tempos, key=lambda t: t.time):', 'for seq_tempo in sequence.tempos:', rule='ORD/traversal'),
    Mutant('midi: last stored time signature wins', 'note_seq/midi_io.py', '    pm.time_signature_changes.append(time_signature)', '    pm.time_signature_changes = [time_signature]', rule='ORD/traversal'),
    Mutant('pianoroll_lib: notes painted in storage order', 'note_seq/pianoroll_lib.py', '    for note in sorted(quantized_sequence.notes,\n                       key=lambda n: n.quantized_start_step):', '    for note in quantized_sequence.notes:', rule='ORD/traversal'),
    Mutant('melody: notes unsorted', 'note_seq/melodies_lib.py', "                   key=lambda note: (note.quantized_start_step, -note.pitch))", "                   key=lambda note: 0)", rule='ORD/'),
    Mutant('performance: notes unsorted', 'note_seq/performance_lib.py', "    sorted_notes = sorted(notes, key=lambda note: (note.start_time, note.pitch))\n\n    # Sort all note start and end events.",
           "    sorted_notes = list(notes)\n\n    # Sort all note start and end events.", rule='ORD/'),
    Mutant('note performance: notes unsorted', 'note_seq/performance_lib.py', "    sorted_notes = sorted(notes, key=lambda note: (note.start_time, note.pitch))\n\n    current_step = self.start_step",
           "    sorted_notes = notes\n\n    current_step = self.start_step", rule='ORD/'),
    Mutant('chords: annotations unsorted', 'note_seq/chords_lib.py', "                    key=lambda chord: chord.quantized_step)", "                    key=lambda chord: chord.text)", rule='ORD/'),
    Mutant('drums: last stored note decides', 'note_seq/drums_lib.py', "      grouped_notes[note.quantized_start_step].append(note)", "      grouped_notes[note.quantized_start_step] = [note]", rule='ORD/traversal'),
    Mutant('program: first stored note decides', 'note_seq/performance_lib.py', "    program = programs.pop() if len(programs) == 1 else None", "    program = notes[0].program if notes else None", rule='ORD/positional'),
    # equivalent variants
    Mutant('extract: attrgetter key', SL, 'for note in sorted(sequence.notes, key=lambda note: note.start_time):', "for note in sorted(sequence.notes, key=operator.attrgetter('start_time')):", expect='silent'),
    Mutant('quantize_notes: sorted where the body is a bag', SL, '  for note in note_sequence.notes:\n    # Quantize the start and end times of the note.',
           '  for note in sorted(note_sequence.notes, key=lambda n: n.start_time):\n    # Quantize the start and end times of the note.', expect='silent'),
    Mutant('shift: loop over containers one by one', SL, '  for event in itertools.chain(*events_to_shift):\n    event.time += shift_seconds',
           '  for container in events_to_shift:\n    for event in container:\n      event.time += shift_seconds', expect='silent'),
    Mutant('sustain: key as lambda', SL, '  events.sort(key=operator.itemgetter(0, 1))\n', '  events.sort(key=lambda e: (e[0], e[1]))\n', expect='silent'),
    Mutant('transpose: max() written as guarded store', SL, '      end_time = max(end_time, note.end_time)', '      if note.end_time > end_time:\n        end_time = note.end_time', expect='silent'),
    Mutant('midi: notes loop sorted (bag anyway)', 'note_seq/midi_io.py', '  for seq_note in sequence.notes:', '  for seq_note in sorted(sequence.notes, key=lambda n: n.start_time):', expect='silent'),
]

RENAME_FUNCS = [('note_seq/' + fq.split(':')[0] + '.py', fq.split(':')[1]) for fq, _p in SCOPE]

EXPLANATION += (" Order analysis: reasons that only say 'cannot classify' are undecided, never violations (ordr.UNK); heapq.merge / bisect assume sorted input (positive finding); ORD/positional definite except for the allow-listed tempo / time-signature reads; ORD/traversal/instrument-order.")
EXPLANATION += (' Round 6: ' + 'ORD/ties/silence-previous-note: the silence in front of a note is not measured from the end of the one preceding note in a stable sort keyed by start_time only.')
EXPLANATION += (' Rounds 9-10: ' + "ORD/stored-prefix (takewhile / dropwhile over storage order); a positional read whose index walks the list's own positions and the result of a same-module helper over storage-ordered data are cannot-classify.")
EXPLANATION += (' Round 11: ' + 'ORD/assumes-sorted (heapq.merge / bisect over storage order); ORD/one-key-per-state-table.')
EXPLANATION += (' Round 12: ' + 'a grouped sort key (instrument, time, ...) is cannot-classify.')
EXPLANATION += (' Round 13: ' + 'a list sorted by time and then appended to is cannot-classify.')
