"""C15 - a chord symbol computed from pitches denotes exactly those pitches (DESIGN.md §4 C15)."""
import ast
import re

from sa import fold, rx, nf, roles, astutil as U
from sa.roles import Canon
from sa.loader import norm_text, dotted
from sa.selftest import Mutant

PROPERTY = 'C15'
F = 'note_seq/chord_symbols_lib.py'
LEVEL_TEXT = (
    'Structural necessary conditions for "pitches -> symbol -> pitches" being the identity, decided from the source: the table '
    'of scale-degree names is indexed only with intervals above the root (unit inference: absolute pitch class vs. interval), and '
    'the spelling helper only with absolute pitch classes; every modification the writer can format (prefix x alteration, from '
    'the folded degree table and the format strings) is a key of the reader\'s modification table and matches its regex; the '
    'reader\'s special case for an added seventh ("relative to the dominant seventh") has its inverse in the writer; the kind the '
    'writer emits is the first abbreviation of a kind row, hence a parser key, and the regexes are built from the same tables; '
    'the degree tables agree with the major-scale oracle; only ChordSymbolError is raised explicitly; constant-table subscripts '
    'are keyed from the tables\' own domains. The 24 576-case round trip itself is enumeration by execution and is not performed.')
LEVEL_NOTE = 'Trusted: constant folding; re._parser; the major-scale oracle (degree -> semitones).'
TECHNIQUE = 'static analysis: index-unit (absolute vs. relative pitch class) inference, writer-vocabulary vs. reader-table containment from folded tables and format strings, one-sided special-case (contradiction) rule, table/oracle agreement, raise inventory'
DESIGN_REF = 'DESIGN.md section 4 (C15)'
EXPLANATION = ('IDX unit inference over pitches_to_chord_symbol and its helper; VOCAB writer prefixes x alterations subset of reader keys; '
               'SEVENTH one-sided special case; KIND first-abbreviation; TAB degree tables vs oracle, quality triads vs kind rows; ESC raise '
               'inventory; KEYERR constant-table subscripts by their own domains; SHAPE bass suffix and N.C.')
TRUSTED = ['major-scale oracle', 'constant folding', 're._parser']
NOT_DECIDED = ['the round trip over all 24 576 (pitch-class set, bass) cases - that is enumeration by execution', 'assert statements are not analysed (open world)']
ASSUMPTIONS = []
# rules whose verdict does not depend on how the statements are arranged (semantic analyses); all other rules are shape rules:
# when one of those fails in a function that was restructured relative to reference/signatures.json the verdict is "cannot decide"
ROBUST = ('TAB',)
FLOORS = {'IDX': 4, 'VOCAB': 8, 'SEVENTH': 2, 'TAB': 25, 'ESC': 4, 'KEYERR': 4, 'SHAPE': 3}

MAJOR = {1: 0, 2: 2, 3: 4, 4: 5, 5: 7, 6: 9, 7: 11}


def parse_degree(s):
  m = re.match(r'^(#*|b*)(\d+)$', s)
  if not m:
    return None
  return int(m.group(2)), len(m.group(1)) * (1 if '#' in m.group(1) else -1)


def run(ctx):
  fd = fold.Folder(ctx.P, ctx.S)
  mi = ctx.P.module('chord_symbols_lib')
  T = {}
  for n in ('_DEGREE_OFFSETS', '_SCALE_DEGREES', '_CHORD_KINDS', '_CHORD_KINDS_BY_ABBREV', '_STEPS_MIDI', '_STEPS_ABOVE', '_MODIFICATION_PATTERN', '_CHORD_SYMBOL_PATTERN'):
    T[n] = fold.need(lambda n=n: fd.module_const(mi, n), n)
  mods = fd.module_const(mi, '_DEGREE_MODIFICATIONS')
  T['_DEGREE_MODIFICATIONS'] = mods
  from sa import pitfalls
  regex_groups_into_tables(ctx)
  pitch_class_wraps_both_ways(ctx)
  bass_is_min_over_all_pitches(ctx)
  modification_table_roles(ctx)
  alteration_accumulates(ctx)
  pitfalls.apply(ctx, 'PITFALL', [fi for q, fi in sorted(mi.all_functions.items()) if '.' not in q], ['falsy-zero', 'misaligned-index', 'previous-wraps'], {
      'previous-wraps': 'the amount left over for the accidental is then reduced by a whole octave\'s worth of steps: the root / bass is spelled on the wrong letter (Db comes out as C)',
      'misaligned-index': 'the root written into the chord symbol is then not the root the chosen kind was found for: the named chord does not contain the supplied pitches',
      'falsy-zero': 'pitch class 0 (C, B#, Dbb) is a root / bass like any other: a written bass of pitch class 0 is dropped, so the name no longer carries the lowest supplied pitch as bass'})
  for q in ('chord_symbol_root', 'chord_symbol_bass'):
    fi_ = ctx.func('chord_symbols_lib:' + q)
    v_, why_ = pitfalls.mod_reduced(fi_)
    ctx.ob('PITCHCLASS/reduced', fi_, fi_.node, v_ == pitfalls.OK, why_, construct='%s returns a pitch class in 0..11' % q, definite=(v_ == pitfalls.BAD),
           unknown=why_ if v_ == pitfalls.UNKNOWN else None)
  reader_tokens(ctx, mi)
  grouping_sorted(ctx, mi)
  degree_identity(ctx)
  units(ctx, mi)
  vocab(ctx, mi, T)
  reader_guards(ctx, mi)
  tables(ctx, mi, T)
  escapes(ctx, mi, T)
  shape(ctx, mi)


def reader_guards(ctx, mi):
  """The namer writes (add..N) exactly for degrees absent from the chosen kind and (noN) exactly for degrees present in it;
  the parser must therefore reject an addition only when that very degree number is already present, a subtraction only
  when it is absent, and never reject an alteration.  Any wider rejection makes the parser refuse names the namer produces."""
  want = {'_add_scale_degree': ('In', 'a degree already present'), '_subtract_scale_degree': ('NotIn', 'a degree that is absent'), '_alter_scale_degree': (None, 'nothing')}
  for name, (op, what) in sorted(want.items()):
    fi = mi.functions.get(name)
    ctx.require(fi is not None, 'chord_symbols_lib.%s not found' % name)
    ps = fi.params()
    raises = [s_ for s_ in U.walk_stmts(fi.node) if isinstance(s_, ast.Raise)]
    if op is None:
      ok = not raises
      ctx.ob('VOCAB/reader-guard', fi, raises[0] if raises else fi.node, ok, '%s rejects nothing' % name if ok else '%s now rejects some modifications the namer writes' % name,
             construct='%s rejects %s' % (name, what))
      continue
    ok = len(raises) == 1
    g = None
    unk = None

    def presence(t):
      """'In' / 'NotIn' when t says that the degree is present in / absent from the dictionary, in any of the usual spellings."""
      if isinstance(t, ast.Compare) and len(t.ops) == 1 and isinstance(t.ops[0], (ast.In, ast.NotIn)) and norm_text(t.left) == ps[1] and norm_text(t.comparators[0]) == ps[0]:
        return type(t.ops[0]).__name__
      if isinstance(t, ast.Compare) and len(t.ops) == 1 and isinstance(t.ops[0], (ast.Is, ast.IsNot)) and isinstance(t.comparators[0], ast.Constant) and t.comparators[0].value is None:
        c = t.left
        if isinstance(c, ast.Call) and isinstance(c.func, ast.Attribute) and c.func.attr in ('get', 'pop') and norm_text(c.func.value) == ps[0] and c.args and norm_text(c.args[0]) == ps[1] and \
            (len(c.args) == 1 or (isinstance(c.args[1], ast.Constant) and c.args[1].value is None)) and (c.func.attr == 'get' or len(c.args) == 2):
          return 'NotIn' if isinstance(t.ops[0], ast.Is) else 'In'      # stored alterations are integers: None means absent
      return None
    if ok:
      g = U.parent(fi.node, raises[0])
      t = g.test if isinstance(g, ast.If) and raises[0] in g.body else None
      got = presence(t) if t is not None else None
      ok = got == op and U.parent(fi.node, g) is fi.node
      if not ok and t is not None and got is None and not isinstance(t, ast.BoolOp):
        unk = 'cannot classify: %s rejects when %s' % (name, norm_text(t))
    ctx.ob('VOCAB/reader-guard', fi, g or fi.node, ok, '%s rejects exactly %s' % (name, what) if ok else
           (unk or '%s does not reject exactly %s (%s): names written by pitches_to_chord_symbol can be refused by the parser' % (name, what, norm_text(g.test) if isinstance(g, ast.If) else 'no single guarded raise')),
           construct='%s rejects %s' % (name, what), definite=len(raises) == 1 and isinstance(g, ast.If) and unk is None, unknown=unk)


# ------------------------------------------------------------------ IDX(a)
ABS, REL = 'absolute pitch class', 'interval above the root'


class Units(ast.NodeVisitor):
  """Tiny unit inference: names and expressions are ABS, REL, a collection of
  either, or unknown."""

  def __init__(self, env):
    self.env = dict(env)

  def unit(self, n):
    if isinstance(n, ast.Name):
      return self.env.get(n.id)
    if isinstance(n, ast.BinOp) and isinstance(n.op, ast.Mod) and U.const_value(n.right) == 12:
      l = n.left
      if isinstance(l, ast.BinOp) and isinstance(l.op, ast.Sub):
        a, b = self.unit(l.left), self.unit(l.right)
        if _elem(a) == ABS and _elem(b) == ABS:
          return REL
        return None
      if isinstance(l, ast.Call) and dotted(l.func) in ('min', 'max'):
        return ABS
      if self.unit(l) in (None, 'pitch'):
        return ABS      # <pitch> % 12
      return ABS
    if isinstance(n, (ast.SetComp, ast.ListComp, ast.GeneratorExp)):
      sub = Units(self.env)
      for g in n.generators:
        if isinstance(g.target, ast.Name):
          sub.env[g.target.id] = _elem(self.unit(g.iter)) or 'pitch'
      e = sub.unit(n.elt)
      return ('coll', e) if e else None
    if isinstance(n, ast.Call) and dotted(n.func) in ('set', 'list', 'sorted', 'tuple') and n.args:
      u = self.unit(n.args[0])
      return u if isinstance(u, tuple) else (('coll', u) if u else None)
    if isinstance(n, (ast.List, ast.Set, ast.Tuple)):
      us = set(self.unit(e) for e in n.elts)
      return ('coll', us.pop()) if len(us) == 1 and None not in us else None
    if isinstance(n, ast.BinOp) and isinstance(n.op, (ast.Add, ast.Sub, ast.BitOr)):
      a, b = self.unit(n.left), self.unit(n.right)
      if isinstance(a, tuple) and isinstance(b, tuple) and a == b:
        return a
      return None
    return None


def _elem(u):
  return u[1] if isinstance(u, tuple) else u


def units(ctx, mi):
  fi = ctx.func('chord_symbols_lib:pitches_to_chord_symbol')
  fn = fi.node
  un = Units({'pitches': ('coll', 'pitch')})
  # propagate through the statements in order (two passes for loop-carried names)
  for _ in range(2):
    for st in U.walk_stmts(fn):
      if isinstance(st, ast.Assign) and len(st.targets) == 1 and isinstance(st.targets[0], ast.Name):
        u = un.unit(st.value)
        if u is not None:
          un.env[st.targets[0].id] = u
      elif isinstance(st, ast.For) and isinstance(st.target, ast.Name):
        u = _elem(un.unit(st.iter))
        if u is not None:
          un.env[st.target.id] = u
  n = 0
  for sub in ast.walk(fn):
    if isinstance(sub, ast.Subscript) and norm_text(sub.value) == '_SCALE_DEGREES':
      n += 1
      u = un.unit(sub.slice)
      ok = u == REL
      ctx.ob('IDX/scale-degrees', fi, sub, ok, '_SCALE_DEGREES is indexed with an interval above the root' if ok else
             '_SCALE_DEGREES (rows = intervals above the root) is indexed with %s, which is %s' % (norm_text(sub.slice), u or 'of unknown unit'))
  for c in U.calls_in(fn):
    if dotted(c.func) == '_transpose_pitch_class' and len(c.args) == 3:
      n += 1
      u = un.unit(c.args[2])
      ok = u == ABS and norm_text(c.args[0]) == "'C'" and U.const_value(c.args[1]) == 0
      ctx.ob('IDX/spelling', fi, c, ok, 'the spelling helper walks up from C by an absolute pitch class' if ok else
             '_transpose_pitch_class(\'C\', 0, x) needs an absolute pitch class, got %s (%s)' % (norm_text(c.args[2]), u or 'unknown unit'))
  hc = [c for c in U.calls_in(fn) if dotted(c.func) == '_largest_chord_kind_from_relative_pitches']
  for c in hc:
    n += 1
    u = un.unit(c.args[0]) if c.args else None
    ok = u == ('coll', REL)
    ctx.ob('IDX/helper-arg', fi, c, ok, 'the kind search receives intervals above the candidate root' if ok else
           'the kind search receives %s (%s), not intervals above the candidate root' % (norm_text(c.args[0]) if c.args else None, u))
  ctx.require(n >= 4, 'pitches_to_chord_symbol: index sites not found (%d)' % n)
  h = ctx.func('chord_symbols_lib:_largest_chord_kind_from_relative_pitches')
  p = h.params()[0]
  subs = [s for s in ast.walk(h.node) if isinstance(s, ast.Subscript) and norm_text(s.value) == '_SCALE_DEGREES']
  for s in subs:
    gen = next((g for g in ast.walk(h.node) if isinstance(g, ast.comprehension) and isinstance(g.target, ast.Name) and g.target.id == norm_text(s.slice)), None)
    ok = gen is not None and norm_text(gen.iter) == p
    ctx.ob('IDX/scale-degrees', h, s, ok, '_SCALE_DEGREES is indexed with the elements of %s' % p if ok else '_SCALE_DEGREES is indexed with %s, not with the relative pitches' % norm_text(s.slice))


# ------------------------------------------------------------------ S2 / S3
def vocab(ctx, mi, T):
  fi = ctx.func('chord_symbols_lib:_degrees_to_modifications')
  fn = fi.node
  keys = set(T['_DEGREE_MODIFICATIONS'])
  fmts = []
  for n in ast.walk(fn):
    if isinstance(n, ast.BinOp) and isinstance(n.op, ast.Mod) and isinstance(n.left, ast.Constant) and isinstance(n.left.value, str):
      fmts.append(n)
  # alteration domain from the degree table (per degree), adjusted by the writer's seventh special case
  alters = {}
  for row in T['_SCALE_DEGREES']:
    for name in row:
      d = parse_degree(name)
      if d:
        alters.setdefault(d[0], set()).add(d[1])
  compound_boundary(ctx, fi, sorted(alters))
  addless_needs_compound(ctx, fi, sorted(alters))
  ctx.require(len(fmts) >= 3, '_degrees_to_modifications: format strings not found')
  special = seventh_special(fn)
  pat = re.compile('^' + T['_MODIFICATION_PATTERN'] + '$')
  for f in fmts:
    s = f.left.value
    m = re.match(r'^\((add|no|[a-z]*)(%s)?%d\)$', s)
    if not m:
      ctx.ob('VOCAB/format', fi, f, False, 'modification format %r is not "(<prefix><alteration><degree>)"' % s)
      continue
    prefix, has_alt = m.group(1), bool(m.group(2))
    encl = U.enclosing_tests(fn, U.parent(fn, f))
    pos = [norm_text(t) for (t, pol) in encl if pol]
    neg = [norm_text(t) for (t, pol) in encl if not pol]
    is_add_branch = any(' not in ' in t for t in pos) and not any('!=' in t for t in pos)
    compound_only = any(t.startswith('7 < ') or ' 7 < ' in t for t in pos)
    not_compound = any(t.startswith('7 < ') or ' 7 < ' in t for t in neg)
    is_alter_branch = any('!=' in t for t in pos)
    is_add = prefix == 'add'
    emitted = set()
    if not has_alt:
      emitted.add(prefix)
    elif is_alter_branch and alter_branch_unreachable(ctx):
      ctx.ob('VOCAB/alter-path', fi, f, True,
             'the alteration path cannot be taken from pitches_to_chord_symbol: kind degree names are a subset of the target names and '
             'duplicate degree numbers are skipped, so a degree present in both has the same alteration', construct='alteration path unreachable')
      continue
    else:
      for d, al in sorted(alters.items()):
        for a in al:
          if is_add_branch and compound_only and not (d > 7 and a != 0):
            continue
          if is_add_branch and not_compound and (d > 7 and a != 0):
            continue
          a2 = a + (special[1] if is_add_branch and special and d == special[0] else 0)
          if not is_add and a2 == 0 and not is_add_branch:
            continue     # plain alterations are only written for non-zero alterations
          emitted.add(prefix + ('#' * a2 if a2 >= 0 else 'b' * -a2))
    bad = sorted(e for e in emitted if e not in keys)
    ok = not bad
    ctx.ob('VOCAB/prefix', fi, f, ok, 'format %r emits prefixes %s, all understood by the reader' % (s, sorted(emitted)) if ok else
           'format %r can emit modification prefixes %s that the reader table _DEGREE_MODIFICATIONS (%s) does not know' % (s, bad, sorted(keys)), depends=VOCAB_DEPS(ctx))
    for e in sorted(emitted):
      okm = bool(pat.match('(%s7)' % e))
      ctx.ob('VOCAB/regex', fi, f, okm, '(%s<n>) matches _MODIFICATION_PATTERN' % e if okm else '(%s<n>) is not matched by _MODIFICATION_PATTERN' % e, construct='(%s<n>) ~ _MODIFICATION_PATTERN' % e, depends=VOCAB_DEPS(ctx))
  # S3: one-sided special case
  rd = ctx.func('chord_symbols_lib:_add_scale_degree')
  rsp = reader_special(rd.node)
  folded_bad = None
  if rsp is UNREADABLE and special is not None:
    # a reader that is one store `degrees[degree] = E(degree, alter)`: E is folded for the adjusted degree and another one, alterations
    # -1, 0, +1 (lookups in module-level literal tables resolved first), and compared with what the writer's adjustment needs
    folded_bad = _fold_added_degree(ctx, mi, rd, special)
  if folded_bad:
    ctx.ob('SEVENTH/reader', rd, folded_bad[0], False, '`%s` stores %s for an added degree %d written with alteration %+d; the writer spells that degree relative to an adjustment of %+d, so the '
           'reader must store %+d: what the writer names "(add%s%d)" reads back as another pitch' % (norm_text(folded_bad[0])[:70], folded_bad[3], folded_bad[1], folded_bad[2], special[1], folded_bad[4],
                                                                                          '#' * folded_bad[2] if folded_bad[2] >= 0 else 'b' * -folded_bad[2], folded_bad[1]),
           construct='reader: add on degree 7 is relative to the dominant seventh', definite=True)
  elif rsp is UNREADABLE:
    why_ = 'cannot classify: how _add_scale_degree turns the written alteration of an added degree into the stored one is not read path-wise'
    ctx.ob('SEVENTH/reader', rd, rd.node, False, why_, construct='reader: add on degree 7 is relative to the dominant seventh', unknown=why_)
    ctx.ob('SEVENTH/writer-inverse', fi, fn, False, why_, construct='writer: inverse of the reader\'s added-seventh adjustment', unknown=why_)
  else:
    ctx.ob('SEVENTH/reader', rd, rd.node, rsp is not None, 'the reader lowers an added degree %s by %s' % (rsp[0], -rsp[1]) if rsp else 'the reader has no special case for an added seventh',
           construct='reader: add on degree 7 is relative to the dominant seventh')
    ok = (rsp is None and special is None) or (rsp is not None and special is not None and special[0] == rsp[0] and special[1] == -rsp[1])
    ctx.ob('SEVENTH/writer-inverse', fi, fn, ok, 'the writer applies the inverse adjustment when formatting an added degree %s' % (rsp[0] if rsp else '-') if ok else
           'the reader adjusts an added degree %s by %+d but the writer\'s add path %s: an added seventh does not survive the round trip' % (
               rsp[0] if rsp else '?', rsp[1] if rsp else 0, 'adjusts by %+d on degree %s' % (special[1], special[0]) if special else 'has no corresponding adjustment'),
           construct='writer: inverse of the reader\'s added-seventh adjustment')
  # removals are written with 'no'
  no = [f for f in fmts if f.left.value == '(no%d)']
  ctx.ob('VOCAB/removal', fi, no[0] if no else fn, len(no) == 1, 'removed degrees are written (no<n>)' if no else 'removed degrees are not written with the reader\'s "no" prefix')
  # the kind emitted is the first abbreviation of a row
  lk = ctx.func('chord_symbols_lib:_largest_chord_kind_from_degrees')
  # (tuple assignments are split into single stores by the loader: the abbreviation is the store whose value is <abbrevs>[0])
  asg = [s for s in U.walk_stmts(lk.node) if isinstance(s, ast.Assign) and isinstance(s.value, ast.Subscript) and not isinstance(s.value.slice, ast.Slice) and U.const_value(s.value.slice) is not None]
  loop = next((n for n in lk.node.body if isinstance(n, ast.For) and isinstance(n.target, ast.Tuple)), None)
  ok = len(asg) == 1 and U.const_value(asg[0].value.slice) == 0 and loop is not None and \
      norm_text(asg[0].value.value) == norm_text(loop.target.elts[0]) and norm_text(loop.iter) == '_CHORD_KINDS'
  ctx.ob('VOCAB/kind', lk, asg[0] if asg else lk.node, ok, 'the emitted kind is the first abbreviation of a kind row (a key of the parser dictionary)' if ok else
         'the emitted kind is not taken from the abbreviations of the matched kind row')
  ok = all(row[0] and row[0][0] in T['_CHORD_KINDS_BY_ABBREV'] for row in T['_CHORD_KINDS'])
  ctx.ob('VOCAB/kind', mi, mi.assigns['_CHORD_KINDS_BY_ABBREV'][0], ok, 'every first abbreviation is a parser key' if ok else 'some kind row\'s first abbreviation is not in _CHORD_KINDS_BY_ABBREV',
         construct='first abbreviations are keys of _CHORD_KINDS_BY_ABBREV')


def grouping_sorted(ctx, mi):
  """Location-independent (expected count on today's tree: 0, the kept patch C15_g is the positive example of the self-test):
  the kind search must skip every combination in which two scale degrees share a number.  itertools.groupby only merges
  *adjacent* equal keys, so a duplicate test built on it is complete only over a sorted sequence."""
  start = mi.functions.get('_largest_chord_kind_from_relative_pitches')
  if start is None:
    return
  seen, todo = {}, [start]
  while todo:
    f = todo.pop()
    if f.qualname in seen:
      continue
    seen[f.qualname] = f
    for c in U.calls_in(f.node):
      g = mi.functions.get(dotted(c.func) or '')
      if g is not None:
        todo.append(g)
  for f in seen.values():
    for c in U.calls_in(f.node):
      if (dotted(c.func) or '').split('.')[-1] != 'groupby' or not c.args:
        continue
      src = U.expand_locals(f.node, c.args[0], at=c)
      while isinstance(src, (ast.GeneratorExp, ast.ListComp)) and len(src.generators) == 1 and not src.generators[0].ifs:
        # a key computed per element: sortedness must be established on the keys themselves, i.e. outside
        break
      ok = isinstance(src, ast.Call) and dotted(src.func) == 'sorted'
      ctx.ob('DUP/groupby-sorted', f, c, ok, 'the grouped sequence is sorted' if ok else
             'itertools.groupby over %s, which is not sorted: equal degree numbers that are not adjacent (e.g. 9 .. 3 .. #9) are not recognised as duplicates, so the '
             'kind search can accept a degree reading in which one degree occurs twice' % norm_text(c.args[0]), construct='duplicate degree test', definite=True)


def compound_boundary(ctx, fi, D):
  """Location-independent: the writer drops the 'add' prefix for altered *compound* degrees only (9, 11, 13): the reader takes
  "(b7)" as an alteration of a seventh that is present and "(addb7)" as an added one.  Whatever way the writer compares a degree
  number with a constant, the comparison must split the degree numbers of _SCALE_DEGREES exactly into {<= 7} and {> 7}."""
  fn = fi.node
  want = frozenset(d for d in D if d > 7)
  for c in ast.walk(fn):
    if not (isinstance(c, ast.Compare) and len(c.ops) == 1 and isinstance(c.ops[0], (ast.Lt, ast.LtE))):
      continue
    l, r = c.left, c.comparators[0]
    kl, kr = U.const_value(l), U.const_value(r)
    strict = isinstance(c.ops[0], ast.Lt)
    if isinstance(kl, int) and not isinstance(kl, bool) and isinstance(r, ast.Name):
      big = frozenset(d for d in D if (kl < d if strict else kl <= d))
    elif isinstance(kr, int) and not isinstance(kr, bool) and isinstance(l, ast.Name):
      big = frozenset(d for d in D if (d < kr if strict else d <= kr))
    else:
      continue
    name = (r if isinstance(r, ast.Name) else l).id
    # only comparisons of a degree number: the variable iterates over / indexes a degree dictionary
    if not any(isinstance(n, ast.For) and isinstance(n.target, ast.Name) and n.target.id == name for n in ast.walk(fn)):
      continue
    ok = big == want or big == frozenset(D) - want
    ctx.ob('VOCAB/compound-boundary', fi, c, ok, 'the degree comparison separates the compound degrees %s from the simple ones' % sorted(want) if ok else
           '%s separates the degrees %s from %s; the reader needs the add prefix dropped for exactly the altered compound degrees %s (an altered added seventh written '
           'without "add" is read back as an alteration)' % (norm_text(c), sorted(big), sorted(set(D) - big), sorted(want)),
           construct='boundary between simple and compound degrees', definite=True)


def addless_needs_compound(ctx, fi, D):
  """Location-independent: in the branch that *adds* a degree (the degree is not in the kind), a modification written without
  the 'add' prefix - "(#9)" - is read back as an added degree only for compound degrees; for a simple degree the reader takes it
  as an alteration of a degree that must be present.  So every add-less format ('(%s%d)') reached on the add path must lie
  under a comparison that confines it to the compound degrees."""
  fn = fi.node
  want = frozenset(d for d in D if d > 7)
  for n in ast.walk(fn):
    if not (isinstance(n, ast.BinOp) and isinstance(n.op, ast.Mod) and isinstance(n.left, ast.Constant) and isinstance(n.left.value, str) and
            re.match(r'^\(%s%d\)$', n.left.value)):
      continue
    st = n
    pm = U.parents(fn)
    while st is not None and not isinstance(st, ast.stmt):
      st = pm.get(id(st))
    conds = U.path_conditions(fn, st)
    add_path = any(isinstance(t, ast.Compare) and isinstance(t.ops[0], ast.NotIn) and pol for t, pol in conds) and \
        not any(isinstance(t, ast.Compare) and isinstance(t.ops[0], ast.NotEq) and pol for t, pol in conds)
    if not add_path:
      continue
    confined = False
    for t, pol in conds:
      if isinstance(t, ast.Compare) and len(t.ops) == 1 and isinstance(t.ops[0], (ast.Lt, ast.LtE)):
        l, r = t.left, t.comparators[0]
        kl, kr = U.const_value(l), U.const_value(r)
        strict = isinstance(t.ops[0], ast.Lt)
        if isinstance(kl, int) and isinstance(r, ast.Name):
          sel = frozenset(d for d in D if (kl < d if strict else kl <= d))
        elif isinstance(kr, int) and isinstance(l, ast.Name):
          sel = frozenset(d for d in D if (d < kr if strict else d <= kr))
        else:
          continue
        if not pol:
          sel = frozenset(D) - sel
        if sel <= want:
          confined = True
    ctx.ob('VOCAB/addless-compound-only', fi, n, confined, 'the add-less form is written for compound degrees only' if confined else
           'on the path that adds a degree the modification is written as %r (no "add") without the degree being confined to the compound degrees %s: "(b7)" or "(#5)" for an '
           'absent degree is read back as an alteration, which the reader rejects or misreads' % (n.left.value, sorted(want)), construct='add-less modification on the add path', definite=True)


def degree_identity(ctx):
  """Location-independent: a scale degree is a (number, alteration) pair - b9, 9 and #9 are three degrees.  Where
  pitches_to_chord_symbol decides which of the degrees it is about to spell are dropped (the slash bass is spelled after the
  slash), the comparison must be on whole degrees (their names).  A filter that compares `_parse_degree(x)[0]`, the number alone,
  also drops a *different* pitch that happens to share the bass's degree number, and that pitch is lost from the name."""
  fi = ctx.func('chord_symbols_lib:pitches_to_chord_symbol')
  fn = fi.node
  for n in ast.walk(fn):
    if not (isinstance(n, (ast.ListComp, ast.GeneratorExp, ast.SetComp)) and n.generators and n.generators[0].ifs):
      continue
    pm = U.parents(fn)
    st = n
    while st is not None and not isinstance(st, ast.stmt):
      st = pm.get(id(st))
    # only filters that rebuild the list of degrees to spell
    if not (isinstance(st, ast.Assign) and len(st.targets) == 1 and isinstance(st.targets[0], ast.Name) and
            norm_text(n.generators[0].iter) == st.targets[0].id):
      continue
    v = n.generators[0].target.id if isinstance(n.generators[0].target, ast.Name) else None
    for f in n.generators[0].ifs:
      fx = U.expand_locals(fn, f, at=st)
      number_only = [s for s in ast.walk(fx) if isinstance(s, ast.Subscript) and U.const_value(s.slice) == 0 and isinstance(s.value, ast.Call) and
                     dotted(s.value.func) == '_parse_degree']
      if number_only:
        ctx.ob('VOCAB/degree-identity', fi, f, False, 'the degrees to spell are filtered by %s, i.e. by degree *number* (%s): a pitch that shares its number with the bass but is a '
               'different degree (9 next to a b9 bass, #11 next to a 4 bass) is dropped from the name, and the name no longer gives back the pitches supplied' % (
                   norm_text(f), norm_text(number_only[0])), construct='degrees are dropped by whole-degree identity', definite=True)
      elif v is not None:
        ctx.ob('VOCAB/degree-identity', fi, f, True, 'degrees are dropped by comparing whole degree names', construct='degrees are dropped by whole-degree identity', definite=True)


def VOCAB_DEPS(ctx):
  """functions whose arrangement the writer-vocabulary rules read besides _degrees_to_modifications"""
  return [ctx.func('chord_symbols_lib:_largest_chord_kind_from_degrees'), ctx.func('chord_symbols_lib:_largest_chord_kind_from_relative_pitches'),
          ctx.func('chord_symbols_lib:pitches_to_chord_symbol')]


def alter_branch_unreachable(ctx):
  """Structural facts that make "same degree number, different alteration" impossible
  for the (kind degrees, target degrees) pairs produced by pitches_to_chord_symbol."""
  lk = ctx.func('chord_symbols_lib:_largest_chord_kind_from_degrees')
  contain = any(isinstance(s, ast.If) and norm_text(s.test).replace(' ', '') in ('notset(chord_degrees)-set(degrees)', 'set(chord_degrees)<=set(degrees)',
                                                                                      'set(chord_degrees).issubset(degrees)')
                for s in U.walk_stmts(lk.node))
  if not contain:
    # the parameter names are part of the helper's signature; tolerate renamed locals via positions
    ps = lk.params()
    contain = any(isinstance(s, ast.If) and isinstance(s.test, ast.UnaryOp) and isinstance(s.test.operand, ast.BinOp) and isinstance(s.test.operand.op, ast.Sub) and
                  norm_text(s.test.operand.right) == 'set(%s)' % ps[0] for s in U.walk_stmts(lk.node))
  lr = ctx.func('chord_symbols_lib:_largest_chord_kind_from_relative_pitches')
  dup = False
  for s in U.walk_stmts(lr.node):
    if isinstance(s, ast.If) and isinstance(s.body[-1], ast.Continue) and isinstance(s.test, ast.Compare) and isinstance(s.test.ops[0], ast.Lt):
      r, l = norm_text(s.test.left), norm_text(s.test.comparators[0])   # loader orientation: len(set(x)) < len(x)
      if l.startswith('len(') and r.startswith('len(set('):
        dup = True
  p2 = ctx.func('chord_symbols_lib:pitches_to_chord_symbol')
  call = [c for c in U.calls_in(p2.node) if dotted(c.func) == '_degrees_to_modifications']
  src_ok = len(call) == 1 and len(call[0].args) == 2
  return contain and dup and src_ok


def reader_tokens(ctx, mi):
  """Location-independent: (a) the modification string of a chord name mixes bare and parenthesised items ('b5(add4)',
  '(add2)(#5)'); _parse_modifications must consume it item by item with the modification pattern (match at the current position,
  or finditer).  Cutting it at a literal separator (`.split(')(')`) reads only the first item of a piece that holds a bare item
  followed by parenthesised ones.  (b) an accidental group of a degree / pitch-class pattern ('bb', '##') must be *measured*
  (len, count): a group that is only compared for equality with one-character strings loses the second accidental - the 'bb7' of the
  diminished seventh becomes a natural seventh."""
  from sa import pitfalls
  pm_ = ctx.func('chord_symbols_lib:_parse_modifications')
  cons = 'the modification string is consumed item by item with the modification pattern'
  cuts = [c for c in U.calls_in(pm_.node) if isinstance(c.func, ast.Attribute) and c.func.attr in ('split', 'rsplit', 'partition') and c.args and isinstance(c.args[0], ast.Constant) and
          isinstance(c.args[0].value, str)]
  uses_regex = any(isinstance(c.func, ast.Attribute) and c.func.attr in ('match', 'finditer', 'findall') for c in U.calls_in(pm_.node))
  if cuts:
    ctx.ob('VOCAB/modifications-by-pattern', pm_, cuts[0], False, '%s cuts the modification string at the literal %r: a bare modification followed by parenthesised ones (m7b5(add4) is kind m7 with '
           'modifications b5(add4)) stays one piece and only its first item is read - the writer emits such names, so they do not read back' % (norm_text(cuts[0])[:50], cuts[0].args[0].value),
           construct=cons, definite=True)
  elif uses_regex:
    ctx.ob('VOCAB/modifications-by-pattern', pm_, pm_.node, True, 'items are taken with the modification pattern', construct=cons)
  else:
    why = 'cannot classify: how _parse_modifications takes the items apart is not recognised'
    ctx.ob('VOCAB/modifications-by-pattern', pm_, pm_.node, False, why, construct=cons, unknown=why)
  for q in ('_parse_degree', '_parse_pitch_class'):
    fi = ctx.func('chord_symbols_lib:' + q)
    groups = set()
    for st in U.walk_stmts(fi.node):
      if isinstance(st, ast.Assign) and any(isinstance(c, ast.Call) and isinstance(c.func, ast.Attribute) and c.func.attr in ('groups', 'group') for c in ast.walk(st.value)):
        for t in st.targets:
          groups |= set(x.id for x in ast.walk(t) if isinstance(x, ast.Name))
    for g in sorted(groups):
      for site in pitfalls.sign_only(fi.node, g):
        if site.verdict == pitfalls.BAD:
          ctx.ob('VOCAB/accidentals-measured', fi, site.node, False, 'in %s the pattern group %s is only compared (%s): a doubled accidental (bb, ##) is not told from none, so a degree such as bb7 '
                 '(the diminished seventh of the kind table) or a root such as F## is read with the wrong alteration' % (q, g, site.why.split('(')[-1].split(')')[0]),
                 construct='%s: accidental groups are measured, not only compared' % q, definite=True)
        elif site.verdict == pitfalls.OK:
          ctx.ob('VOCAB/accidentals-measured', fi, site.node, True, 'group %s enters the result by value' % g, construct='%s: group %s' % (q, g))


def reader_special(fn):
  """(degree, delta) when the value the reader stores for an added degree differs from the written alteration by a constant on
  the paths taken for one particular degree, and not at all on the others; read path-wise, so the statement form (an `if`
  with an augmented assignment, a conditional expression, a temporary) does not matter."""
  from sa import pathval
  a = [x.arg for x in fn.args.args]
  if len(a) != 3:
    return None
  loc = '%s[%s]' % (a[0], a[1])
  try:
    ps = pathval.paths(fn.body)
  except pathval.PathError:
    return UNREADABLE
  found = None
  # the new alteration is stored into the degree table, or handed back to a caller that stores it
  stored = any(loc in env for _c, env, _e in ps)
  for conds, env, ended in ps:
    if stored:
      if ended != 'fall' or loc not in env:
        continue
      new_value = env[loc]
    else:
      if ended != 'return' or pathval.RETURN not in env:
        continue
      new_value = env[pathval.RETURN]
      if isinstance(new_value, ast.Constant) and new_value.value is None:
        continue
    try:
      d = (nf.rat(new_value) - nf.rat(U.E(a[2]))).const_value()
    except nf.NFError:
      return UNREADABLE
    if d is None:
      return UNREADABLE
    eq = [U.const_value(t.comparators[0]) for t, pol in conds if pol and isinstance(t, ast.Compare) and len(t.ops) == 1 and isinstance(t.ops[0], ast.Eq) and
          norm_text(t.left) == a[1] and U.const_value(t.comparators[0]) is not None]
    if d != 0:
      if len(eq) != 1 or d.denominator != 1 or (found is not None and found != (eq[0], int(d))):
        return UNREADABLE
      found = (eq[0], int(d))
  return found


UNREADABLE = ('?', 0)


def seventh_special(fn):
  """(degree, delta) if the writer's add branch adjusts the alteration of one degree."""
  for st in U.walk_stmts(fn):
    if isinstance(st, ast.If) and isinstance(st.test, ast.Compare) and isinstance(st.test.ops[0], ast.Eq) and U.const_value(st.test.comparators[0]) is not None and \
        isinstance(st.test.left, ast.Name):
      encl = [norm_text(t) for (t, pol) in U.enclosing_tests(fn, st) if pol]
      if not any(' not in ' in t for t in encl):
        continue
      for x in st.body:
        if isinstance(x, ast.AugAssign) and isinstance(x.op, (ast.Add, ast.Sub)) and U.const_value(x.value) is not None:
          d = U.const_value(x.value)
          return (U.const_value(st.test.comparators[0]), d if isinstance(x.op, ast.Add) else -d)
  return None


# ------------------------------------------------------------------ S5
def tables(ctx, mi, T):
  node = mi.assigns['_DEGREE_OFFSETS'][0]
  for d in range(1, 8):
    ok = T['_DEGREE_OFFSETS'].get(d) == MAJOR[d]
    ctx.ob('TAB/degree-offsets', mi, node, ok, 'degree %d is %d semitones above the root' % (d, MAJOR[d]) if ok else
           '_DEGREE_OFFSETS[%d] = %r, the major scale has %d' % (d, T['_DEGREE_OFFSETS'].get(d), MAJOR[d]), construct='_DEGREE_OFFSETS[%d]' % d)
  node = mi.assigns['_SCALE_DEGREES'][0]
  ok = len(T['_SCALE_DEGREES']) == 12
  ctx.ob('TAB/scale-degrees', mi, node, ok, '12 rows' if ok else '_SCALE_DEGREES has %d rows' % len(T['_SCALE_DEGREES']), construct='_SCALE_DEGREES has 12 rows')
  for r, row in enumerate(T['_SCALE_DEGREES']):
    for name in row:
      d = parse_degree(name)
      ok = d is not None and (MAJOR[(d[0] - 1) % 7 + 1] + d[1]) % 12 == r
      ctx.ob('TAB/scale-degrees', mi, node, ok, '%s is %d semitones above the root' % (name, r) if ok else
             '_SCALE_DEGREES[%d] lists %r, which is %s semitones above the root' % (r, name, (MAJOR[(d[0] - 1) % 7 + 1] + d[1]) % 12 if d else '?'), construct='_SCALE_DEGREES[%d]: %s' % (r, name))
  # chord_symbol_pitches normalises degrees with (d - 1) % 7 + 1 and adds the alteration
  cp = ctx.func('chord_symbols_lib:chord_symbol_pitches')

  def _ret_target(i):
    def f(fn):
      r = fn.body[-1]
      if isinstance(r, ast.Return) and isinstance(r.value, ast.ListComp) and isinstance(r.value.generators[0].target, ast.Tuple):
        e = r.value.generators[0].target.elts
        return [e[i].id] if len(e) == 2 and isinstance(e[i], ast.Name) else []
      return []
    return f
  # location-independent: a chord can hold a degree and its compound twin as different pitches (b2 and 9, 4 and #11, 6 and b13):
  # collecting the pitches in a mapping keyed by the *folded* degree keeps only one of them
  for st in U.walk_stmts(cp.node):
    for tgt, val, op in U.store_targets(st):
      if op == 'store' and isinstance(tgt, ast.Subscript) and not isinstance(tgt.slice, ast.Slice):
        k = U.expand_locals(cp.node, tgt.slice, at=st)
        folded = any(isinstance(n, ast.BinOp) and isinstance(n.op, ast.Mod) and U.const_value(n.right) == 7 for n in ast.walk(k))
        if folded:
          ctx.ob('PITCH/one-pitch-per-degree', cp, st, False, '%s files the pitch under the degree folded into one octave (%s): a chord that contains both a degree and its compound '
                 'twin at different alterations (b2 and 9, 4 and #11) keeps only the one written last, so chord_symbol_pitches no longer returns all the pitch classes of the name' % (
                     norm_text(st), norm_text(k)), construct='pitches are collected per degree, not per folded degree', definite=True)
  cp = Canon(cp, roles.discover(cp, {
      'root_pitch': lambda fn: roles.assigned_where(fn, lambda v, st: isinstance(v, ast.Call) and dotted(v.func) == '_pitch_class_to_midi'),
      'degree': _ret_target(0), 'alter': _ret_target(1)}))
  okn = any(isinstance(n, ast.BinOp) and norm_text(n).replace(' ', '') == '(degree-1)%7+1' for n in ast.walk(cp.node))
  ctx.ob('PITCH/normalise', cp, cp.node, okn, 'compound degrees are reduced with (degree - 1) % 7 + 1' if okn else 'compound degrees (9, 11, 13) are not reduced with (degree - 1) % 7 + 1', construct='(degree - 1) % 7 + 1')
  ret = cp.node.body[-1]
  okr = False
  if isinstance(ret, ast.Return) and isinstance(ret.value, ast.ListComp) and isinstance(ret.value.elt, ast.BinOp) and isinstance(ret.value.elt.op, ast.Mod):
    try:
      got = nf.rat(ret.value.elt.left)
      okr = U.const_value(ret.value.elt.right) == 12 and (
          got.equals(nf.rat(ast.parse('root_pitch + _DEGREE_OFFSETS[degree] + alter', mode='eval').body)) or
          got.equals(nf.rat(ast.parse('root_pitch + _DEGREE_OFFSETS[(degree - 1) % 7 + 1] + alter', mode='eval').body)))
    except nf.NFError:
      okr = False
  ctx.ob('PITCH/formula', cp, ret, okr, 'pitch class = (root + degree offset + alteration) % 12' if okr else 'chord_symbol_pitches does not compute (root + offset[degree] + alter) % 12')
  # quality triads vs the first four kind rows
  q = ctx.func('chord_symbols_lib:chord_symbol_quality')
  want = {}
  names = ['CHORD_QUALITY_MAJOR', 'CHORD_QUALITY_MINOR', 'CHORD_QUALITY_AUGMENTED', 'CHORD_QUALITY_DIMINISHED']
  for i, nm in enumerate(names):
    row = T['_CHORD_KINDS'][i][1]
    dd = dict(parse_degree(x) for x in row)
    want[nm] = (dd.get(1), dd.get(3), dd.get(5))
  got = {}
  for st in U.walk_stmts(q.node):
    if isinstance(st, ast.If) and isinstance(st.test, ast.Compare) and isinstance(st.test.comparators[0], ast.Tuple) and isinstance(st.body[0], ast.Return):
      try:
        got[norm_text(st.body[0].value)] = ast.literal_eval(st.test.comparators[0])
      except Exception:
        pass
  # the same mapping written as a table: a module-level dict {triad tuple: quality} that the function looks its triad up in
  for n_ in ast.walk(q.node):
    if isinstance(n_, ast.Name) and len(q.module.assigns.get(n_.id, [])) == 1 and isinstance(q.module.assigns[n_.id][0], ast.Dict):
      for k_, v_ in zip(q.module.assigns[n_.id][0].keys, q.module.assigns[n_.id][0].values):
        try:
          got.setdefault(norm_text(v_), ast.literal_eval(k_))
        except Exception:
          pass
  for nm in names:
    ok = got.get(nm) == want[nm]
    ctx.ob('TAB/quality', q, q.node, ok, '%s is the triad %s of kind row %d' % (nm, want[nm], names.index(nm)) if ok else
           '%s tests the triad %s but kind row %d (%s) has alterations %s' % (nm, got.get(nm), names.index(nm), T['_CHORD_KINDS'][names.index(nm)][0][:2], want[nm]), construct='%s triad' % nm,
           unknown=None if nm in got else 'how chord_symbol_quality maps triads to %s is not recognised (neither an if-chain on a tuple nor a module-level table)' % nm)


# ------------------------------------------------------------------ S4
def escapes(ctx, mi, T):
  n = 0
  for fi in mi.all_functions.values():
    for r in ast.walk(fi.node):
      if isinstance(r, ast.Raise) and fi.parent is None:
        n += 1
        cls = (dotted(r.exc.func) if isinstance(r.exc, ast.Call) else dotted(r.exc)) if r.exc is not None else None
        ok = cls == 'ChordSymbolError'
        ctx.ob('ESC/raise-class', fi, r, ok, 'raises ChordSymbolError' if ok else 'raises %s: "a set it cannot name raises ChordSymbolError and nothing else"' % cls)
  ctx.require(n >= 4, 'only %d raise sites in chord_symbols_lib' % n)
  asserts = sum(1 for fi in mi.all_functions.values() for a in ast.walk(fi.node) if isinstance(a, ast.Assert))
  ctx.unanalysed.append('%d assert statements in chord_symbols_lib are not analysed' % asserts)
  # subscripts of constant tables keyed from their own domains
  kinds = set(T['_CHORD_KINDS_BY_ABBREV'])
  src = mi.assigns['_CHORD_KIND_PATTERN'][0]
  ok = any(isinstance(g, ast.comprehension) and norm_text(g.iter) == '_CHORD_KINDS_BY_ABBREV' for g in ast.walk(src)) and 're.escape' in norm_text(src)
  ctx.ob('KEYERR/kind', mi, src, ok, 'the kind regex is built from the keys of _CHORD_KINDS_BY_ABBREV: every matched kind is a key' if ok else
         'the kind regex is not generated from the keys of _CHORD_KINDS_BY_ABBREV: a matched kind may be missing from the dictionary (KeyError)', construct='_CHORD_KIND_PATTERN from dictionary keys')
  for name in ('_MODIFICATIONS_PATTERN', '_MODIFICATION_PATTERN'):
    src = mi.assigns[name][0]
    ok = any(isinstance(g, ast.comprehension) and norm_text(g.iter) == '_DEGREE_MODIFICATIONS' for g in ast.walk(src)) and 're.escape' in norm_text(src)
    ctx.ob('KEYERR/modification', mi, src, ok, '%s is built from the keys of _DEGREE_MODIFICATIONS' % name if ok else '%s is not generated from the keys of _DEGREE_MODIFICATIONS' % name, construct='%s from table keys' % name)
  tree = rx.parse(T['_CHORD_SYMBOL_PATTERN'])
  g1 = rx.find_group(tree, 1)
  first = rx.language(g1, finite_prefix=True)
  ok = first is not None and set(s[0] for s in first if s) <= set(T['_STEPS_MIDI']) and set(T['_STEPS_MIDI']) == set(T['_STEPS_ABOVE'])
  ctx.ob('KEYERR/steps', mi, mi.assigns['_STEPS_MIDI'][0], ok, 'every root letter the regex accepts is a key of both step tables' if ok else 'the root regex accepts letters missing from a step table',
         construct='root letters subset of step tables')
  # the written root is read back as written: the accidentals after the root letter are taken by the root, not left to what follows
  import re._constants as _C
  cons_ = 'the root group of the chord-symbol pattern takes every accidental that follows the letter'
  for gname_, gno_ in (('root', 1),):
    top_ = list(tree)
    pos_ = next((k_ for k_, (op_, av_) in enumerate(top_) if op_ is _C.SUBPATTERN and av_[0] == gno_), None)
    if pos_ is None:
      why_ = 'cannot classify: group %d of _CHORD_SYMBOL_PATTERN is not a top-level group' % gno_
      ctx.ob('RX/root-takes-its-accidentals', mi, mi.assigns['_CHORD_SYMBOL_PATTERN'][0], False, why_, construct=cons_, unknown=why_)
      continue
    sh_ = rx.shadowed_alternatives(list(top_[pos_][1][3]), top_[pos_ + 1:])
    ok = not sh_
    ctx.ob('RX/root-takes-its-accidentals', mi, mi.assigns['_ROOT_PATTERN'][0] if '_ROOT_PATTERN' in mi.assigns else mi.assigns['_CHORD_SYMBOL_PATTERN'][0], ok,
           'no alternative of the root is shadowed by an earlier one that matches nothing' if ok else
           'in the %s group an alternative that can match nothing stands before one that begins with %s, and what follows the group can begin with %s as well: Python tries alternatives in '
           'order and keeps the first that lets the rest match, so in "Bb7" the root is read as B and b7 is left to the rest of the pattern (a flat seventh added to B), not as Bb with '
           'kind 7' % (gname_, '/'.join(sorted(sh_[0][0])), '/'.join(sorted(sh_[0][0]))), construct=cons_, definite=True)
  # every pattern the readers try with `match` (no end anchor of its own) takes the longest degree number: "(b13)" is a 13th, not a 1
  for pname_ in ('_MODIFICATION_PATTERN', '_CHORD_SYMBOL_PATTERN', '_SCALE_DEGREE_PATTERN', '_PITCH_CLASS_PATTERN'):
    try:
      ptxt_ = T[pname_] if pname_ in T else fd.module_const(mi, pname_)
    except Exception:      # pylint: disable=broad-except
      continue
    if not isinstance(ptxt_, str):
      continue
    sh_ = rx.prefix_shadowed(rx.parse(ptxt_))
    ctx.ob('RX/longest-alternative-first', mi, mi.assigns[pname_][0], not sh_, 'no alternative of %s is cut short by an earlier one' % pname_ if not sh_ else
           'in %s an alternative that matches %r stands before one that matches %r, nothing after it has to match, and the pattern is not anchored at its end: `match` takes the shorter '
           'one, so a modification such as (b%s) / (#%s) is read as degree %s and the rest of the text is left over (the reader then fails on it)' % (
               pname_, sh_[0][0], sh_[0][1], sh_[0][1], sh_[0][1], sh_[0][0]) if sh_ else '', construct='%s: longest alternative first' % pname_, definite=True)
  ok = set(T['_DEGREE_OFFSETS']) == set(range(1, 8))
  ctx.ob('KEYERR/degree-offsets', mi, mi.assigns['_DEGREE_OFFSETS'][0], ok, 'normalised degrees 1..7 are exactly the keys of _DEGREE_OFFSETS' if ok else '_DEGREE_OFFSETS keys are %s' % sorted(T['_DEGREE_OFFSETS']), construct='_DEGREE_OFFSETS keys = 1..7')


def modification_table_roles(ctx, rule='TAB/modification-roles'):
  """The writer spells an *added* degree with an 'add' prefix (and an added seventh relative to the flat seventh, which only the
  adding reader undoes), an altered one with the bare accidental, a removed one with 'no'.  The reader's dispatch table must send
  every 'add...' prefix to the adding function, 'no' to the removing one and the bare accidentals to the altering one, with the
  accidental's sign as the alteration."""
  mi = ctx.P.module('chord_symbols_lib')
  node = mi.assigns['_DEGREE_MODIFICATIONS'][0]
  if not isinstance(node, ast.Dict):
    why = 'cannot classify: _DEGREE_MODIFICATIONS is not a literal table'
    ctx.ob(rule, mi, node, False, why, construct='modification prefixes dispatch to their readers', unknown=why)
    return
  want_fn = {'add': '_add_scale_degree', 'no': '_subtract_scale_degree', '': '_alter_scale_degree'}
  for k, v in zip(node.keys, node.values):
    if not (isinstance(k, ast.Constant) and isinstance(k.value, str) and isinstance(v, ast.Tuple) and len(v.elts) == 2):
      continue
    key = k.value
    stem = 'add' if key.startswith('add') else ('no' if key.startswith('no') else '')
    acc = key[len(stem):]
    alter = acc.count('#') - acc.count('b')
    got_fn, got_alter = norm_text(v.elts[0]), U.const_value(v.elts[1])
    ok = got_fn == want_fn[stem] and got_alter == alter
    ctx.ob(rule, mi, v, ok, '%r -> %s, %+d' % (key, got_fn, alter) if ok else
           'the prefix %r is read by %s with alteration %s, not by %s with %+d: what the writer spells "(%s7)" / "(%s9)" is read back as another set of degrees' % (
               key, got_fn, got_alter, want_fn[stem], alter, key, key), construct='_DEGREE_MODIFICATIONS[%r]' % key, definite=True)


def _fold_added_degree(ctx, mi, rd, special):
  """(store, degree, alter, got, want) for the first disagreement, None when everything agrees or the reader is not a single foldable store."""
  from sa import scenario
  from fractions import Fraction
  import copy as _copy
  class _K(object):
    def __init__(self, v):
      self.v = Fraction(v)
    def const_value(self):
      return self.v
  fn = rd.node
  body = [b for b in fn.body if not (isinstance(b, ast.Expr) and isinstance(b.value, ast.Constant)) and
          not (isinstance(b, ast.If) and not b.orelse and all(isinstance(x, ast.Raise) for x in b.body))]      # rejecting guards aside
  params = [a.arg for a in fn.args.args]
  if len(body) != 1 or len(params) != 3 or not (isinstance(body[0], ast.Assign) and len(body[0].targets) == 1 and isinstance(body[0].targets[0], ast.Subscript)):
    return None
  st = body[0]
  dname, aname = params[1], params[2]
  try:
    for degree in (special[0], 9 if special[0] != 9 else 11):
      for alter in (-1, 0, 1):
        e = _copy.deepcopy(st.value)
        class Tab(ast.NodeTransformer):
          def visit_Call(self, c):
            self.generic_visit(c)
            if isinstance(c.func, ast.Attribute) and c.func.attr == 'get' and isinstance(c.func.value, ast.Name) and c.func.value.id in mi.assigns and len(c.args) in (1, 2) and \
                isinstance(c.args[0], ast.Name) and c.args[0].id == dname and isinstance(mi.assigns[c.func.value.id][0], ast.Dict):
              tab = ast.literal_eval(mi.assigns[c.func.value.id][0])
              dflt = ast.literal_eval(c.args[1]) if len(c.args) == 2 else None
              v = tab.get(degree, dflt)
              if not isinstance(v, int):
                raise ValueError
              return ast.copy_location(ast.Constant(value=v), c)
            return c
        e = Tab().visit(e)
        got = scenario.fold_numeric(e, {dname: _K(degree), aname: _K(alter)})
        if got is None or isinstance(got, bool):
          return None
        want = alter - (special[1] if degree == special[0] else 0)
        if got != want:
          return (st, degree, alter, got, want)
  except Exception:      # pylint: disable=broad-except
    return None
  return None


def alteration_accumulates(ctx, rule='ALTER/accumulates'):
  """"(b5)" on a chord whose fifth is already diminished, "(#9)" after "(b9)": the altering reader *adds* its alteration to what the
  degree already carries; only an absent degree is set.  In the function the bare accidentals dispatch to, some store into
  `degrees[...]` must read the old value (`+=`, or a right-hand side that reads `degrees[...]` / `degrees.get(...)`); when every
  store there is a plain overwrite, an alteration of an altered degree forgets the earlier one."""
  mi = ctx.P.module('chord_symbols_lib')
  node = mi.assigns['_DEGREE_MODIFICATIONS'][0]
  cons = 'an alteration adds to the alteration the degree already has'
  names = set()
  if isinstance(node, ast.Dict):
    for k, v in zip(node.keys, node.values):
      if isinstance(k, ast.Constant) and k.value in ('#', 'b') and isinstance(v, ast.Tuple) and v.elts and isinstance(v.elts[0], ast.Name):
        names.add(v.elts[0].id)
  fis = [mi.functions[n] for n in sorted(names) if n in mi.functions]
  if not fis:
    why = 'cannot classify: the function the bare accidentals dispatch to was not found'
    ctx.ob(rule, mi, node, False, why, construct=cons, unknown=why)
    return
  for fi in fis:
    fn = fi.node
    params = [a.arg for a in fn.args.args]
    if not params:
      continue
    d = params[0]
    def reads_old(e):
      return any((isinstance(x, ast.Subscript) and isinstance(x.value, ast.Name) and x.value.id == d) or
                 (isinstance(x, ast.Call) and isinstance(x.func, ast.Attribute) and isinstance(x.func.value, ast.Name) and x.func.value.id == d) for x in ast.walk(e))
    plain, acc = [], []
    for st in U.walk_stmts(fn):
      if isinstance(st, ast.AugAssign) and isinstance(st.target, ast.Subscript) and isinstance(st.target.value, ast.Name) and st.target.value.id == d:
        acc.append(st)
      elif isinstance(st, ast.Assign) and any(isinstance(t, ast.Subscript) and isinstance(t.value, ast.Name) and t.value.id == d for t in st.targets):
        (acc if reads_old(U.expand_locals(fn, st.value, at=st)) else plain).append(st)
    other = [x for x in ast.walk(fn) if isinstance(x, ast.Call) and isinstance(x.func, ast.Attribute) and isinstance(x.func.value, ast.Name) and x.func.value.id == d and
             x.func.attr in ('update', 'setdefault', '__setitem__')] or [x for x in ast.walk(fn) if isinstance(x, ast.Call) and any(isinstance(a, ast.Name) and a.id == d for a in x.args)]
    if acc:
      ctx.ob(rule, fi, acc[0], True, '`%s` reads the old alteration' % norm_text(acc[0])[:60], construct=cons)
    elif plain and not other:
      ctx.ob(rule, fi, plain[0], False, 'every store into %s[...] in %s is a plain overwrite (`%s`): altering a degree that is already altered - "(b5)" on a diminished chord, "(#9)" after "(b9)" - '
             'forgets the alteration it had, and the symbol names other pitches than its parts say' % (d, fi.name, norm_text(plain[0])[:60]), construct=cons, definite=True)
    else:
      why = 'cannot classify: %s does not store into %s[...] directly' % (fi.name, d)
      ctx.ob(rule, fi, fn, False, why, construct=cons, unknown=why)


def bass_is_min_over_all_pitches(ctx, rule='SHAPE/bass-over-all-pitches'):
  """"the bass is the lowest supplied pitch": when the minimum is tracked in a loop (`if p < lowest: lowest = p`) instead of taken with
  min(pitches), every pitch must reach the comparison - a `continue` earlier in the loop body (skipping octave doublings, say) hides
  pitches from it, and the lowest one may be among them."""
  fi = ctx.func('chord_symbols_lib:pitches_to_chord_symbol')
  fn = fi.node
  pm = U.parents(fn)
  n = 0
  for st in U.walk_stmts(fn):
    if not (isinstance(st, ast.Assign) and len(st.targets) == 1 and isinstance(st.targets[0], ast.Name) and isinstance(st.value, ast.Name)):
      continue
    loops = U.enclosing_loops(fn, st)
    if not loops or not isinstance(loops[-1], ast.For) or not isinstance(loops[-1].target, ast.Name) or loops[-1].target.id != st.value.id:
      continue
    acc = st.targets[0].id
    if not any(isinstance(t, ast.Compare) and isinstance(t.ops[0], (ast.Lt, ast.Gt, ast.LtE, ast.GtE)) and {acc, st.value.id} <= set(x.id for x in ast.walk(t) if isinstance(x, ast.Name))
               for t, _p in [(x, True) for tt, _q in U.enclosing_tests(fn, st) for x in ast.walk(tt)]):
      continue
    loop = loops[-1]
    n += 1
    top = st
    while pm.get(id(top)) is not loop:
      top = pm.get(id(top))
    before = loop.body[:next(i for i, x in enumerate(loop.body) if x is top)]
    early = [x for b in before for x in ast.walk(b) if isinstance(x, (ast.Continue, ast.Break)) and U.enclosing_loops(fn, x)[-1] is loop]
    cons = 'every pitch reaches the running minimum %s' % acc
    ctx.ob(rule, fi, early[0] if early else st, not early, 'no pitch is skipped before the comparison with %s' % acc if not early else
           'the %s at line %d%s skips the rest of the loop body before `%s`: the pitches it skips are never compared, so the lowest supplied pitch - when it is one of them - is not the bass '
           'of the name' % (type(early[0]).__name__.lower(), early[0].lineno, ''.join(' (taken when %s)' % norm_text(t)[:50] for t, p in U.path_conditions(fn, early[0])[-1:] if p), norm_text(st)),
           construct=cons, definite=True)
  if n == 0:
    ctx.ob(rule, fi, fn, True, 'no running minimum is tracked in a loop of pitches_to_chord_symbol', construct='every pitch reaches the minimum')


def pitch_class_wraps_both_ways(ctx, rule='PITCHCLASS/wrap-both-ways'):
  """Anywhere in chord_symbols_lib (module-level tables included): a pitch class brought back into the octave by hand
  (`p + 12 if p < 0 else p`) is wrapped on one side only - the other side (B# = 12, B## = 13) is stored or returned as it is."""
  from sa import pitfalls
  mi = ctx.P.module('chord_symbols_lib')
  hits = pitfalls.one_sided_wraps(mi.tree)
  if not hits:
    ctx.ob(rule, mi, mi.tree, True, 'no one-sided octave wrap in chord_symbols_lib', construct='pitch classes are wrapped on both sides')
  for v, side in hits:
    ctx.ob(rule, mi, v, False, '`%s` wraps a pitch class only %s: a spelling on the other side of the octave (%s) keeps a value outside 0..11, so root / bass do not move by k modulo 12' % (
        norm_text(v)[:70], side, 'B# -> 12, B## -> 13' if side == 'below 0' else 'Cb -> -1'), construct='pitch classes are wrapped on both sides', definite=True)


def regex_groups_into_tables(ctx, rule='KEYERR/regex-group-into-table'):
  """A text captured by a group of a module-level pattern and used as the key of a module-level table: every text the group can
  match must be a key.  A group with an unbounded repetition (`#*`) matches more texts than any finite table lists - the first one
  that is missing ("###") raises KeyError, which is not ChordSymbolError.  Shared with C09 and C10."""
  mi = ctx.P.module('chord_symbols_lib')
  fd = fold.Folder(ctx.P, ctx.S)
  n = 0
  for q, fi in sorted(mi.all_functions.items()):
    fn = fi.node
    groups = {}
    for st in U.walk_stmts(fn):
      if not (isinstance(st, ast.Assign) and len(st.targets) == 1 and isinstance(st.value, ast.Call) and isinstance(st.value.func, ast.Attribute) and st.value.func.attr in ('groups', 'group')):
        continue
      m = U.expand_locals(fn, st.value.func.value, at=st)
      rgx = None
      if isinstance(m, ast.Call) and isinstance(m.func, ast.Attribute) and m.func.attr in ('match', 'fullmatch', 'search'):
        cand = m.func.value if not (dotted(m.func.value) == 're') else (m.args[0] if m.args else None)
        rgx = dotted(cand) if cand is not None else None
      if rgx is None or rgx not in mi.assigns:
        continue
      src = mi.assigns[rgx][0]
      pat_name = dotted(src.args[0]) if isinstance(src, ast.Call) and dotted(src.func) == 're.compile' and src.args else rgx
      try:
        ptxt = fd.module_const(mi, pat_name)
      except Exception:      # pylint: disable=broad-except
        continue
      if not isinstance(ptxt, str):
        continue
      tgt = st.targets[0]
      if st.value.func.attr == 'groups' and isinstance(tgt, (ast.Tuple, ast.List)):
        for k, e in enumerate(tgt.elts, 1):
          if isinstance(e, ast.Name):
            groups[e.id] = (ptxt, k, pat_name)
      elif st.value.func.attr == 'group' and isinstance(tgt, ast.Name) and st.value.args and isinstance(U.const_value(st.value.args[0]), int):
        groups[tgt.id] = (ptxt, U.const_value(st.value.args[0]), pat_name)
    for sub in ast.walk(fn):
      if not (isinstance(sub, ast.Subscript) and isinstance(sub.ctx, ast.Load) and isinstance(sub.value, ast.Name) and sub.value.id in mi.assigns and isinstance(sub.slice, ast.Name) and sub.slice.id in groups):
        continue
      ptxt, k, pat_name = groups[sub.slice.id]
      n += 1
      cons = '%s: every text group %d of %s can match is a key of %s' % (fi.qualname, k, pat_name, sub.value.id)
      try:
        keys = fd.module_const(mi, sub.value.id)
      except Exception:      # pylint: disable=broad-except
        keys = None
      g = rx.find_group(rx.parse(ptxt), k)
      lang = rx.language(g) if g is not None else None
      if not isinstance(keys, dict) or g is None:
        why = 'cannot classify: the keys of %s (or group %d of %s) could not be determined' % (sub.value.id, k, pat_name)
        ctx.ob(rule, fi, sub, False, why, construct=cons, unknown=why)
      elif lang is None:
        ctx.ob(rule, fi, sub, False, 'group %d of %s has no bound on its length (a `*` / `+` repetition) while %s has %d keys: a text the pattern accepts but the table does not list - one more '
               'accidental than the longest key - raises KeyError instead of being read (or refused with ChordSymbolError)' % (k, pat_name, sub.value.id, len(keys)), construct=cons, definite=True)
      else:
        missing = sorted(x for x in lang if x not in keys)
        ctx.ob(rule, fi, sub, not missing, 'all %d texts of the group are keys' % len(lang) if not missing else
               'group %d of %s can match %s, which %s does not list: KeyError' % (k, pat_name, missing[:4], sub.value.id), construct=cons, definite=True)
  if n == 0:
    ctx.ob(rule, mi, mi.tree, True, 'no module-level table of chord_symbols_lib is keyed by a captured group held in a local', construct='tables keyed by captured groups list every match')


def shape(ctx, mi):
  fi = ctx.func('chord_symbols_lib:pitches_to_chord_symbol')
  fi = Canon(fi, roles.discover(fi, {
      'bass': lambda fn: roles.assigned_where(fn, lambda v, st: isinstance(v, ast.BinOp) and isinstance(v.op, ast.Mod) and isinstance(v.left, ast.Call) and dotted(v.left.func) == 'min'),
      'best_root': lambda fn: roles.assigned_where(fn, lambda v, st: isinstance(v, ast.Name) and any(isinstance(l, ast.For) and isinstance(l.target, ast.Name) and l.target.id == v.id for l in ast.walk(fn))),
  }, required=False))
  fn = fi.node
  first = [s for s in fn.body if isinstance(s, ast.If)][0]
  ok = norm_text(first.test) == 'not pitches' and isinstance(first.body[0], ast.Return) and norm_text(first.body[0].value) == 'constants.NO_CHORD'
  lone = False
  if not ok and any(isinstance(x, ast.Return) and x.value is not None and norm_text(x.value).endswith('NO_CHORD') for x in first.body):
    # located: the test that leads to NO_CHORD folded for a container of one pitch
    from sa import scenario
    from fractions import Fraction
    class _K(object):
      def const_value(self):
        return Fraction(1)
    try:
      reads = set(norm_text(a) for a in ast.walk(first.test) if isinstance(a, ast.Call)) | set(a.id for a in ast.walk(first.test) if isinstance(a, ast.Name)) - {'len'}
      if reads == {'len(pitches)', 'pitches'} and not any(isinstance(a, ast.Name) and a.id == 'pitches' and not isinstance(U.parents(first.test).get(id(a)), ast.Call) for a in ast.walk(first.test)):
        lone = bool(scenario.fold_numeric(first.test, {'len(pitches)': _K()}))
    except Exception:
      lone = False
  ctx.ob('SHAPE/empty', fi, first, ok, 'no pitches -> N.C.' if ok else ('`%s` holds for a single pitch as well: one sounding pitch is named N.C., which the reader does not accept as a chord symbol of these pitches '
                                                                         '(a lone pitch has a name - the pedal kind on its own pitch class - and reads back exactly)' % norm_text(first.test)[:50]
                                                                         if lone else 'an empty pitch set is not named NO_CHORD'), definite=lone)
  b = [s for s in fn.body if isinstance(s, ast.Assign) and norm_text(s.targets[0]) == 'bass']
  ok = len(b) == 1 and norm_text(b[0].value) == 'min(pitches) % 12'
  ctx.ob('SHAPE/bass', fi, b[0] if b else fn, ok, 'the bass is the lowest supplied pitch' if ok else 'the bass is not min(pitches) % 12')
  last = fn.body[-1]
  ok = False
  if isinstance(last, ast.If) and last.orelse:
    c = U.compare_nf(last.test)
    ok = c is not None and c[1] == '==' and {c[0], c[2]} == {'bass', 'best_root'} and isinstance(last.body[-1], ast.Return) and isinstance(last.orelse[-1], ast.Return) and \
        "/%s'" in norm_text(last.orelse[-1].value) and '/' not in norm_text(last.body[-1].value).split('%', 1)[0]
  ctx.ob('SHAPE/slash-bass', fi, last, ok, 'a slash bass is written iff the bass differs from the root' if ok else 'the slash bass is not written exactly when bass != root')
  nr = [s for s in fn.body if isinstance(s, ast.If) and any(isinstance(x, ast.Raise) for x in s.body)]
  ok = any(norm_text(s.test) == 'best_root is None' for s in nr)
  ctx.ob('SHAPE/unnameable', fi, nr[-1] if nr else fn, ok, 'no matching kind -> ChordSymbolError' if ok else 'an unnameable pitch set does not raise')


MUTANTS = [
    Mutant('seed C15_e: adding a compound degree is refused when its simple degree is present', F, "  if degree in degrees:\n    raise ChordSymbolError('Scale degree already in chord: %d' % degree)", "  if degree in degrees or (degree - 1) % 7 + 1 in degrees:\n    raise ChordSymbolError('Scale degree already in chord: %d' % degree)", rule='VOCAB/reader-guard'),
    Mutant('scale degrees indexed with the absolute bass', F, '  bass_degrees = _SCALE_DEGREES[(bass - best_root) % 12]', '  bass_degrees = _SCALE_DEGREES[bass]', rule='IDX/scale-degrees'),
    Mutant('scale degrees indexed with the root', F, '  bass_degrees = _SCALE_DEGREES[(bass - best_root) % 12]', '  bass_degrees = _SCALE_DEGREES[best_root]', rule='IDX/scale-degrees'),
    Mutant('root spelled from a relative pitch', F, "  root_str = _pitch_class_to_string(*_transpose_pitch_class('C', 0, best_root))", "  root_str = _pitch_class_to_string(*_transpose_pitch_class('C', 0, (best_root - bass) % 12))", rule='IDX/spelling'),
    Mutant('kind search on absolute pitch classes', F, '    relative_pitches = set((pitch - root) % 12 for pitch in pitch_classes)', '    relative_pitches = set(pitch % 12 for pitch in pitch_classes)', rule='IDX/'),
    Mutant('removals written with sub', F, "      modifications_str += '(no%d)' % degree", "      modifications_str += '(sub%d)' % degree", rule='VOCAB/'),
    Mutant('additions written with plus', F, "        modifications_str += '(add%s%d)' % (alter_str, degree)", "        modifications_str += '(plus%s%d)' % (alter_str, degree)", rule='VOCAB/'),
    Mutant('writer forgets the seventh adjustment', F, '      if degree == 7:\n        # An added seventh is written relative to the dominant (flat) seventh,\n        # which is how _add_scale_degree reads it back.\n        alter += 1\n', '', rule='SEVENTH/'),
    Mutant('reader drops the seventh adjustment', F, '  if degree == 7:\n    alter -= 1\n  degrees[degree] = alter', '  degrees[degree] = alter', rule='SEVENTH/'),
    Mutant('KeyError for unknown chords', F, "    raise ChordSymbolError(\n        'Unable to determine chord symbol from pitches: %s' % str(pitches))", "    raise KeyError(\n        'Unable to determine chord symbol from pitches: %s' % str(pitches))", rule='ESC/raise-class'),
    Mutant('b6 listed where #5 belongs', F, "    ('#5', 'b13'),", "    ('#4', 'b13'),", rule='TAB/scale-degrees'),
    Mutant('fourth degree is 6 semitones', F, '_DEGREE_OFFSETS = {1: 0, 2: 2, 3: 4, 4: 5, 5: 7, 6: 9, 7: 11}', '_DEGREE_OFFSETS = {1: 0, 2: 2, 3: 4, 4: 6, 5: 7, 6: 9, 7: 11}', rule='TAB/degree-offsets'),
    Mutant('minor quality tests a major third', F, '  elif triad == (0, -1, 0):\n    return CHORD_QUALITY_MINOR', '  elif triad == (0, 0, -1):\n    return CHORD_QUALITY_MINOR', rule='TAB/quality'),
    Mutant('slash bass always written', F, '  if bass == best_root:\n    return', '  if False:\n    return', rule='SHAPE/slash-bass'),
    Mutant('bass is the highest pitch', F, '  bass = min(pitches) % 12', '  bass = max(pitches) % 12', rule='SHAPE/bass'),
    Mutant('kind taken from the last abbreviation', F, '      best_chord_abbrev, best_chord_degrees = chord_abbrevs[0], chord_degrees', '      best_chord_abbrev, best_chord_degrees = chord_degrees[0], chord_degrees', rule='VOCAB/kind'),
    # equivalent
    Mutant('relative bass computed in a local first', F, '  bass_degrees = _SCALE_DEGREES[(bass - best_root) % 12]', '  relative_bass = (bass - best_root) % 12\n  bass_degrees = _SCALE_DEGREES[relative_bass]', expect='silent'),
    Mutant('kind rows of equal size reordered', F, "    # major triad\n    (['', 'maj', 'M'],\n     ['1', '3', '5']),\n\n    # minor triad\n    (['m', 'min', '-'],\n     ['1', 'b3', '5']),", "    # major triad\n    (['', 'maj', 'M'],\n     ['1', '3', '5']),\n\n    # minor triad\n    (['m', '-', 'min'],\n     ['1', 'b3', '5']),", expect='silent'),
]

RENAME_FUNCS = [(F, 'pitches_to_chord_symbol'), (F, '_degrees_to_modifications'), (F, '_largest_chord_kind_from_relative_pitches'),
                (F, '_largest_chord_kind_from_degrees'), (F, 'chord_symbol_pitches'), (F, 'chord_symbol_quality'), (F, '_add_scale_degree')]

EXPLANATION += (' Location-independent additions: VOCAB/compound-boundary, VOCAB/addless-compound-only, VOCAB/degree-identity, DUP/groupby-sorted, PITCH/one-pitch-per-degree; TAB/quality also reads a table form.')
EXPLANATION += (' Round 6: ' + 'PITFALL/falsy-zero over every function of chord_symbols_lib; PITCHCLASS/reduced (shared with C09); SEVENTH/reader is read path-wise (stored value minus written alteration on the paths of one degree).')
EXPLANATION += (' Round 7: ' + 'VOCAB/modifications-by-pattern; VOCAB/accidentals-measured.')
EXPLANATION += (' Rounds 9-10: ' + 'RX/root-takes-its-accidentals (rx.shadowed_alternatives on the regex AST); PITFALL/misaligned-index.')
EXPLANATION += (' Round 11: ' + 'RX/longest-alternative-first (rx.prefix_shadowed); KEYERR/regex-group-into-table; PITFALL/previous-wraps for filtered counts; SEVENTH read from a returned value.')
EXPLANATION += (' Round 12: ' + 'TAB/modification-roles; SHAPE/bass-over-all-pitches; PITCHCLASS/wrap-both-ways.')
EXPLANATION += (' Round 14: ' + 'ALTER/accumulates; SHAPE/empty located for a lone pitch; SEVENTH/reader folded over (degree, alteration) when the reader is one store.')
