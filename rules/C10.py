"""C10 - transposition shifts every pitch, key and chord by the same interval (DESIGN.md §4 C10)."""
import ast
import re

from sa import own, cov, nf, fold, roles, astutil as U
from sa.roles import Canon
from sa.loader import norm_text, dotted
from sa.selftest import Mutant

PROPERTY = 'C10'
SL = 'sequences_lib'
F = 'note_seq/sequences_lib.py'
CS = 'note_seq/chord_symbols_lib.py'
LEVEL_TEXT = (
    'Structural necessary conditions of the transposition contract, decided for all inputs and all k: one operand `amount` '
    'reaches the pitch store, the range test, the key update (modulus folds to 12) and the chord call with coefficient 1; the '
    'drum exemption is paired (pitch stored only for non-drums, drums always kept, the deletion counter incremented exactly on '
    'the complement of "kept", total_time the max end of kept notes); the copy is written only inside the documented frame '
    '(velocities and times untouched) and the input is untouched unless in_place; the letter-step table agrees with the MIDI '
    'table; transpose_chord_symbol passes kind and modifications through unmodified, transposes root and bass with one function '
    'and one amount and formats the parts in split order; Melody/ChordProgression/LeadSheet transposition touch only pitched '
    'events, fold with NOTES_PER_OCTAVE in congruence-preserving form, skip NO_CHORD and apply one amount to both delegates. '
    'The homomorphism over all chord spellings is not decided.')
LEVEL_NOTE = 'Trusted: protobuf copy semantics; constant folding of module-level tables; textbook semitone distances in the oracle.'
TECHNIQUE = 'static analysis: def-use and rational normal forms of the transposition operand, guard pairing, write-frame from the points-to log, folded-table agreement'
DESIGN_REF = 'DESIGN.md section 4 (C10)'
EXPLANATION = ('OPERAND rules (NF of the four uses of `amount`), DRUM/COUNT/TOTAL pairing rules, FRAME from the write log with OWN for '
               'in_place=False, TAB agreement of _STEPS_ABOVE with _STEPS_MIDI, PASS-THROUGH def-use in transpose_chord_symbol, '
               'SEQ rules for Melody.transpose / ChordProgression.transpose / LeadSheet.transpose / squash.')
EXPLANATION += (' ' + 'PASS/pitch-chain: def-use chain in transpose_chord_symbol - the (step, alteration) arguments of each _transpose_pitch_class call come from one parsed pair (_parse_root / _parse_bass result), and the arguments of each _pitch_class_to_string call from one transposition result, in order.')
TRUSTED = ['protobuf copy semantics', 'semitone distances between natural letters (oracle)']
NOT_DECIDED = ['that transposing arbitrary chord spellings is a homomorphism on pitch-class sets (values)']
ASSUMPTIONS = []
# rules whose verdict does not depend on how the statements are arranged (semantic analyses); all other rules are shape rules:
# when one of those fails in a function that was restructured relative to reference/signatures.json the verdict is "cannot decide"
ROBUST = ('OWN/write', 'OWN/return', 'TAB/steps-midi', 'TAB/steps-above', 'FRAME')
FLOORS = {'OPERAND': 4, 'DRUM': 3, 'FRAME': 1, 'TAB': 7, 'PASS': 8, 'SEQ': 6, 'OWN': 10}

ORACLE_MIDI = {'C': 0, 'D': 2, 'E': 4, 'F': 5, 'G': 7, 'A': 9, 'B': 11}
LETTERS = 'CDEFGAB'


def E(t):
  return U.E(t)


def extremes_in_one_pass(ctx, rule='RANGE/extremes-in-one-pass'):
  """Location-independent: the clamped augmentation needs the lowest and the highest pitch of the sequence.  When both are tracked in
  one loop as `if p < lo: lo = p  elif p > hi: hi = p`, the `elif` is right only if lo and hi start from the same element: started
  from two sentinels (the top and the bottom of the MIDI range), the first element lowers `lo` and never reaches the test for `hi`,
  so a sequence whose first note is its highest reports a too small maximum - the clamp then lets a transposition push that note
  out of range, where it is deleted."""
  n = 0
  for q in ('augment_note_sequence', 'transpose_note_sequence'):
    fi = ctx.func(SL + ':' + q)
    fn = fi.node
    for lp in ast.walk(fn):
      if not isinstance(lp, ast.For):
        continue
      for st in lp.body:
        if not (isinstance(st, ast.If) and len(st.body) == 1 and len(st.orelse) == 1 and isinstance(st.orelse[0], ast.If) and len(st.orelse[0].body) == 1):
          continue
        a, b = st, st.orelse[0]
        def upd(x):
          s0 = x.body[0]
          if isinstance(s0, ast.Assign) and len(s0.targets) == 1 and isinstance(s0.targets[0], ast.Name) and isinstance(x.test, ast.Compare) and len(x.test.ops) == 1 and \
              isinstance(x.test.ops[0], (ast.Lt, ast.LtE, ast.Gt, ast.GtE)):
            sides = [norm_text(x.test.left), norm_text(x.test.comparators[0])]
            if s0.targets[0].id in sides and norm_text(s0.value) in sides and s0.targets[0].id != norm_text(s0.value):
              return s0.targets[0].id, norm_text(s0.value)
          return None
        ua, ub = upd(a), upd(b)
        if not ua or not ub or ua[0] == ub[0] or ua[1] != ub[1]:
          continue
        inits = []
        for nm in (ua[0], ub[0]):
          d = [x for x in U.walk_stmts(fn) if isinstance(x, ast.Assign) and len(x.targets) == 1 and isinstance(x.targets[0], ast.Name) and x.targets[0].id == nm and x.lineno < lp.lineno]
          inits.append(norm_text(d[-1].value) if d else None)
        n += 1
        same = inits[0] is not None and inits[0] == inits[1]
        cons = '%s: %s and %s tracked with if / elif start from the same element' % (q, ua[0], ub[0])
        if None in inits:
          why = 'cannot classify: the starting values of %s / %s were not found before the loop' % (ua[0], ub[0])
          ctx.ob(rule, fi, st, False, why, construct=cons, unknown=why)
          continue
        ctx.ob(rule, fi, st, same, 'both extremes start from %s' % inits[0] if same else
               '%s starts from %s and %s from %s, and the loop updates them with if / elif: the element that lowers %s is never compared with %s, so when the first element is the largest one %s '
               'keeps its starting value (or a smaller element) - the range of the sequence is understated and the clamp admits a transposition that pushes the top note out of range' % (
                   ua[0], inits[0], ub[0], inits[1], ua[0], ub[0], ub[0]), construct=cons, definite=True)
  if n == 0:
    ctx.ob(rule, ctx.func(SL + ':augment_note_sequence'), ctx.func(SL + ':augment_note_sequence').node, True, 'no if / elif tracking of two extremes in one loop', construct='extremes are taken with min / max or from one element')


def run(ctx):
  extremes_in_one_pass(ctx)
  from rules import C15 as _c15      # "root and bass move by k modulo 12" needs every spelled pitch class reduced into 0..11
  _c15.pitch_class_wraps_both_ways(ctx, 'PASS/wrap-both-ways')
  fi = ctx.func(SL + ':transpose_note_sequence')
  res = own.check_borrowed(ctx, SL + ':transpose_note_sequence', {'ns': own.NS}, {'in_place': False}, ['ns'])
  cfi = Canon(fi, roles.discover(fi, {
      'note': lambda fn: [n.target.id for n in fn.body if isinstance(n, ast.For) and norm_text(n.iter).endswith('.notes') and isinstance(n.target, ast.Name)],
      'deleted_note_count': lambda fn: roles.aug_where(fn, lambda st: isinstance(st.op, ast.Add) and U.const_value(st.value) == 1),
      'end_time': lambda fn: roles.assigned_where(fn, lambda v, st: isinstance(v, ast.Call) and dotted(v.func) == 'max'),
      'new_note_list': lambda fn: [s.value.func.value.id for s in U.walk_stmts(fn) if isinstance(s, ast.Expr) and isinstance(s.value, ast.Call) and
                                   isinstance(s.value.func, ast.Attribute) and s.value.func.attr == 'append' and isinstance(s.value.func.value, ast.Name) and
                                   s.value.args and any(isinstance(l, ast.For) and norm_text(l.iter).endswith('.notes') and norm_text(s.value.args[0]) == norm_text(l.target)
                                                        for l in fn.body)],
  }, required=False))
  # location-independent rules first: an anchored rule that gives up must not mask them
  from sa import pitfalls
  _cs = ctx.P.module('chord_symbols_lib')
  pitfalls.apply(ctx, 'PITFALL', [fi_ for q_, fi_ in sorted(_cs.all_functions.items()) if '.' not in q_], ['falsy-zero'], {
      'falsy-zero': 'pitch class 0 (C, B#, Dbb) is a root / bass like any other: a chord whose bass is pitch class 0 before or after the transposition reports its root as bass, so the bass does not move by the amount modulo 12'})
  ps = ctx.func('chord_symbols_lib:_pitch_class_to_string')
  if len(ps.node.args.args) == 2:
    for s_ in pitfalls.sign_only(ps.node, ps.node.args.args[1].arg):
      ctx.ob('SPELL/alteration-magnitude', ps, s_.node, s_.verdict == pitfalls.OK, s_.why if s_.verdict == pitfalls.OK else
             s_.why + ' - a double sharp / double flat left by _transpose_pitch_class is spelled with one accidental, so the transposed root or bass is a semitone off',
             construct='_pitch_class_to_string spells |alteration| accidentals', definite=(s_.verdict == pitfalls.BAD), unknown=s_.why if s_.verdict == pitfalls.UNKNOWN else None)
  else:
    ctx.ob('SPELL/alteration-magnitude', ps, ps.node, False, 'signature changed', unknown='cannot classify: _pitch_class_to_string no longer takes (step, alteration)')
  drum_conditions(ctx, fi, 'DRUM/keep-condition')
  drum_total_time(ctx, fi, 'DRUM/total-time')
  operand(ctx, cfi)
  drums(ctx, cfi)
  frame(ctx, fi, res)
  tables(ctx)
  passthrough(ctx)
  sequences(ctx)


def range_filter_unconditional(ctx, fi, rule='RANGE/filter-whatever-the-amount'):
  """"notes leaving [min_allowed_pitch, max_allowed_pitch] are deleted" holds for every amount, 0 included: a note that already lies
  outside the range is deleted when the sequence is transposed by 0.  The comparison with the allowed range must not sit under a
  condition on the amount."""
  from sa import pitfalls
  fn = fi.node
  cmps = [c for c in ast.walk(fn) if isinstance(c, ast.Compare) and any(isinstance(n, ast.Name) and n.id in ('min_allowed_pitch', 'max_allowed_pitch') for n in ast.walk(c))]
  cons = 'the allowed-pitch filter of transpose_note_sequence runs for every amount'
  if not cmps:
    why = 'cannot classify: no comparison with min_allowed_pitch / max_allowed_pitch found in transpose_note_sequence'
    ctx.ob(rule, fi, fn, False, why, construct=cons, unknown=why)
    return
  def on_amount_only(t, at):
    # a condition on the amount itself (`amount`, `amount != 0`, ...): it mentions the amount and nothing of a note or of the range
    tx = U.expand_locals(fn, t, at=at)
    names = set(n.id for n in ast.walk(tx) if isinstance(n, ast.Name))
    return 'amount' in names and not (names & {'min_allowed_pitch', 'max_allowed_pitch'}) and not any(isinstance(n, ast.Attribute) and n.attr in ('pitch', 'is_drum') for n in ast.walk(tx))
  guarded = [(c, [(t, p) for t, p in pitfalls.guards_at(fn, c) if on_amount_only(t, c)]) for c in cmps]
  seen_pol = set((norm_text(t), p) for _c, gs in guarded for t, p in gs)
  for c, gs in guarded:
    # a filter written once per case of the amount (both arms of the same test hold a comparison) covers every amount
    gs = [(t, p) for t, p in gs if (norm_text(t), not p) not in seen_pol]
    ctx.ob(rule, fi, c, not gs, 'the filter is not conditional on the amount' if not gs else
           'the comparison %s is made only when %s: transposing by an amount for which that is false (0) keeps notes that lie outside [min_allowed_pitch, max_allowed_pitch] and '
           'does not count them as deleted' % (norm_text(c)[:60], ' and '.join(('' if p else 'not ') + norm_text(t) for t, p in gs)), construct=cons, definite=True)


def key_scenarios(ctx, fi, rule='KEY/scenarios'):
  """"key signatures move by k modulo 12": the body of the loop over the key signatures, evaluated path by path for keys 0, 5, 11 and
  amounts -13, -12, -1, 0, 1, 7, 12, 13, must leave (key + amount) mod 12 in the key field."""
  from sa import pathval, scenario
  fn = fi.node
  lp = next((l for l in ast.walk(fn) if isinstance(l, ast.For) and norm_text(l.iter).endswith('.key_signatures') and isinstance(l.target, ast.Name)), None)
  cons = 'transpose_note_sequence: key signatures move by the amount modulo 12'
  if lp is None:
    why = 'cannot classify: no loop over the key signatures in transpose_note_sequence'
    ctx.ob(rule, fi, fn, False, why, construct=cons, unknown=why)
    return
  loc = '%s.key' % lp.target.id
  try:
    ps = pathval.paths(lp.body)
  except pathval.PathError as e:
    why = 'cannot classify: the body of the key-signature loop is not a straight-line block (%s)' % e
    ctx.ob(rule, fi, lp, False, why, construct=cons, unknown=why)
    return
  for k in (0, 5, 11):
    for a in (-13, -12, -1, 0, 1, 7, 12, 13):
      env = {loc: ast.Constant(value=k), 'amount': ast.Constant(value=a)}
      got, stuck = None, None
      for conds, penv, _end in ps:
        taken = True
        for t, pol in conds:
          v = scenario.fold_numeric(pathval.subst(U.expand_locals(fn, t, at=lp), env), {})
          if v is None:
            stuck, taken = norm_text(t), None
            break
          if bool(v) != pol:
            taken = False
            break
        if taken is None:
          break
        if taken:
          e = penv.get(loc)
          got = k if e is None else scenario.fold_numeric(pathval.subst(U.expand_locals(fn, e, at=lp), env), {})
          if got is None:
            stuck = norm_text(e)
          break
      c2 = cons + ' (key %d, amount %d)' % (k, a)
      if got is None:
        why = 'cannot classify: %s cannot be evaluated for key %d and amount %d' % (stuck or 'the loop body', k, a)
        ctx.ob(rule, fi, lp, False, why, construct=c2, unknown=why)
      else:
        want = (k + a) % 12
        ok = got == want
        ctx.ob(rule, fi, lp, ok, 'key %d moved by %d is %d' % (k, a, want) if ok else
               'a key signature of key %d transposed by %d is stored as %s, not %d = (%d + %d) mod 12' % (k, a, got, want, k, a), construct=c2, definite=True)


def operand(ctx, fi):
  fn = fi.node
  range_filter_unconditional(ctx, fi)
  A = nf.rat(E('amount'))
  loop = next((n for n in fn.body if isinstance(n, ast.For) and norm_text(n.iter).endswith('.notes')), None)
  ctx.require(loop is not None, 'transpose_note_sequence: note loop not found')
  v = loop.target.id
  # pitch store
  st = [s for s in U.walk_stmts(loop) if isinstance(s, (ast.AugAssign, ast.Assign)) and any(
      isinstance(t, ast.Attribute) and t.attr == 'pitch' for t, _v, _o in U.store_targets(s))]
  ok = len(st) == 1 and isinstance(st[0], ast.AugAssign) and isinstance(st[0].op, ast.Add) and nf.rat(st[0].value).equals(A)
  if len(st) == 1 and isinstance(st[0], ast.Assign):
    ok = nf.rat(cov.resolve_value(fn, st[0].value, st[0])).equals(nf.rat(E('%s.pitch + amount' % v)))
  ctx.ob('OPERAND/pitch', fi, st[0] if st else loop, ok, 'pitch moves by exactly amount' if ok else
         'the pitch store is not "pitch + amount": %s' % [norm_text(s) for s in st], construct='note.pitch += amount')
  # range test
  keep = next((s for s in loop.body if isinstance(s, ast.If) and s.orelse), None)
  ctx.require(keep is not None, 'transpose_note_sequence: keep/delete branch not found')
  parts = keep.test.values if isinstance(keep.test, ast.BoolOp) and isinstance(keep.test.op, ast.Or) else [keep.test]
  rng = [p for p in parts if isinstance(p, ast.Compare) and len(p.ops) == 2]
  # the same range written as a conjunction  lo <= x and x <= hi  is read as the chain  lo <= x <= hi
  for p in parts:
    if isinstance(p, ast.BoolOp) and isinstance(p.op, ast.And) and len(p.values) == 2 and all(isinstance(v_, ast.Compare) and len(v_.ops) == 1 for v_ in p.values):
      a_, b_ = p.values
      if norm_text(a_.comparators[0]) == norm_text(b_.left):
        rng.append(ast.Compare(left=a_.left, ops=[a_.ops[0], b_.ops[0]], comparators=[a_.comparators[0], b_.comparators[0]]))
  ok = False
  if len(rng) == 1:
    c = rng[0]
    env = {}
    mid_node = cov.resolve_value(fn, c.comparators[0], keep)
    mid = nf.rat(mid_node, env)
    ok = isinstance(c.ops[0], ast.LtE) and isinstance(c.ops[1], ast.LtE) and norm_text(c.left) == 'min_allowed_pitch' and \
        norm_text(c.comparators[1]) == 'max_allowed_pitch' and mid.equals(nf.rat(E('%s.pitch + amount' % v)))
  ctx.ob('OPERAND/range', fi, keep, ok, 'kept iff min_allowed_pitch <= pitch + amount <= max_allowed_pitch (or drum)' if ok else
         'the range test is not "min_allowed_pitch <= pitch + amount <= max_allowed_pitch": %s' % norm_text(keep.test),
         construct='min_allowed_pitch <= pitch + amount <= max_allowed_pitch')
  key_scenarios(ctx, fi)
  # key
  ks = [s for s in U.walk_stmts(fn) if isinstance(s, ast.Assign) and isinstance(s.targets[0], ast.Attribute) and s.targets[0].attr == 'key']
  ok = False
  if len(ks) == 1 and isinstance(ks[0].value, ast.BinOp) and isinstance(ks[0].value.op, ast.Mod):
    mod = _fold_num(ctx, fi.module, ks[0].value.right)
    ok = mod == 12 and nf.rat(ks[0].value.left).equals(nf.rat(E(norm_text(ks[0].targets[0]) + ' + amount')))
  ctx.ob('OPERAND/key', fi, ks[0] if ks else fn, ok, 'key moves by amount modulo 12' if ok else
         'key update is not (key + amount) %% 12: %s' % [norm_text(s) for s in ks], construct='ks.key = (ks.key + amount) % 12')
  kl = U.enclosing_loops(fn, ks[0]) if ks else ()
  ok = len(kl) == 1 and norm_text(kl[0].iter).endswith('.key_signatures') and not U.enclosing_tests(fn, ks[0]) if ks else False
  conditional = bool(ks) and len(kl) == 1 and norm_text(kl[0].iter).endswith('.key_signatures') and bool(U.enclosing_tests(fn, ks[0])) and \
      not any(isinstance(n, ast.Name) and n.id == 'amount' for t, _p in U.enclosing_tests(fn, ks[0]) for n in ast.walk(t))   # `if amount % 12:` would be harmless
  ctx.ob('OPERAND/key-all', fi, ks[0] if ks else fn, ok, 'every key signature is updated, unconditionally' if ok else
         ('the key signature update is conditional (%s)' % ', '.join(norm_text(t) for t, _p in U.enclosing_tests(fn, ks[0])) if conditional else 'not every key signature is updated'), definite=conditional,
         construct='for ks in key_signatures: unconditional update')
  # chords
  cc = [c for c in U.calls_in(fn) if (dotted(c.func) or '').endswith('transpose_chord_symbol')]
  ok = len(cc) == 1 and len(cc[0].args) == 2 and norm_text(cc[0].args[0]).endswith('.text')
  if ok:
    a = cc[0].args[1]
    ok = nf.rat(a).equals(A) or (isinstance(a, ast.BinOp) and isinstance(a.op, ast.Mod) and _fold_num(ctx, fi.module, a.right) == 12 and nf.rat(a.left).equals(A))
  ctx.ob('OPERAND/chord', fi, cc[0] if cc else fn, ok, 'chord symbols move by the same amount' if ok else
         'chord symbols are transposed by %s, not by amount' % (norm_text(cc[0].args[1]) if cc and len(cc[0].args) > 1 else None),
         construct='transpose_chord_symbol(ta.text, amount)')
  if cc:
    tests = [norm_text(t) for (t, pol) in U.enclosing_tests(fn, U.parent(fn, cc[0])) if pol]
    ok = any('annotation_type == CHORD_SYMBOL' in t and 'NO_CHORD' in t for t in tests)
    par = U.parent(fn, cc[0])
    ok = ok and isinstance(par, ast.Assign) and norm_text(par.targets[0]) == norm_text(cc[0].args[0])
    ctx.ob('OPERAND/chord-scope', fi, par, ok, 'exactly the chord-symbol annotations other than N.C. are rewritten in place' if ok else
           'chord rewriting is not restricted to CHORD_SYMBOL annotations other than NO_CHORD, or is not stored back into the same text',
           construct='CHORD_SYMBOL and text != NO_CHORD -> text = transposed')


def _fold_num(ctx, mi, node):
  try:
    v = fold.Folder(ctx.P, ctx.S).expr(mi, node, {})
  except fold.Unknown:
    return None
  return v if isinstance(v, (int, float)) else None


def tv(node, env):
  """Three-valued evaluation of a condition when only the atoms in `env` (normalised text -> bool) are known."""
  t = norm_text(node)
  if t in env:
    return env[t]
  if isinstance(node, ast.UnaryOp) and isinstance(node.op, ast.Not):
    v = tv(node.operand, env)
    return None if v is None else (not v)
  if isinstance(node, ast.BoolOp):
    vals = [tv(x, env) for x in node.values]
    if isinstance(node.op, ast.And):
      return False if any(x is False for x in vals) else (True if all(x is True for x in vals) else None)
    return True if any(x is True for x in vals) else (False if all(x is False for x in vals) else None)
  if isinstance(node, ast.Constant) and isinstance(node.value, bool):
    return node.value
  return None


def tv_all(conds, env):
  vals = [(None if tv(t, env) is None else (tv(t, env) == pol)) for (t, pol) in conds]
  return False if any(x is False for x in vals) else (True if all(x is True for x in vals) else None)


def note_loops(fn):
  """(loop-or-comprehension, variable) for every iteration over notes in the function."""
  for n in ast.walk(fn):
    if isinstance(n, ast.For) and isinstance(n.target, ast.Name):
      yield n, n.target.id
    elif isinstance(n, (ast.ListComp, ast.GeneratorExp)) and len(n.generators) == 1 and isinstance(n.generators[0].target, ast.Name):
      yield n, n.generators[0].target.id


def drum_conditions(ctx, fi, rule):
  """Location-independent: wherever a note is recorded as kept (`<list>.append(note)` in a loop over .notes, or the filter of a
  comprehension over .notes), the conditions known to hold there - enclosing tests and negated early exits - evaluated with
  `note.is_drum` true and everything else unknown must come out true: a drum note is kept whatever its pitch."""
  fn = fi.node
  for loop, v in note_loops(fn):
    src = loop.iter if isinstance(loop, ast.For) else loop.generators[0].iter
    if not norm_text(src).endswith('.notes'):
      continue
    env = {'%s.is_drum' % v: True}
    if isinstance(loop, ast.For):
      for s in U.walk_stmts(loop):
        if isinstance(s, ast.Expr) and isinstance(s.value, ast.Call) and isinstance(s.value.func, ast.Attribute) and s.value.func.attr == 'append' and \
           len(s.value.args) == 1 and norm_text(s.value.args[0]) == v:
          conds = [(U.expand_locals(fn, t, at=s), p) for t, p in U.path_conditions(fn, s, stop_at=loop)]
          r = tv_all(conds, env)
          residual = [(t, p) for t, p in conds if tv(t, env) is None or (tv(t, env) != p)]
          if r is not True and not all(any(b_ in U.names_in(t) for b_ in ('min_allowed_pitch', 'max_allowed_pitch')) for t, p in residual):
            continue      # the remaining conditions are not (only) the pitch range test: not positively located, no verdict here
          ctx.ob(rule, fi, s, r is True, 'a drum note is kept whatever its pitch' if r is True else
                 'a drum note reaches %s only if %s: drum notes must be left alone, not subjected to the pitch range test' % (
                     norm_text(s), ' and '.join(('' if p else 'not ') + '(' + norm_text(t) + ')' for t, p in conds if tv(t, env) is None or (tv(t, env) != p))),
                 construct='condition under which a drum note is kept', definite=True)
    elif isinstance(loop.elt, ast.Name) and loop.elt.id == v:
      conds = [(U.expand_locals(fn, t, at=loop), True) for t in loop.generators[0].ifs]
      r = tv_all(conds, env) if conds else True
      residual = [(t, p) for t, p in conds if tv(t, env) is None or (tv(t, env) != p)]
      if r is not True and not all(any(b_ in U.names_in(t) for b_ in ('min_allowed_pitch', 'max_allowed_pitch')) for t, p in residual):
        continue
      ctx.ob(rule, fi, loop, r is True, 'a drum note is kept whatever its pitch' if r is True else
             'the filter %s can drop a drum note' % ' and '.join(norm_text(t) for t, _p in conds), construct='condition under which a drum note is kept', definite=True)


def drum_total_time(ctx, fi, rule):
  """Location-independent: a running maximum over note end times that is definitely skipped for drum notes (its conditions
  evaluate to false with `note.is_drum` true) leaves a kept drum note outside total_time."""
  fn = fi.node
  tt = [s for s in ast.walk(fn) if isinstance(s, ast.Assign) and norm_text(s.targets[0]).endswith('.total_time') and isinstance(s.value, ast.Name)]
  if len(tt) != 1:
    return
  acc = tt[0].value.id
  for loop, v in note_loops(fn):
    if not isinstance(loop, ast.For):
      continue
    for s in U.walk_stmts(loop):
      if isinstance(s, ast.Assign) and norm_text(s.targets[0]) == acc and any(norm_text(a) == '%s.end_time' % v for a in ast.walk(s.value)):
        conds = [(U.expand_locals(fn, t, at=s), p) for t, p in U.path_conditions(fn, s, stop_at=loop)]
        r = tv_all(conds, {'%s.is_drum' % v: True})
        if r is False:
          ctx.ob(rule, fi, s, False, 'the running maximum %s is never updated for a drum note (%s): a kept drum note may end after total_time' % (
              acc, ' and '.join(('' if p else 'not ') + norm_text(t) for t, p in conds)), construct='total_time covers drum notes', definite=True)


def drums(ctx, fi):
  fn = fi.node
  loop = next((n for n in fn.body if isinstance(n, ast.For) and norm_text(n.iter).endswith('.notes')), None)
  v = loop.target.id
  keep = next((s for s in loop.body if isinstance(s, ast.If) and s.orelse), None)
  parts = keep.test.values if isinstance(keep.test, ast.BoolOp) and isinstance(keep.test.op, ast.Or) else [keep.test]
  ok = any(norm_text(p) == '%s.is_drum' % v for p in parts)
  ctx.ob('DRUM/kept', fi, keep, ok, 'drum notes are always kept' if ok else 'drum notes are subject to the pitch range test', construct='keep test contains `or note.is_drum`')
  st = [s for s in U.walk_stmts(loop) if any(isinstance(t, ast.Attribute) and t.attr == 'pitch' for t, _v, _o in U.store_targets(s))]
  ok = bool(st) and all(any(norm_text(t) == '%s.is_drum' % v and not pol or norm_text(t) == 'not %s.is_drum' % v and pol
                            for (t, pol) in U.enclosing_tests(fn, s, stop_at=loop)) for s in st)
  ctx.ob('DRUM/pitch-untouched', fi, st[0] if st else loop, ok, 'pitch is stored only for non-drum notes' if ok else 'a drum note can get a new pitch',
         construct='pitch store under `not note.is_drum`')
  cnt = [s for s in U.walk_stmts(loop) if isinstance(s, ast.AugAssign) and isinstance(s.target, ast.Name) and s.target.id == 'deleted_note_count']
  ok = len(cnt) == 1 and any(cnt[0] is s for s in keep.orelse) and isinstance(cnt[0].op, ast.Add) and U.const_value(cnt[0].value) == 1
  ctx.ob('DRUM/count', fi, cnt[0] if cnt else loop, ok, 'the counter is incremented exactly for notes that are not kept' if ok else
         'deleted_note_count is not incremented exactly on the complement of "kept"', construct='else: deleted_note_count += 1')
  app = [s for s in keep.body if isinstance(s, ast.Expr) and isinstance(s.value, ast.Call) and isinstance(s.value.func, ast.Attribute) and s.value.func.attr == 'append' and
         norm_text(s.value.args[0]) == v]
  ok = len(app) == 1
  lst = norm_text(app[0].value.func.value) if ok else None
  ctx.ob('DRUM/kept-list', fi, app[0] if app else keep, ok, 'every kept note is recorded once' if ok else 'kept notes are not all recorded', construct='new_note_list.append(note) in the keep branch')
  rebuilt = [s for s in fn.body if isinstance(s, ast.If) and has(s.test, 'deleted_note_count > 0')]
  ok = len(rebuilt) == 1 and [norm_text(x) for x in rebuilt[0].body] == ['del ns.notes[:]', 'ns.notes.extend(%s)' % lst]
  ctx.ob('DRUM/rebuild', fi, rebuilt[0] if rebuilt else fn, ok, 'when notes were deleted the note list is rebuilt from the kept notes' if ok else
         'the note list is not rebuilt from exactly the kept notes when some were deleted', construct='if deleted: del notes[:]; notes.extend(kept)')
  kept_total_time(ctx, fi, 'DRUM/total-time')


def kept_total_time(ctx, fi, rule):
  """transpose_note_sequence recomputes total_time: it must be the max end over exactly the kept notes (drum notes
  included), i.e. the max-reduction sits directly in the keep branch.  Shared with C11 (total_time covers every note)."""
  fn = fi.node
  drum_total_time(ctx, fi, rule)
  loop = next((n for n in fn.body if isinstance(n, ast.For) and norm_text(n.iter).endswith('.notes')), None)
  ctx.require(loop is not None, 'transpose_note_sequence: note loop not found')
  v = loop.target.id
  keep = next((s for s in loop.body if isinstance(s, ast.If) and s.orelse), None)
  ctx.require(keep is not None, 'transpose_note_sequence: keep/delete branch not found')
  tt = [s for s in fn.body if isinstance(s, ast.Assign) and norm_text(s.targets[0]).endswith('.total_time')]
  acc = norm_text(tt[0].value) if len(tt) == 1 and isinstance(tt[0].value, ast.Name) else None
  red = [s for s in keep.body if isinstance(s, ast.Assign) and acc is not None and norm_text(s.targets[0]) == acc]
  ok = len(red) == 1 and isinstance(red[0].value, ast.Call) and dotted(red[0].value.func) == 'max' and \
      set(norm_text(a) for a in red[0].value.args) == {acc, '%s.end_time' % v}
  # no other update of the accumulator inside the loop (e.g. one restricted to pitched notes)
  ok = ok and len([s for s in U.walk_stmts(loop) for (t, _v, _o) in U.store_targets(s) if isinstance(t, ast.Name) and t.id == acc]) == 1
  # positively identified: the running maximum exists but sits under a further condition inside the keep branch
  nested = [s for s in U.walk_stmts(keep) if isinstance(s, ast.Assign) and acc is not None and norm_text(s.targets[0]) == acc and s not in keep.body and
            any(s is x for b_ in [keep.body] for y in b_ for x in ast.walk(y))]
  ctx.ob(rule, fi, nested[0] if nested else (tt[0] if tt else fn), ok, 'total_time is the max end of the kept notes' if ok else
         ('the running maximum of the kept notes\' ends is only updated under %s: a kept note outside that condition (e.g. a drum note) may end after total_time' %
          ', '.join(norm_text(t) for t, _p in U.enclosing_tests(fn, nested[0], stop_at=keep)) if nested else
          'total_time is not the max end over exactly the kept notes (a kept note, e.g. a drum note, may end after total_time)'),
         construct='total_time = max end_time of kept notes', definite=bool(nested))


def has(test, text):
  try:
    return nf.compare_equal(nf.compare_nf(test), nf.compare_nf(E(text)))
  except nf.NFError:
    return False


def frame(ctx, fi, res):
  ws = [w for w in cov.result_writes(res) if not w.chain]
  allowed = {(): ('call:CopyFrom',), ('notes',): ('del', 'call:extend'), ('notes', '[]', 'pitch'): None, ('notes', '[]', 'pitch_name'): None,
             ('total_time',): None, ('text_annotations',): ('del', 'call:extend'), ('text_annotations', '[]', 'text'): None,
             ('key_signatures', '[]', 'key'): None}
  bad = [w for w in ws if w.path not in allowed or (allowed[w.path] is not None and w.op not in allowed[w.path])]
  for w in bad:
    ctx.ob('FRAME/transpose', w.func, w.stmt or w.node, False, 'transposition writes %s (%s): velocities, times and all other fields must stay as they are' % (cov.path_text(w.path), w.op))
  ctx.ob('FRAME/transpose', fi, fi.node, not bad, 'all %d writes stay inside the transposition frame' % len(ws) if not bad else '%d writes leave the frame' % len(bad),
         construct='transpose_note_sequence: write frame')


def tables(ctx):
  fd = fold.Folder(ctx.P, ctx.S)
  mi = ctx.P.module('chord_symbols_lib')
  above = fold.need(lambda: fd.module_const(mi, '_STEPS_ABOVE'), '_STEPS_ABOVE')
  midi = fold.need(lambda: fd.module_const(mi, '_STEPS_MIDI'), '_STEPS_MIDI')
  ctx.require(isinstance(above, dict) and isinstance(midi, dict), 'step tables are not dicts')
  for i, l in enumerate(LETTERS):
    nxt = LETTERS[(i + 1) % 7]
    ok = midi.get(l) == ORACLE_MIDI[l]
    ctx.ob('TAB/steps-midi', mi, mi.assigns['_STEPS_MIDI'][0], ok, '%s is %d semitones above C' % (l, ORACLE_MIDI[l]) if ok else
           '_STEPS_MIDI[%r] = %r, the letter %s is %d semitones above C' % (l, midi.get(l), l, ORACLE_MIDI[l]), construct='_STEPS_MIDI[%r]' % l)
    want = (ORACLE_MIDI[nxt] - ORACLE_MIDI[l]) % 12
    ok = above.get(l) == want and l in midi and nxt in midi and (midi[nxt] - midi[l]) % 12 == above.get(l)
    ctx.ob('TAB/steps-above', mi, mi.assigns['_STEPS_ABOVE'][0], ok, '%s -> %s is %d semitones in both tables' % (l, nxt, want) if ok else
           '_STEPS_ABOVE[%r] = %r disagrees with _STEPS_MIDI (%s -> %s is %d semitones)' % (l, above.get(l), l, nxt, want), construct='_STEPS_ABOVE[%r]' % l)
  # the two letter advances in _transpose_pitch_class are the same expression and start after `% 12`
  tp = ctx.func('chord_symbols_lib:_transpose_pitch_class')
  adv = [s for s in U.walk_stmts(tp.node) if isinstance(s, ast.Assign) and norm_text(s.targets[0]) == 'step']
  ok = len(adv) == 2 and norm_text(adv[0].value) == norm_text(adv[1].value) and 'ord(step) - ord(\'A\') + 1) % 7' in norm_text(adv[0].value)
  ctx.ob('TAB/letter-advance', tp, adv[0] if adv else tp.node, ok, 'both letter advances are the same next-letter expression' if ok else
         'the letter advance differs between the two places, or is not next-letter modulo 7', construct='step = next letter (mod 7), twice')
  # location-independent: the letter walk only ever goes up, so the amount must be brought into 0..11 by a true modulo; a conditional
  # "+= 12" brings only -12..-1 there, and an amount of -13 or less stays negative, is walked zero steps and comes back unchanged
  amt = tp.params()[2] if len(tp.params()) > 2 else 'transpose_amount'
  mods = [n for n in ast.walk(tp.node) if (isinstance(n, ast.AugAssign) and isinstance(n.op, ast.Mod) and norm_text(n.target) == amt) or
          (isinstance(n, ast.BinOp) and isinstance(n.op, ast.Mod) and amt in U.names_in(n.left))]
  bumps = [s for s in U.walk_stmts(tp.node) if isinstance(s, ast.AugAssign) and norm_text(s.target) == amt and isinstance(s.op, (ast.Add, ast.Sub)) and
           U.const_value(s.value) == 12 and U.enclosing_tests(tp.node, s)]
  if bumps and not mods:
    ctx.ob('TAB/mod-12', tp, bumps[0], False, '%s under %s is the only reduction of the amount: it maps -12..-1 into 0..11 but leaves -13 and below negative (and 12 and above '
           'unreduced), so a chord transposed by such an amount keeps its root and bass while notes and key signatures move' % (
               norm_text(bumps[0]), ', '.join(norm_text(t) for t, _p in U.enclosing_tests(tp.node, bumps[0]))), construct='transpose_amount %= 12', definite=True)
    return
  first = tp.node.body[1] if isinstance(tp.node.body[0], ast.Expr) else tp.node.body[0]
  ok = isinstance(first, ast.AugAssign) and isinstance(first.op, ast.Mod) and U.const_value(first.value) == 12 and norm_text(first.target) == 'transpose_amount'
  ctx.ob('TAB/mod-12', tp, first, ok, 'the amount is reduced modulo 12 first' if ok else 'the amount is not reduced modulo 12 before the letter walk', construct='transpose_amount %= 12')
  pm = ctx.func('chord_symbols_lib:_pitch_class_to_midi')
  r = [s for s in U.walk_stmts(pm.node) if isinstance(s, ast.Return)]
  ok = len(r) == 1 and isinstance(r[0].value, ast.BinOp) and isinstance(r[0].value.op, ast.Mod) and U.const_value(r[0].value.right) == 12 and \
      nf.rat(r[0].value.left).equals(nf.rat(E('_STEPS_MIDI[step] + alter')))
  ctx.ob('TAB/pitch-class', pm, r[0] if r else pm.node, ok, 'pitch class = (letter + alteration) % 12' if ok else 'pitch class of a spelled note is not (letter + alteration) % 12',
         construct='(_STEPS_MIDI[step] + alter) % 12')


def passthrough(ctx):
  fi = ctx.func('chord_symbols_lib:transpose_chord_symbol')
  fn = fi.node
  sp = [s for s in fn.body if isinstance(s, ast.Assign) and isinstance(s.value, ast.Call) and dotted(s.value.func) == '_split_chord_symbol']
  ctx.require(len(sp) == 1 and isinstance(sp[0].targets[0], ast.Tuple) and len(sp[0].targets[0].elts) == 4, 'transpose_chord_symbol: split not found')
  root_s, kind_s, mod_s, bass_s = [e.id for e in sp[0].targets[0].elts]
  ret = fn.body[-1]
  ctx.require(isinstance(ret, ast.Return), 'transpose_chord_symbol: no final return')
  parts = None
  v = ret.value
  if isinstance(v, ast.BinOp) and isinstance(v.op, ast.Mod) and isinstance(v.left, ast.Constant) and isinstance(v.right, ast.Tuple):
    if v.left.value == '%s' * len(v.right.elts) and v.left.value:
      parts = [norm_text(e) for e in v.right.elts]
  elif isinstance(v, ast.Call) and isinstance(v.func, ast.Attribute) and v.func.attr == 'join' and isinstance(v.func.value, ast.Constant) and v.func.value.value == '' and \
      v.args and isinstance(v.args[0], (ast.List, ast.Tuple)):
    parts = [norm_text(e) for e in v.args[0].elts]
  elif isinstance(v, ast.BinOp) and isinstance(v.op, ast.Add):
    parts = []

    def flat(n):
      if isinstance(n, ast.BinOp) and isinstance(n.op, ast.Add):
        flat(n.left)
        flat(n.right)
      else:
        parts.append(norm_text(n))
    flat(v)
  ctx.require(parts is not None, 'transpose_chord_symbol: result is not a concatenation the checker can read')
  if len(parts) != 4:
    ctx.ob('PASS/kind-and-modifications', fi, ret, False, 'the result is assembled from %d parts (%s), not from root, kind, modifications and bass' % (len(parts), parts),
           construct='result = root, kind_str, modifications_str, bass')
    return
  ok = parts[1] == kind_s and parts[2] == mod_s
  ctx.ob('PASS/kind-and-modifications', fi, ret, ok, 'kind and modifications are passed through unmodified, in split order' if ok else
         'the result does not carry the original kind and modification strings in positions 2 and 3: %s' % parts, construct='result = root, kind_str, modifications_str, bass')
  for s in U.walk_stmts(fn):
    for tgt, _v, _o in U.store_targets(s):
      if isinstance(tgt, ast.Name) and tgt.id in (kind_s, mod_s) and s is not sp[0]:
        ctx.ob('PASS/kind-and-modifications', fi, s, False, '%s is reassigned before it is formatted into the result' % tgt.id)
  tcalls = [c for c in U.calls_in(fn) if dotted(c.func) == '_transpose_pitch_class']
  ok = len(tcalls) == 2 and all(len(c.args) == 3 and norm_text(c.args[2]) == 'transpose_amount' for c in tcalls)
  ctx.ob('PASS/same-amount', fi, tcalls[0] if tcalls else fn, ok, 'root and bass are transposed by the same function and amount' if ok else
         'root and bass are not both transposed with _transpose_pitch_class(..., transpose_amount)', construct='_transpose_pitch_class(root|bass, transpose_amount)')
  # dataflow: root result -> part 0, bass result -> part 3
  def source_of(name):
    val = cov.local_value(fn, name, ret)
    return norm_text(val) if val is not None else None
  r0 = source_of(parts[0]) or ''
  ok = '_pitch_class_to_string(transposed_root_step, transposed_root_alter)' in r0.replace('\n', '') or 'transposed_root' in r0
  ctx.ob('PASS/root', fi, ret, ok, 'the first part is the transposed root' if ok else 'the first part of the result is not the transposed root (%s)' % r0, construct='part 0 = transposed root')
  bdefs = [s for s in U.walk_stmts(fn) if isinstance(s, ast.Assign) and norm_text(s.targets[0]) == parts[3]]
  okb = len(bdefs) == 2
  if okb:
    texts = sorted(norm_text(s.value) for s in bdefs)
    okb = any(t == bass_s for t in texts) and any(t.startswith("'/' + _pitch_class_to_string(transposed_bass") for t in texts)
  ctx.ob('PASS/bass', fi, ret, okb, 'the last part is "/"+transposed bass, or the original (empty) bass string' if okb else
         'the bass part is not "/" + transposed bass when a bass exists and the original string otherwise', construct='part 3 = "/" + transposed bass | bass_str')

  # def-use chain: (step, alteration) pairs travel together from the parser through the transposition to the printer
  defs = {}
  for st in U.walk_stmts(fn):
    for tgt, _v, _o in U.store_targets(st):
      if isinstance(tgt, ast.Name):
        defs.setdefault(tgt.id, []).append(st)

  def pair_source(call, n):
    """The value whose 2-tuple unpacking defines the first n(=2) arguments of call, in order; None otherwise."""
    if len(call.args) < 2 or not all(isinstance(a, ast.Name) for a in call.args[:2]):
      return None
    x, y = call.args[0].id, call.args[1].id
    if len(defs.get(x, [])) != 1 or len(defs.get(y, [])) != 1 or defs[x][0] is not defs[y][0]:
      return None
    st = defs[x][0]
    if not (isinstance(st, ast.Assign) and len(st.targets) == 1 and isinstance(st.targets[0], ast.Tuple) and [norm_text(e) for e in st.targets[0].elts] == [x, y]):
      return None
    return st.value

  def resolve(v):
    while isinstance(v, ast.Name) and len(defs.get(v.id, [])) == 1 and isinstance(defs[v.id][0], ast.Assign) and isinstance(defs[v.id][0].targets[0], ast.Name):
      v = defs[v.id][0].value
    return v

  pcalls = [c for c in U.calls_in(fn) if dotted(c.func) == '_pitch_class_to_string']
  ctx.require(len(tcalls) == 2 and len(pcalls) == 2, 'transpose_chord_symbol: expected two _transpose_pitch_class and two _pitch_class_to_string calls')
  seen_src = []
  for c in tcalls:
    src = pair_source(c, 2)
    src = resolve(src) if src is not None else None
    which = dotted(src.func) if isinstance(src, ast.Call) else None
    ok = which in ('_parse_root', '_parse_bass') and which not in seen_src
    seen_src.append(which)
    ctx.ob('PASS/pitch-chain', fi, c, ok, 'step and alteration both come from one %s(...) result' % which if ok else
           'the step and alteration passed to _transpose_pitch_class do not come from one parsed (step, alteration) pair: %s' % norm_text(c),
           construct='transposed pair %d <- one parsed pair' % (len(seen_src)))
  for i, c in enumerate(pcalls):
    src = pair_source(c, 2)
    ok = isinstance(src, ast.Call) and src in tcalls
    ctx.ob('PASS/pitch-chain', fi, c, ok, 'the printed step and alteration are one transposition result' if ok else
           'the step and alteration printed by _pitch_class_to_string do not come from one _transpose_pitch_class result: %s' % norm_text(c),
           construct='printed pair %d <- one transposed pair' % (i + 1))


def melody_paths(ctx, fi, N):
  """Location-independent: every path through the body of Melody.transpose's loop is followed by substitution (sa.pathval), its
  tests are matched against the four cases of the property - special event; pitch + amount below min_note; at or above
  max_note; inside - and the value it leaves in the event is compared, as a normal form with the residue algebra of sa.nf
  (x % 12 and x // 12 as linear forms), with   P  /  min_note + (q - min_note) % 12  /  max_note - 12 + (q - max_note) % 12  /  q
  where q = P + transpose_amount.  Equal normal forms: the case holds however the arithmetic is written.  A difference that is
  a non-zero constant, or a multiple of the indicator [x % 12 == 0], is a definite violation (the latter: exactly the pitches a
  whole number of octaves outside the range are folded into the wrong octave).  Anything else: no verdict from this rule."""
  from sa import pathval
  fn = fi.node
  loops = [n for n in fn.body if isinstance(n, ast.For)]
  if len(loops) != 1:
    return
  loop = loops[0]
  P = ast.Name(id='P', ctx=ast.Load())
  it, tg = loop.iter, loop.target
  env = {}
  if isinstance(it, ast.Call) and dotted(it.func) == 'range' and len(it.args) == 1 and norm_text(it.args[0]) in ('len(self)', 'len(self._events)') and isinstance(tg, ast.Name):
    i = tg.id
  elif isinstance(it, ast.Call) and dotted(it.func) == 'enumerate' and len(it.args) == 1 and norm_text(it.args[0]) in ('self', 'self._events') and \
      isinstance(tg, ast.Tuple) and len(tg.elts) == 2 and all(isinstance(e, ast.Name) for e in tg.elts):
    i = tg.elts[0].id
    env[tg.elts[1].id] = P
  else:
    return
  locs = ('self._events[%s]' % i, 'self[%s]' % i)
  for l in locs:
    env[l] = P
  try:
    ps = pathval.paths(loop.body, env)
  except pathval.PathError:
    return
  cenv = {'NOTES_PER_OCTAVE': ast.Constant(value=N)}

  def R(x):
    return nf.Builder(dict(cenv), int_mod=True).rat(x)

  def C(text, pol=True):
    return nf.compare_nf(E(text), dict(cenv), polarity=pol)
  special, pitched = C('P < MIN_MIDI_PITCH'), C('P < MIN_MIDI_PITCH', False)
  low, notlow = C('P + transpose_amount < min_note'), C('P + transpose_amount < min_note', False)
  high, nothigh = C('P + transpose_amount >= max_note'), C('P + transpose_amount >= max_note', False)
  want = {'special': ('P', 'a special event is left alone'),
          'low': ('min_note + (P + transpose_amount - min_note) %% %d' % N, 'a pitch below min_note is raised by whole octaves into the lowest octave of the range'),
          'high': ('max_note - %d + (P + transpose_amount - max_note) %% %d' % (N, N), 'a pitch at or above max_note is lowered by whole octaves into the highest octave of the range'),
          'mid': ('P + transpose_amount', 'a pitch inside the range moves by transpose_amount')}
  for conds, out, _end in ps:
    try:
      cs = [nf.compare_nf(t, dict(cenv), polarity=p) for t, p in conds]
    except nf.NFError:
      continue

    def has_c(ref):
      return any(c is not None and nf.compare_equal(c, ref) for c in cs)
    if has_c(special):
      kind = 'special'
    elif not has_c(pitched):
      continue
    elif has_c(low):
      kind = 'low'
    elif has_c(high):
      kind = 'high'
    elif has_c(notlow) and has_c(nothigh):
      kind = 'mid'
    else:
      continue
    finals = [out[l] for l in locs if l in out and out[l] is not P]
    final = finals[-1] if finals else P
    try:
      d = R(final) - R(E(want[kind][0]))
    except nf.NFError:
      continue
    node = loop
    if d.is_zero():
      ctx.ob('SEQ/melody-case', fi, node, True, '%s (%s)' % (want[kind][1], kind), construct='Melody.transpose: %s case' % kind, definite=True)
      continue
    atoms = d.n.atoms()
    dc = d.const_value()
    if (dc is not None and dc != 0) or (atoms and all(a.startswith('Z[') for a in atoms) and d.d.is_const()):
      ctx.ob('SEQ/melody-case', fi, node, False, 'in the %s case the event becomes %s; required: %s.  The difference is %r%s' % (
          kind, re.sub(r'\bP\b', 'event', norm_text(final)), want[kind][1], d,
          ' - Z[x|12] is 1 exactly when x is a multiple of 12: pitches a whole number of octaves outside the range land one octave off, outside [min_note, max_note)' if atoms else ''),
             construct='Melody.transpose: %s case' % kind, definite=True)


def carried_previous(ctx, fi, rule, why):
  """Location-independent (astutil.carried_previous_deviations): a variable compared with the current iteration's value plays
  "that value at the previous iteration"; an assignment in the loop that stores a constant or a derived value in it breaks that."""
  for lp in ast.walk(fi.node):
    if isinstance(lp, ast.For):
      for c, x, a, st, rhs in U.carried_previous_deviations(fi.node, lp):
        ctx.ob(rule, fi, st, False, '%s is compared with %s (%s) as its value at the previous iteration, but %s stores %s in it: %s' % (
            x, norm_text(a), norm_text(c), norm_text(st)[:80], norm_text(rhs), why), construct='%s holds the previous %s' % (x, norm_text(a)), definite=True)


def sequences(ctx):
  fd = fold.Folder(ctx.P, ctx.S)
  # Melody.transpose
  fi = ctx.func('melodies_lib:Melody.transpose')
  N0 = fd.module_const(fi.module, 'NOTES_PER_OCTAVE')
  if isinstance(N0, int) and N0 > 0:
    melody_paths(ctx, fi, N0)
  fi = Canon(fi, roles.discover(fi, {'i': lambda fn: [n.target.id for n in fn.body if isinstance(n, ast.For) and isinstance(n.target, ast.Name)]}))
  fn = fi.node
  N = fold.need(lambda: fd.module_const(fi.module, 'NOTES_PER_OCTAVE'), 'melodies_lib.NOTES_PER_OCTAVE')
  ctx.ob('SEQ/melody-octave', fi, fn, N == 12, 'NOTES_PER_OCTAVE folds to 12' if N == 12 else 'NOTES_PER_OCTAVE folds to %r' % (N,), construct='NOTES_PER_OCTAVE == 12')
  env = {'NOTES_PER_OCTAVE': ast.Constant(value=12)}
  loop = next((n for n in fn.body if isinstance(n, ast.For)), None)
  ctx.require(loop is not None, 'Melody.transpose: loop not found')
  g = loop.body[0] if loop.body else None
  ok = isinstance(g, ast.If) and has(g.test, 'self._events[i] >= MIN_MIDI_PITCH') and len(loop.body) == 1
  ctx.ob('SEQ/melody-guard', fi, g or loop, ok, 'only events >= MIN_MIDI_PITCH are touched' if ok else 'special events (< MIN_MIDI_PITCH) can be modified', construct='if event >= MIN_MIDI_PITCH')
  if isinstance(g, ast.If):
    aug = g.body[0]
    ok = isinstance(aug, ast.AugAssign) and isinstance(aug.op, ast.Add) and norm_text(aug.target) == 'self._events[i]' and norm_text(aug.value) == 'transpose_amount'
    ctx.ob('SEQ/melody-add', fi, aug, ok, 'events move by transpose_amount' if ok else 'events are not moved by exactly transpose_amount', construct='event += transpose_amount')
    fl = g.body[1] if len(g.body) > 1 else None
    lo_ok = hi_ok = False
    if isinstance(fl, ast.If) and fl.orelse and isinstance(fl.orelse[0], ast.If):
      lo, hi = fl, fl.orelse[0]
      if has(lo.test, 'self._events[i] < min_note') and len(lo.body) == 1 and isinstance(lo.body[0], ast.Assign):
        lo_ok = nf.rat(lo.body[0].value, env).equals(nf.rat(E('min_note + (self._events[i] - min_note) % 12')))
      if has(hi.test, 'self._events[i] >= max_note') and len(hi.body) == 1 and isinstance(hi.body[0], ast.Assign):
        hi_ok = nf.rat(hi.body[0].value, env).equals(nf.rat(E('max_note - 12 + (self._events[i] - max_note) % 12')))
    ctx.ob('SEQ/melody-fold-low', fi, fl or g, lo_ok, 'pitches below min_note fold to min_note + (p - min_note) % 12' if lo_ok else
           'the low fold is not min_note + (p - min_note) % NOTES_PER_OCTAVE under p < min_note', construct='low fold')
    ctx.ob('SEQ/melody-fold-high', fi, fl or g, hi_ok, 'pitches >= max_note fold to max_note - 12 + (p - max_note) % 12' if hi_ok else
           'the high fold is not max_note - NOTES_PER_OCTAVE + (p - max_note) % NOTES_PER_OCTAVE under p >= max_note', construct='high fold')
  # squash delegates to transpose with the computed amount and returns it
  sq = ctx.func('melodies_lib:Melody.squash')
  sq = Canon(sq, roles.discover(sq, {'transpose_amount': lambda fn: [c.args[0].id for c in U.calls_in(fn) if norm_text(c.func) == 'self.transpose' and c.args and isinstance(c.args[0], ast.Name)]}))
  tc = [c for c in U.calls_in(sq.node) if norm_text(c.func) == 'self.transpose']
  ok = len(tc) == 1 and [norm_text(a) for a in tc[0].args] == ['transpose_amount', 'min_note', 'max_note'] and \
      isinstance(sq.node.body[-1], ast.Return) and norm_text(sq.node.body[-1].value) == 'transpose_amount'
  ctx.ob('SEQ/melody-squash', sq, tc[0] if tc else sq.node, ok, 'squash transposes by the amount it returns' if ok else 'squash does not transpose by exactly the amount it returns',
         construct='self.transpose(transpose_amount, min_note, max_note); return transpose_amount')
  # ChordProgression.transpose
  cp = ctx.func('chords_lib:ChordProgression.transpose')
  carried_previous(ctx, cp, 'SEQ/chords-memo-key', 'a result remembered for "the same figure as at the previous step" must be keyed by the figure that was *read*, not by what was '
                   'written back: otherwise a chord that equals its predecessor\'s transposition (C then G, up 7) is taken for a repeat and left untransposed')
  cp = Canon(cp, roles.discover(cp, {'i': lambda fn: [n.target.id for n in fn.body if isinstance(n, ast.For) and isinstance(n.target, ast.Name)]}))
  loop = next((n for n in cp.node.body if isinstance(n, ast.For)), None)
  ctx.require(loop is not None, 'ChordProgression.transpose: loop not found')
  g = loop.body[0]
  ok = isinstance(g, ast.If) and has(g.test, 'self._events[i] != NO_CHORD')
  ctx.ob('SEQ/chords-skip-nc', cp, g, ok, 'NO_CHORD is left alone' if ok else 'NO_CHORD events are transposed', construct='if event != NO_CHORD')
  cc = [c for c in U.calls_in(cp.node) if (dotted(c.func) or '').endswith('transpose_chord_symbol')]
  ok = len(cc) == 1 and norm_text(cc[0].args[0]) == 'self._events[i]'
  if ok:
    a = cc[0].args[1]
    ok = norm_text(a) == 'transpose_amount' or (isinstance(a, ast.BinOp) and isinstance(a.op, ast.Mod) and norm_text(a.left) == 'transpose_amount' and
                                                _fold_num(ctx, cp.module, a.right) == 12)
    par = U.parent(cp.node, cc[0])
    ok = ok and isinstance(par, ast.Assign) and norm_text(par.targets[0]) == 'self._events[i]'
  ctx.ob('SEQ/chords-amount', cp, cc[0] if cc else cp.node, ok, 'each chord is replaced by its transposition by transpose_amount (mod 12)' if ok else
         'chords are not replaced by their transposition by transpose_amount (mod 12)', construct='events[i] = transpose_chord_symbol(events[i], amount % 12)')
  # LeadSheet
  ls = ctx.func('lead_sheets_lib:LeadSheet.transpose')
  calls = [norm_text(c) for c in U.calls_in(ls.node)]
  ok = 'self._melody.transpose(transpose_amount, min_note, max_note)' in calls and 'self._chords.transpose(transpose_amount)' in calls
  ctx.ob('SEQ/leadsheet-transpose', ls, ls.node, ok, 'melody and chords are transposed by the same amount' if ok else
         'LeadSheet.transpose does not apply one transpose_amount to both melody and chords: %s' % calls, construct='melody.transpose(a, ...) and chords.transpose(a)')
  from rules import C17 as _c17
  _c17.paired_on_every_exit(ctx, ls, 'transpose', 'SEQ/leadsheet-every-exit', mode='transpose')
  # a lead sheet hands min_note / max_note on to its melody: called with defaults it must do what the melody does with defaults
  from sa import pitfalls as _pf
  for mname_ in ('transpose', 'squash'):
    a_, b_ = ctx.func('lead_sheets_lib:LeadSheet.' + mname_), ctx.func('melodies_lib:Melody.' + mname_)
    da_, db_ = _pf._param_table(a_.node)[1], _pf._param_table(b_.node)[1]
    for q_ in sorted(set(da_) & set(db_)):
      va_, vb_ = _fold_num(ctx, a_.module, da_[q_]), _fold_num(ctx, b_.module, db_[q_])
      cons_ = 'LeadSheet.%s(%s=...) defaults like Melody.%s' % (mname_, q_, mname_)
      if va_ is None or vb_ is None:
        if norm_text(da_[q_]) == norm_text(db_[q_]):
          ctx.ob('SEQ/leadsheet-defaults', a_, a_.node, True, 'both default %s to %s' % (q_, norm_text(da_[q_])), construct=cons_)
        else:
          why_ = 'cannot classify: the defaults %s and %s of %s are not numbers' % (norm_text(da_[q_]), norm_text(db_[q_]), q_)
          ctx.ob('SEQ/leadsheet-defaults', a_, a_.node, False, why_, construct=cons_, unknown=why_)
        continue
      ok_ = va_ == vb_
      ctx.ob('SEQ/leadsheet-defaults', a_, a_.node, ok_, '%s defaults to %s in both' % (q_, va_) if ok_ else
             'LeadSheet.%s defaults %s to %s where Melody.%s defaults it to %s: a lead sheet transposed with default arguments folds its melody into another range than the melody alone '
             '(max_note is exclusive: 127 instead of 128 sends a note landing on pitch 127 down an octave)' % (mname_, q_, va_, mname_, vb_), construct=cons_, definite=True)
  # Melody.squash folds the melody into [min_note, max_note) whatever the key argument is: every normal exit has passed
  # self.transpose(amount, min_note, max_note), except the exit taken when the melody holds no pitch at all
  sq = ctx.func('melodies_lib:Melody.squash')
  cons_ = 'Melody.squash transposes / folds on every exit that has notes'
  miss = U.exits_missing_call(sq.node, lambda c: norm_text(c.func) == 'self.transpose')
  if not miss:
    ctx.ob('SEQ/squash-every-exit', sq, sq.node, True, 'every normal exit of Melody.squash has passed self.transpose', construct=cons_)
  for ex in miss:
    node_ = ex if isinstance(ex, ast.stmt) and not isinstance(ex, ast.FunctionDef) else sq.node
    conds_ = [(U.expand_locals(sq.node, t, at=node_), p) for t, p in U.path_conditions(sq.node, node_)] if node_ is not sq.node else []
    empty_ = any((not p) and isinstance(t, (ast.ListComp, ast.GeneratorExp)) for t, p in conds_)      # `if not <the pitches>:` is the test taken
    on_key = [(t, p) for t, p in conds_ if any(isinstance(x, ast.Name) and x.id == 'transpose_to_key' for x in ast.walk(t))]
    if empty_:
      ctx.ob('SEQ/squash-every-exit', sq, node_, True, 'the exit without a transposition is taken only when the melody has no pitch', construct=cons_ + ' (no-pitch exit)')
    elif (on_key and len(on_key) == len(conds_)) or node_ is sq.node:
      ctx.ob('SEQ/squash-every-exit', sq, node_, False, 'Melody.squash can end without self.transpose(...) %s: with no key requested the amount is 0, but the octave fold into [min_note, max_note) '
             'is part of that call and is then never applied' % (('when ' + ' and '.join(('' if p else 'not ') + norm_text(t) for t, p in on_key)) if on_key else 'on the path that falls off the end'),
             construct=cons_, definite=True)
    else:
      # a further condition on the path (say `lowest is None` after a scan for the extreme pitches) may be the no-pitch test in another form
      why_ = 'cannot classify: Melody.squash can return (line %d) without self.transpose under %s' % (
          getattr(node_, 'lineno', 0), ' and '.join(('' if p else 'not ') + norm_text(t) for t, p in conds_ if (t, p) not in on_key) or 'no condition')
      ctx.ob('SEQ/squash-every-exit', sq, node_, False, why_, construct=cons_, unknown=why_)
  lq = ctx.func('lead_sheets_lib:LeadSheet.squash')
  asg = [s for s in lq.node.body if isinstance(s, ast.Assign) and isinstance(s.value, ast.Call) and norm_text(s.value.func) == 'self._melody.squash']
  ok = len(asg) == 1 and isinstance(asg[0].targets[0], ast.Name)
  if ok:
    amt = asg[0].targets[0].id
    calls = [norm_text(c) for c in U.calls_in(lq.node)]
    ok = 'self._chords.transpose(%s)' % amt in calls and isinstance(lq.node.body[-1], ast.Return) and norm_text(lq.node.body[-1].value) == amt
  ctx.ob('SEQ/leadsheet-squash', lq, lq.node, ok, 'chords follow the amount the melody was squashed by' if ok else
         'LeadSheet.squash does not transpose the chords by the amount returned by the melody squash', construct='a = melody.squash(...); chords.transpose(a); return a')


MUTANTS = [
    Mutant('seed C10_a: bass transposed with the root alteration', CS, '        bass_step, bass_alter, transpose_amount)', '        bass_step, root_alter, transpose_amount)', rule='PASS/pitch-chain'),
    Mutant('bass printed with the transposed root alteration', CS, '        transposed_bass_step, transposed_bass_alter)', '        transposed_bass_step, transposed_root_alter)', rule='PASS/pitch-chain'),
    Mutant('step and alteration swapped into the printer', CS, '      transposed_root_step, transposed_root_alter)\n', '      transposed_root_alter, transposed_root_step)\n', rule='PASS/pitch-chain'),
    Mutant('key modulo 11', F, '    ks.key = (ks.key + amount) % 12', '    ks.key = (ks.key + amount) % 11', rule='OPERAND/key'),
    Mutant('key moves the other way', F, '    ks.key = (ks.key + amount) % 12', '    ks.key = (ks.key - amount) % 12', rule='OPERAND/key'),
    Mutant('chords transposed by -amount', F, 'ta.text = chord_symbols_lib.transpose_chord_symbol(ta.text, amount)', 'ta.text = chord_symbols_lib.transpose_chord_symbol(ta.text, -amount)', rule='OPERAND/chord'),
    Mutant('pitch moved twice', F, '        note.pitch += amount\n', '        note.pitch += 2 * amount\n', rule='OPERAND/pitch'),
    Mutant('range tested on the old pitch', F, '    new_pitch = note.pitch + amount\n', '    new_pitch = note.pitch\n', rule='OPERAND/range'),
    Mutant('upper bound exclusive', F, '    if (min_allowed_pitch <= new_pitch <= max_allowed_pitch) or note.is_drum:', '    if (min_allowed_pitch <= new_pitch < max_allowed_pitch) or note.is_drum:', rule='OPERAND/range'),
    Mutant('counter counts kept notes', F, '      new_note_list.append(note)\n    else:\n      deleted_note_count += 1', '      new_note_list.append(note)\n      deleted_note_count += 1\n    else:\n      pass', rule='DRUM/count'),
    Mutant('drums transposed too', F, '      if not note.is_drum:\n        note.pitch += amount', '      if True:\n        note.pitch += amount', rule='DRUM/pitch-untouched'),
    Mutant('drums range-tested', F, '    if (min_allowed_pitch <= new_pitch <= max_allowed_pitch) or note.is_drum:', '    if (min_allowed_pitch <= new_pitch <= max_allowed_pitch):', rule='DRUM/'),
    Mutant('velocity clamped', F, '        note.pitch += amount\n', '        note.pitch += amount\n        note.velocity = min(note.velocity, 127)\n', rule='FRAME/'),
    Mutant('total_time from all notes', F, '    if (min_allowed_pitch <= new_pitch <= max_allowed_pitch) or note.is_drum:\n      end_time = max(end_time, note.end_time)\n',
           '    end_time = max(end_time, note.end_time)\n    if (min_allowed_pitch <= new_pitch <= max_allowed_pitch) or note.is_drum:\n', rule='DRUM/total-time'),
    Mutant('copy skipped', F, '  if not in_place:\n    new_ns = music_pb2.NoteSequence()\n    new_ns.CopyFrom(ns)\n    ns = new_ns', '  if not in_place and False:\n    new_ns = music_pb2.NoteSequence()\n    new_ns.CopyFrom(ns)\n    ns = new_ns', rule='OWN/'),
    Mutant('E-F is a whole step', CS, "_STEPS_ABOVE = {'A': 2, 'B': 1, 'C': 2, 'D': 2, 'E': 1, 'F': 2, 'G': 2}", "_STEPS_ABOVE = {'A': 2, 'B': 1, 'C': 2, 'D': 2, 'E': 2, 'F': 1, 'G': 2}", rule='TAB/steps-above'),
    Mutant('bass transposed by -amount', CS, '        bass_step, bass_alter, transpose_amount)', '        bass_step, bass_alter, -transpose_amount)', rule='PASS/same-amount'),
    Mutant('modifications dropped from the result', CS, "  return '%s%s%s%s' % (transposed_root_str, kind_str, modifications_str,\n                       transposed_bass_str)", "  return '%s%s%s' % (transposed_root_str, kind_str,\n                     transposed_bass_str)", rule='PASS/kind'),
    Mutant('kind and modifications swapped', CS, "  return '%s%s%s%s' % (transposed_root_str, kind_str, modifications_str,\n                       transposed_bass_str)", "  return '%s%s%s%s' % (transposed_root_str, modifications_str, kind_str,\n                       transposed_bass_str)", rule='PASS/kind'),
    Mutant('bass keeps its old spelling', CS, "    transposed_bass_str = '/' + _pitch_class_to_string(\n        transposed_bass_step, transposed_bass_alter)", "    transposed_bass_str = bass_str", rule='PASS/bass'),
    Mutant('melody: note-off transposed', 'note_seq/melodies_lib.py', '      if self._events[i] >= MIN_MIDI_PITCH:\n        self._events[i] += transpose_amount', '      if self._events[i] >= MELODY_NOTE_OFF:\n        self._events[i] += transpose_amount', rule='SEQ/melody-guard'),
    Mutant('melody: low fold by 11', 'note_seq/melodies_lib.py', '              min_note + (self._events[i] - min_note) % NOTES_PER_OCTAVE)', '              min_note + (self._events[i] - min_note) % 11)', rule='SEQ/melody-fold-low'),
    Mutant('melody: high fold lands on max_note', 'note_seq/melodies_lib.py', '          self._events[i] = (max_note - NOTES_PER_OCTAVE +', '          self._events[i] = (max_note +', rule='SEQ/melody-fold-high'),
    Mutant('chords: N.C. transposed', 'note_seq/chords_lib.py', '      if self._events[i] != NO_CHORD:\n        self._events[i] = chord_symbols_lib.transpose_chord_symbol(', '      if True:\n        self._events[i] = chord_symbols_lib.transpose_chord_symbol(', rule='SEQ/chords-skip-nc'),
    Mutant('lead sheet: chords not transposed', 'note_seq/lead_sheets_lib.py', '    self._melody.transpose(transpose_amount, min_note, max_note)\n    self._chords.transpose(transpose_amount)', '    self._melody.transpose(transpose_amount, min_note, max_note)', rule='SEQ/leadsheet-transpose'),
    Mutant('lead sheet squash: chords moved to the key', 'note_seq/lead_sheets_lib.py', '    self._chords.transpose(transpose_amount)\n    return transpose_amount', '    self._chords.transpose(transpose_to_key)\n    return transpose_amount', rule='SEQ/leadsheet-squash'),
    # equivalent
    Mutant('amount reduced before the chord helper', F, 'ta.text = chord_symbols_lib.transpose_chord_symbol(ta.text, amount)', 'ta.text = chord_symbols_lib.transpose_chord_symbol(ta.text, amount % 12)', expect='silent'),
    Mutant('result built with join', CS, "  return '%s%s%s%s' % (transposed_root_str, kind_str, modifications_str,\n                       transposed_bass_str)", "  return ''.join([transposed_root_str, kind_str, modifications_str,\n                  transposed_bass_str])", expect='silent'),
    Mutant('pitch store spelled out', F, '        note.pitch += amount\n', '        note.pitch = new_pitch\n', expect='silent'),
    Mutant('key operands swapped', F, '    ks.key = (ks.key + amount) % 12', '    ks.key = (amount + ks.key) % 12', expect='silent'),
]

RENAME_FUNCS = [(F, 'transpose_note_sequence'), (CS, 'transpose_chord_symbol'), (CS, '_transpose_pitch_class'), (CS, '_pitch_class_to_midi'),
                ('note_seq/melodies_lib.py', 'Melody.transpose'), ('note_seq/melodies_lib.py', 'Melody.squash'),
                ('note_seq/chords_lib.py', 'ChordProgression.transpose'), ('note_seq/lead_sheets_lib.py', 'LeadSheet.transpose'),
                ('note_seq/lead_sheets_lib.py', 'LeadSheet.squash')]

EXPLANATION += (' Location-independent additions: DRUM/keep-condition and DRUM/total-time (three-valued evaluation with is_drum true), SEQ/melody-case (path-wise values + residue algebra for x % 12, x // 12), SEQ/chords-memo-key (a memo is keyed by the figure read), TAB/mod-12 definite form.')
EXPLANATION += (' Round 6: ' + 'SPELL/alteration-magnitude (the alteration is not only compared in _pitch_class_to_string); SEQ/leadsheet-every-exit (must-pass-through over the normal exits of LeadSheet.transpose; a skipped delegate is located when its guard is taken for an amount of 12).')
EXPLANATION += (' Round 7: ' + 'SEQ/squash-every-exit (must-pass-through); PITFALL/falsy-zero over chord_symbols_lib.')
EXPLANATION += (' Rounds 9-10: ' + 'SEQ/leadsheet-defaults (sibling agreement with Melody); RANGE/filter-whatever-the-amount; SEQ/squash-every-exit answers cannot-classify for an exit under a further unclassified condition.')
EXPLANATION += (' Round 11: ' + 'KEY/scenarios (key-signature loop body on 3 keys x 8 amounts).')
EXPLANATION += (' Round 12: ' + 'PASS/wrap-both-ways shared from C15.')
EXPLANATION += (' Round 14: ' + 'RANGE/extremes-in-one-pass.')
