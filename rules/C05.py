"""C05 - MusicXML scores parse to the notes, key, meter and tempo they declare (DESIGN.md §4 C05)."""
import ast
import re

from sa import fold, nf, roles, astutil as U
from sa.roles import Canon
from sa.loader import norm_text, dotted, loc, AnalysisError
from sa.selftest import Mutant

PROPERTY = 'C05'
P = 'note_seq/musicxml_parser.py'
R = 'note_seq/musicxml_reader.py'
LEVEL_TEXT = (
    'Structural necessary conditions of MusicXML parsing, decided from the source: no ElementTree element is ever compared with a '
    'string (flow typing of find()/findall()/.text/.get()); the MIDI pitch is affine in the alteration (coefficient 1) and the octave '
    '(coefficient 12) with constant 12 + step offset and no modulo on the path from the alteration, the step table equals the letter '
    'oracle and ends in PitchStepParseError, and the transposition is added with coefficient 1; the four copies of the '
    'divisions-to-seconds conversion reduce to one rational normal form duration/divisions * seconds_per_quarter; backup subtracts, '
    'forward and non-chord notes add, chord notes take the previous onset, each part restarts at zero, seconds_per_quarter is 60/qpm '
    'where the tempo changes; the fifths table equals the circle-of-fifths oracle and minor keys report the relative minor tonic; '
    'every chord-kind abbreviation is accepted by the chord-symbol grammar and the figure is assembled root, kind, degrees, /bass; '
    'parse errors are converted to MusicXMLConversionError. Onset/duration values and partial-measure repair are not decided.')
LEVEL_NOTE = 'Trusted: constant folding; xml.etree API typing (find -> Element|None, .text -> str|None); the music-theory oracle.'
TECHNIQUE = 'static analysis: flow typing of ElementTree values, rational/affine normal forms with straight-line substitution, sibling agreement of four conversions, folded-table vs. oracle agreement, exception containment, constant folding of raising guards over the finite key domain'
DESIGN_REF = 'DESIGN.md section 4 (C05)'
EXPLANATION = ('ELEM typed-comparison scan over musicxml_parser; PITCH affine form of pitch_to_midi_pitch and transposition; CONV sibling '
               'agreement of the four duration conversions, cursor directions, chord onset, part reset, tempo update; KEY fifths table and '
               'mode dispatch with the relative-minor rule; KIND abbreviations vs. the chord-symbol regex; FIG assembly order; CONTAIN '
               'exception conversion and the two container branches.')
EXPLANATION += (' ' + 'ELEM/schema-child and ELEM/schema-attr (sa/xmltags.py, sa/musicxml_schema.py): an inter-procedural, context-sensitive element-tag typing of the reader (find/findall/iteration/child.tag == tests/constructors/self.xml_* fields/string parameters) checks each of the ~86 navigation sites against a transcription of the MusicXML 3.1 schema: the child or attribute named must exist under the element it is read from. STATE/per-object as in C04.')
TRUSTED = ['ElementTree API types', 'circle-of-fifths / letter oracle', 'constant folding']
NOT_DECIDED = ['onset/duration values', 'time-signature repair of partial measures', '.text on a possibly missing child (AttributeError) for ill-formed scores - outside the quantifier (well-formed scores)']
ASSUMPTIONS = []
# rules whose verdict does not depend on how the statements are arranged (semantic analyses); all other rules are shape rules:
# when one of those fails in a function that was restructured relative to reference/signatures.json the verdict is "cannot decide"
ROBUST = ('ELEM/schema-child', 'ELEM/schema-attr', 'STATE/per-object', 'KIND')
FLOORS = {'STATE/part-reset': 4, 'ELEM/schema-child': 70, 'ELEM/schema-attr': 8, 'ELEM': 12, 'PITCH': 6, 'CONV': 8, 'KEY': 17, 'KIND': 40, 'FIG': 2, 'CONTAIN': 4}

LETTER_PC = {'C': 0, 'D': 2, 'E': 4, 'F': 5, 'G': 7, 'A': 9, 'B': 11}


def E(t):
  return U.E(t)


def duplicate_identity(ctx, rule):
  """Location-independent: get_key_signatures / get_time_signatures drop a signature only when the *same signature at the same
  time* was already collected (several parts state it together).  Whatever the membership test is made on - the signature object
  (then its class's __eq__ decides) or a key built from its fields - the identity must include the time position; otherwise a
  later return to an earlier key or metre is taken for a duplicate and never reported."""
  for meth, cls in (('get_key_signatures', 'KeySignature'), ('get_time_signatures', 'TimeSignature')):
    fi = ctx.func('musicxml_parser:MusicXMLDocument.' + meth)
    fn = fi.node
    ci = ctx.cls('musicxml_parser:' + cls)
    eq = ci.methods.get('__eq__')
    eq_ok = eq is not None and any(isinstance(c, ast.Compare) and isinstance(c.ops[0], ast.Eq) and
                                   sorted([norm_text(c.left), norm_text(c.comparators[0])]) == sorted(['self.time_position', '%s.time_position' % eq.params()[1]])
                                   for c in ast.walk(eq.node)) if eq is not None else False
    n = 0
    for c in ast.walk(fn):
      if not (isinstance(c, ast.Compare) and len(c.ops) == 1 and isinstance(c.ops[0], (ast.In, ast.NotIn))):
        continue
      n += 1
      left = U.expand_locals(fn, c.left, at=c)
      cons = '%s: a duplicate is the same signature at the same time' % meth
      if isinstance(left, ast.Tuple):
        fields = [e.attr for e in left.elts if isinstance(e, ast.Attribute)]
        if 'time_position' in fields:
          ctx.ob(rule, fi, c, True, 'the membership key %s includes the time position' % norm_text(left), construct=cons)
        elif len(fields) == len(left.elts):
          ctx.ob(rule, fi, c, False, 'the membership key %s leaves out time_position: a signature equal to one declared anywhere earlier in the score counts as a duplicate, so a piece '
                 'that returns to an earlier %s loses the later change' % (norm_text(left), 'key' if cls == 'KeySignature' else 'metre'), construct=cons, definite=True)
        else:
          why = 'cannot classify: membership key %s' % norm_text(left)
          ctx.ob(rule, fi, c, False, why, construct=cons, unknown=why)
      elif isinstance(left, (ast.Attribute, ast.Name)):
        if eq is None:
          why = 'cannot classify: %s has no __eq__; membership of %s is by object identity' % (cls, norm_text(left))
          ctx.ob(rule, fi, c, False, why, construct=cons, unknown=why)
        else:
          ctx.ob(rule, eq, eq.node, eq_ok, 'membership of %s is decided by %s.__eq__, which compares time_position' % (norm_text(left), cls) if eq_ok else
                 '%s.__eq__ does not compare time_position, and %s uses it to drop duplicates: a later return to an earlier signature is dropped' % (cls, meth),
                 construct=cons, definite=not eq_ok)
      else:
        why = 'cannot classify: membership test on %s' % norm_text(left)
        ctx.ob(rule, fi, c, False, why, construct=cons, unknown=why)
    if n == 0:
      why = 'cannot classify: %s has no membership test; how duplicates are recognised is not known' % meth
      ctx.ob(rule, fi, fn, False, why, construct='%s: a duplicate is the same signature at the same time' % meth, unknown=why)


def chord_accidentals(ctx, rule):
  """Location-independent, path-wise with numeric scenarios: the accidental of a chord-symbol root / bass / degree is written
  with the spellings chord_symbols_lib reads: -2 'bb', -1 'b', 0 '', 1 '#', 2 '##' (a double sharp is '##', not the note-head
  glyph 'x').  ChordSymbol._alter_to_string is read path by path, through a literal table if it uses one; for each of the five
  alterations the value on the path whose conditions hold is evaluated (sa.strscen / sa.scenario)."""
  from sa import pathval, strscen, scenario
  fi = ctx.func('musicxml_parser:ChordSymbol._alter_to_string')
  cons = 'chord-symbol accidentals are spelled bb, b, (none), #, ##'
  want = {-2: 'bb', -1: 'b', 0: '', 1: '#', 2: '##'}
  try:
    ps = [(c, e) for c, e, end in pathval.paths(fi.node.body, opaque=True) if end == 'return' and pathval.RETURN in e]
  except pathval.PathError as e:
    why = 'cannot classify: %s' % e
    ctx.ob(rule, fi, fi.node, False, why, construct=cons, unknown=why)
    return
  consts = strscen.Consts(fi)
  # the integer the alteration text is converted to: int(<param>) wherever it occurs
  prm = fi.params()[-1]
  atoms = {'int(%s)' % prm}
  for st in U.walk_stmts(fi.node):       # alter_semitones = int(alter_text) inside a try: the name stands for the integer
    if isinstance(st, ast.Assign) and len(st.targets) == 1 and isinstance(st.targets[0], ast.Name) and norm_text(st.value) == 'int(%s)' % prm:
      atoms.add(st.targets[0].id)
  for k, w in sorted(want.items()):
    got = []
    unknown = False
    nsub = dict((a_, nf.rat(U.E(repr(k)))) for a_ in atoms)
    ssub = dict((a_, k) for a_ in atoms)
    for conds, env in ps:
      rel = [(c, p_) for c, p_ in conds if any(norm_text(x) in atoms for x in ast.walk(c))]
      r = scenario.tv_all(rel, nsub) if rel else True
      if r is None:
        r = strscen.tv_all(rel, ssub, consts)
      if r is None:
        unknown = True
      elif r:
        v = strscen.val(env[pathval.RETURN], ssub, consts)
        got.append(v)
    if unknown or len(got) != 1 or got[0] is strscen.UNKNOWN:
      why = 'cannot classify: the spelling returned for an alteration of %d is not determined (%d candidate paths)' % (k, len(got))
      ctx.ob(rule, fi, fi.node, False, why, construct=cons + ' [%d]' % k, unknown=why)
    else:
      ctx.ob(rule, fi, fi.node, got[0] == w, 'an alteration of %d is spelled %r' % (k, w) if got[0] == w else
             'an alteration of %d is spelled %r, chord symbols spell it %r (the reader in chord_symbols_lib knows only # and b: %r in a root, bass or degree makes the figure unreadable)' % (
                 k, got[0], w, got[0]), construct=cons + ' [%d]' % k, definite=True)


def tempo_independent_of_dynamics(ctx, rule):
  """Location-independent: a <sound> element may carry tempo= and dynamics= together; the tempo mark is recorded whenever tempo= is
  present.  No condition on the path to the statements that record the tempo may read the dynamics attribute."""
  fi = ctx.func('musicxml_parser:Measure._parse_direction')
  fn = fi.node
  cons = 'a tempo mark is recorded whether or not the <sound> also sets dynamics'
  sites = [st for st in U.walk_stmts(fn) for t, _v, _o in U.store_targets(st) if isinstance(t, ast.Attribute) and t.attr == 'qpm'] + \
          [st for st in U.walk_stmts(fn) if isinstance(st, ast.Assign) and isinstance(st.value, ast.Call) and dotted(st.value.func) == 'Tempo']
  if not sites:
    why = 'cannot classify: _parse_direction records no tempo'
    ctx.ob(rule, fi, fn, False, why, construct=cons, unknown=why)
    return
  for st in sites[:1]:
    conds = [(U.expand_locals(fn, t, at=st), p) for t, p in U.path_conditions(fn, st)]
    dyn = [(t, p) for t, p in conds if any(isinstance(x, ast.Constant) and x.value == 'dynamics' for x in ast.walk(t))]
    ctx.ob(rule, fi, st, not dyn, 'the tempo is recorded under conditions on the tempo attribute only' if not dyn else
           'the tempo of a <sound> element is recorded only when %s: <sound tempo="T" dynamics="D"/> leaves the tempo mark out, and every later note is timed at the old tempo' %
           ' and '.join(('' if p else 'not ') + norm_text(t) for t, p in dyn), construct=cons, definite=True)


def degree_subtract(ctx, rule):
  """Location-independent, path-wise with a string scenario: for <degree-type>subtract</degree-type> the modification string is
  'no' + the degree, whatever <degree-alter> says ("alter should be irrelevant when removing a scale degree").  Every path of
  ChordSymbol._parse_degree that is feasible when the type text is 'subtract' is read (sa.pathval, statements it does not model are
  forgotten), and the pieces of the returned concatenation are evaluated (sa.strscen): all but the str(<degree>) piece must be
  constants that join to 'no'."""
  from sa import pathval, strscen
  fi = ctx.func('musicxml_parser:ChordSymbol._parse_degree')
  cons = 'degree-type subtract gives (no<degree>) regardless of the alteration'
  try:
    ps = pathval.paths(fi.node.body, opaque=True)
  except pathval.PathError as e:
    why = 'cannot classify: %s' % e
    ctx.ob(rule, fi, fi.node, False, why, construct=cons, unknown=why)
    return
  KINDS = ('add', 'subtract', 'alter')
  atoms = set()
  for conds, _env, _end in ps:
    for t, _p in conds:
      for c in ast.walk(t):
        if isinstance(c, ast.Compare) and len(c.ops) == 1:
          for a, b in ((c.left, c.comparators[0]), (c.comparators[0], c.left)):
            if isinstance(b, ast.Constant) and b.value in KINDS and not isinstance(a, ast.Constant):
              atoms.add(norm_text(a))
  if len(atoms) != 1:
    why = 'cannot classify: the expression holding the degree type was not identified (%s)' % sorted(atoms)
    ctx.ob(rule, fi, fi.node, False, why, construct=cons, unknown=why)
    return
  atom = atoms.pop()
  consts = strscen.Consts(fi)
  env = {atom: 'subtract'}
  n = 0
  for conds, penv, end in ps:
    if end != 'return' or pathval.RETURN not in penv:
      continue
    if strscen.tv_all(conds, env, consts) is False:
      continue
    n += 1
    parts = strscen.concat_parts(penv[pathval.RETURN])
    fixed, loose = [], []
    for part in parts:
      if isinstance(part, ast.Call) and norm_text(part.func) == 'str':
        continue
      v = strscen.val(part, env, consts)
      (fixed if isinstance(v, str) else loose).append(v if isinstance(v, str) else part)
    path = ' and '.join(('' if p else 'not ') + norm_text(t) for t, p in conds if strscen.tv(t, env, consts) is None) or 'always'
    if loose:
      ctx.ob(rule, fi, fi.node, False, 'for degree type subtract (when %s) the result contains %s, which is not fixed by the type: the removed degree is written with its alteration '
             '(and %s), e.g. (b5) instead of (no5) - an added/altered degree, not a removed one' % (
                 path, ', '.join(norm_text(x) for x in loose), ('prefix %r' % ''.join(fixed)) if fixed else 'no prefix'), construct=cons, definite=True)
    elif ''.join(fixed) != 'no':
      ctx.ob(rule, fi, fi.node, False, 'for degree type subtract (when %s) the prefix is %r, not \'no\'' % (path, ''.join(fixed)), construct=cons, definite=True)
    else:
      ctx.ob(rule, fi, fi.node, True, 'subtract (when %s) returns \'no\' + the degree' % path, construct=cons + ' [%s]' % path)
  if n == 0:
    why = 'cannot classify: no return path is feasible for degree type subtract'
    ctx.ob(rule, fi, fi.node, False, why, construct=cons, unknown=why)


def made_up_tempo_only_without_marks(ctx, rule='TEMPO/default-only-without-marks'):
  """"the tempo marks ... are reported at the times they occur": get_tempos adds a tempo of its own only when the score declares
  none.  The value it uses is the parser's running qpm, which after parsing is the *last* tempo read - the default 120 exactly when
  no mark was read.  Made up under any wider condition (a first mark later than time 0, say) it reports an undeclared mark with
  the final tempo's value."""
  fi = ctx.func('musicxml_parser:MusicXMLDocument.get_tempos')
  fn = fi.node
  cons = 'get_tempos makes up a tempo only when the score declares none'
  sts = [s_ for s_ in U.walk_stmts(fn) if isinstance(s_, ast.Assign) and len(s_.targets) == 1 and isinstance(s_.targets[0], ast.Attribute) and s_.targets[0].attr == 'qpm' and
         any(isinstance(n_, ast.Attribute) and n_.attr == 'qpm' and 'state' in norm_text(n_.value) for n_ in ast.walk(s_.value))]
  if not sts:
    ctx.ob(rule, fi, fn, True, 'get_tempos does not build a tempo from the running state', construct=cons)
    return
  ret = [r_.value.id for r_ in ast.walk(fn) if isinstance(r_, ast.Return) and isinstance(r_.value, ast.Name)]
  for st in sts:
    kind, others = U.guard_kind(fn, st, lambda t, pol: (not pol) and isinstance(t, ast.Name) and t.id in ret)
    if kind == 'exact':
      ctx.ob(rule, fi, st, True, 'the tempo built from the running qpm is added only when no mark was collected', construct=cons)
    elif kind == 'wider':
      ctx.ob(rule, fi, st, False, 'a tempo whose qpm is the parser\'s running value is also made up when %s: after parsing, that value is the last tempo of the score, so an undeclared mark with '
             'the final tempo appears (at time 0) in a score whose first mark comes later' % ' or '.join(norm_text(o) for o in others), construct=cons, definite=True)
    else:
      why = 'cannot classify: the condition under which get_tempos builds a tempo from the running qpm is not an emptiness test of the collected marks'
      ctx.ob(rule, fi, st, False, why, construct=cons, unknown=why)


def repair_only_without_notes(ctx, rule='REPAIR/only-a-measure-without-notes'):
  """Part._repair_empty_measure replaces the single <forward> of a measure by a rest *when the measure has no note at all*.  The
  evidence "no note" has to come from a look at every child: a count / find over the whole measure, or a scan that runs to its end.
  A scan that leaves the loop at the first <forward> has not seen the notes behind it."""
  fi = ctx.func('musicxml_parser:Part._repair_empty_measure')
  fn = fi.node
  cons = '_repair_empty_measure rewrites only measures that hold no <note>'
  rem = [c for c in U.calls_in(fn) if isinstance(c.func, ast.Attribute) and c.func.attr == 'remove']
  if not rem:
    why = 'cannot classify: no <element>.remove(...) in _repair_empty_measure'
    ctx.ob(rule, fi, fn, False, why, construct=cons, unknown=why)
    return

  def whole_measure_evidence(t, pol):
    tx = norm_text(U.expand_locals(fn, t, at=rem[0]))
    if "'note'" not in tx:
      return False
    if isinstance(t, ast.Compare) and len(t.ops) == 1:
      if pol and isinstance(t.ops[0], ast.Eq) and 'findall' in tx and 0 in (U.const_value(t.left), U.const_value(t.comparators[0])):
        return True
      if pol and isinstance(t.ops[0], ast.Is) and '.find(' in tx and isinstance(t.comparators[0], ast.Constant) and t.comparators[0].value is None:
        return True
    return (not pol) and ('findall' in tx or '.find(' in tx or 'any(' in tx) and not isinstance(t, ast.Compare)
  for c in rem:
    conds = U.path_conditions(fn, c)
    if any(whole_measure_evidence(t, p) for t, p in conds):
      ctx.ob(rule, fi, c, True, 'the removal is reached only when a look at the whole measure found no <note>', construct=cons)
      continue
    scans = [lp for lp in ast.walk(fn) if isinstance(lp, ast.For) and getattr(lp, 'lineno', 0) < getattr(c, 'lineno', 0) and
             any(isinstance(x, ast.Compare) and any(isinstance(k, ast.Constant) and k.value == 'note' for k in ast.walk(x)) for x in ast.walk(lp))]
    early = [(lp, b) for lp in scans for b in ast.walk(lp) if isinstance(b, ast.Break) and U.enclosing_loops(fn, b) and U.enclosing_loops(fn, b)[-1] is lp]
    if early:
      lp, b = early[0]
      ctx.ob(rule, fi, b, False, 'the scan for <note> children (line %d) is left by the break at line %d%s: the children behind that point are never looked at, so a measure whose notes follow its '
             '<forward> is taken for empty - the <forward> is removed and a rest is appended, which moves every onset of the measure' % (
                 lp.lineno, b.lineno, ''.join(' taken when ' + norm_text(t) for t, p in U.path_conditions(lp, b)[:1] if p)), construct=cons, definite=True)
    elif scans:
      ctx.ob(rule, fi, c, True, 'a scan over the children that has no early exit other than finding a note precedes the removal', construct=cons)
    else:
      why = 'cannot classify: how _repair_empty_measure establishes that the measure holds no <note> before it removes the <forward>'
      ctx.ob(rule, fi, c, False, why, construct=cons, unknown=why)


# (measure duration in divisions, divisions per quarter, numerator in force, denominator in force) -> is a time signature inserted?
# complete bars in the meter in force that declare nothing keep the meter (nothing is reported); a shorter first bar is a pickup
METER_SCENARIOS = [((4, 1, 4, 4), False), ((3, 1, 3, 4), False), ((6, 2, 6, 8), False), ((2, 1, 2, 4), False), ((8, 2, 4, 4), False), ((1, 1, 4, 4), True), ((2, 1, 3, 4), True)]


def complete_bar_keeps_the_meter(ctx, rule='METER/complete-bar-keeps-the-meter'):
  """"the declared time signature ... reported at the times they occur": Measure._fix_time_signature inserts a time signature of its
  own only for a pickup / incomplete bar.  Its body is evaluated path by path on METER_SCENARIOS (a global time signature in force,
  none declared in the measure): the scenario decides whether state.time_signature is written."""
  from sa import pathval, scenario
  fi = ctx.func('musicxml_parser:Measure._fix_time_signature')
  try:
    ps = pathval.paths(fi.node.body, opaque=True, strict_exits=True)
  except pathval.PathError as e:
    why = 'cannot classify: _fix_time_signature is not a block of assignments and tests (%s)' % e
    ctx.ob(rule, fi, fi.node, False, why, construct='complete bars keep the meter in force', unknown=why)
    return
  for (dur, div, num, den), want in METER_SCENARIOS:
    env = {'self.duration': ast.Constant(value=dur), 'self.state.divisions': ast.Constant(value=div), 'self.state.time_signature.numerator': ast.Constant(value=num),
           'self.state.time_signature.denominator': ast.Constant(value=den), 'self.state.time_signature': ast.Constant(value=1), 'self.time_signature': ast.Constant(value=None)}
    cons = 'a measure of %d divisions (%d per quarter) under %d/%d: time signature inserted = %s' % (dur, div, num, den, want)
    got, stuck = None, None
    for conds, penv, _end in ps:
      taken = True
      for t, pol in conds:
        v = scenario.fold_numeric(pathval.subst(t, env), {})
        if v is None:
          stuck, taken = norm_text(t), None
          break
        if bool(v) != pol:
          taken = False
          break
      if taken is None:
        break
      if taken:
        got = 'self.state.time_signature' in penv
        break
    if got is None:
      why = 'cannot classify: %s cannot be evaluated in this scenario' % (stuck or 'no path of _fix_time_signature')
      ctx.ob(rule, fi, fi.node, False, why, construct=cons, unknown=why)
    else:
      ok = got == want
      ctx.ob(rule, fi, fi.node, ok, 'inserted: %s' % got if ok else
             ('a complete measure (%d divisions at %d per quarter) in the %d/%d in force, declaring nothing, gets a time signature of its own inserted: the score reports a meter change it does '
              'not declare (and repeats it at every such bar)' % (dur, div, num, den) if got else
              'a pickup measure of %d divisions under %d/%d gets no time signature of its own' % (dur, num, den)), construct=cons, definite=True)


def run(ctx):
  # location-independent analyses first: an anchored rule that gives up later must not mask them
  complete_bar_keeps_the_meter(ctx)
  keys_in_range_accepted(ctx)
  key_wraps_both_ways(ctx)
  repair_only_without_notes(ctx)
  from sa import pitfalls as _pf
  _pf.apply(ctx, 'PITFALL', [fi_ for q_, fi_ in sorted(ctx.P.module('musicxml_parser').all_functions.items()) if '<locals>' not in q_], ['case-folded-key'], {
      'case-folded-key': 'a <harmony> of a kind from the supported table makes the whole file unreadable'})
  made_up_tempo_only_without_marks(ctx)
  degree_subtract(ctx, 'DEGREE/subtract-is-no')
  chord_accidentals(ctx, 'HARMONY/accidental-spelling')
  tempo_independent_of_dynamics(ctx, 'TEMPO/independent-of-dynamics')
  duplicate_identity(ctx, 'DUP/identity-includes-time')
  schema_navigation(ctx)
  part_state(ctx)
  zip_names(ctx)
  elements(ctx)
  pitch(ctx)
  conversions(ctx)
  keys(ctx)
  kinds(ctx)
  contain(ctx)
  from sa import state
  mi = ctx.P.module('musicxml_parser')
  for ci in sorted(mi.all_classes.values(), key=lambda c: c.qualname):
    state.check_instance_state(ctx, ci, 'STATE/per-object', mro=ctx.P.mro(ci)[1:] if hasattr(ctx.P, 'mro') else None)


def keys_in_range_accepted(ctx, rule='KEY/every-key-in-range-accepted'):
  """Location-independent: "keys -7..7" are all supported.  Every `if` in KeySignature._parse whose arm raises and whose test reads
  nothing but the fifths count (`self.key`) and constants is folded for each of the fifteen keys; a key for which it folds to true
  is refused although it is in the documented range (`abs(key) >= 7` for `> 7`).  Tests that read anything else are not sites."""
  from sa import scenario
  from fractions import Fraction
  class _K(object):
    def __init__(self, v):
      self.v = Fraction(v)
    def const_value(self):
      return self.v
  fi = ctx.func('musicxml_parser:KeySignature._parse')
  fn = fi.node
  cons = 'no key of -7..7 fifths is refused'
  n = 0
  for st in U.walk_stmts(fn):
    if not (isinstance(st, ast.If) and any(isinstance(x, ast.Raise) for b in st.body for x in ast.walk(b))):
      continue
    atoms = [a for a in ast.walk(st.test) if isinstance(a, (ast.Attribute, ast.Name)) and not (isinstance(a, ast.Name) and a.id in ('abs', 'int', 'min', 'max', 'range', 'self'))]
    if not atoms or any(norm_text(a) != 'self.key' for a in atoms if isinstance(a, ast.Attribute)) or any(isinstance(a, ast.Name) for a in atoms):
      continue
    refused = []
    try:
      for k in range(-7, 8):
        if scenario.fold_numeric(st.test, {'self.key': _K(k)}):
          refused.append(k)
    except Exception:
      continue
    n += 1
    ctx.ob(rule, fi, st, not refused, '`%s` is false for every key of -7..7' % norm_text(st.test)[:60] if not refused else
           '`%s` is true for %s fifths: a key signature inside the documented range -7..7 raises instead of being read (the bound is off by one)' % (
               norm_text(st.test)[:60], ', '.join('%+d' % k for k in refused)), construct=cons, definite=True)
  if n == 0:
    ctx.ob(rule, fi, fn, True, 'KeySignature._parse has no raise guarded by the fifths count alone', construct=cons)


def key_wraps_both_ways(ctx, rule='KEY/wrap-both-ways'):
  """Location-independent: the key of a transposing part is the written key moved round the circle of fifths, which has 12 positions.
  A fold written as statements (`if / while k > 6: k -= 12`) handles one side only; that is enough exactly when the value folded is
  already reduced (`... % 12` somewhere in what it was computed from, read through the locals).  A one-sided fold of an unreduced
  `key - 5 * chromatic` leaves the other side unfolded: a key below -7 indexes the fifteen-entry tables from the wrong end or not at all."""
  fi = ctx.func('musicxml_parser:Measure._parse_attributes')
  fn = fi.node
  folds = {}
  for st in ast.walk(fn):
    if not (isinstance(st, (ast.If, ast.While)) and isinstance(st.test, ast.Compare) and len(st.test.ops) == 1 and len(st.body) == 1 and not st.orelse and
            isinstance(st.body[0], ast.AugAssign) and isinstance(st.body[0].target, ast.Name) and U.const_value(st.body[0].value) == 12):
      continue
    # the loader writes comparisons with the smaller side on the left (`6 < k` for `k > 6`): read both spellings
    lft, op, rgt = st.test.left, st.test.ops[0], st.test.comparators[0]
    name = st.body[0].target.id
    if isinstance(lft, ast.Name) and lft.id == name and U.const_value(rgt) is not None:
      gt, lt = isinstance(op, (ast.Gt, ast.GtE)), isinstance(op, (ast.Lt, ast.LtE))
    elif isinstance(rgt, ast.Name) and rgt.id == name and U.const_value(lft) is not None:
      gt, lt = isinstance(op, (ast.Lt, ast.LtE)), isinstance(op, (ast.Gt, ast.GtE))
    else:
      continue
    up = gt and isinstance(st.body[0].op, ast.Sub)
    down = lt and isinstance(st.body[0].op, ast.Add)
    if up or down:
      folds.setdefault(name, []).append(('above' if up else 'below', st))
  cons = 'a key moved by a transposition is folded into the circle of fifths on both sides'
  if not folds:
    ctx.ob(rule, fi, fn, True, 'no statement-form fold by 12 in Measure._parse_attributes', construct=cons)
    return
  for name, fs in sorted(folds.items()):
    sides = set(s for s, _st in fs)
    st = fs[0][1]
    defs = [d.value for d in U.walk_stmts(fn) if isinstance(d, ast.Assign) and len(d.targets) == 1 and isinstance(d.targets[0], ast.Name) and d.targets[0].id == name and d.lineno < st.lineno]
    reduced = any(isinstance(m, ast.BinOp) and isinstance(m.op, ast.Mod) for d in defs for m in ast.walk(U.expand_locals(fn, d, at=st))) or not defs
    ok = len(sides) == 2 or reduced
    ctx.ob(rule, fi, st, ok, '%s is folded on both sides' % name if len(sides) == 2 else ('%s is reduced (%% 12) before the one-sided fold' % name if ok else '') if ok else
           '`%s` folds %s only %s, and %s (= %s) is not reduced modulo 12 first: a transposition the other way leaves the key outside -7..7 - the tonic is then read from the wrong end of the '
           'fifths table (a silent wrong key) or not found at all (IndexError)' % (norm_text(st)[:50], name, 'downwards (values above the range)' if 'above' in sides else 'upwards (values below the range)', name,
                                                                                norm_text(U.expand_locals(fn, defs[-1], at=st))[:60]), construct=cons, definite=True)


def zip_names(ctx):
  """Location-independent (".xml and compressed .mxl alike"): zipfile decodes a member name as UTF-8 when the archive sets general
  purpose bit 11 (0x800) and as cp437 otherwise.  Re-decoding a name (`.encode('437').decode('utf-8')`) is right exactly for the
  members *without* that flag; applied to a name the archive stored as UTF-8 it mangles it and the score is "not found".  Every
  re-decoding must therefore lie on a path that tests the member's flag_bits against 0x800."""
  gs = ctx.func('musicxml_parser:MusicXMLDocument._get_score')
  fn = gs.node
  for c in U.calls_in(fn):
    if not (isinstance(c.func, ast.Attribute) and c.func.attr == 'encode' and c.args and isinstance(c.args[0], ast.Constant) and str(c.args[0].value).lower() in ('437', 'cp437')):
      continue
    st = c
    pm = U.parents(fn)
    while st is not None and not isinstance(st, ast.stmt):
      st = pm.get(id(st))
    pcs = U.path_conditions(fn, st)
    conds = [U.expand_locals(fn, t, at=st) for t, _p in pcs]
    flagged = [t for t in conds if 'flag_bits' in norm_text(t)]
    okf = False
    for t in flagged:
      consts = set(U.const_value(x) for x in ast.walk(U.expand_locals(fn, t, at=st)) if U.const_value(x) is not None)
      okf = okf or 0x800 in consts
    ctx.ob('CONTAIN/zip-name-flag', gs, c, okf, 'member names are re-decoded only when the UTF-8 flag (0x800) is not set' if okf else
           '%s re-decodes a member name without testing the entry\'s flag_bits against 0x800 (%s): a name the archive already stored as UTF-8 is mangled, so a score file with a '
           'non-ASCII name in a UTF-8-flagged .mxl is not found' % (norm_text(c), ' and '.join(('' if p else 'not ') + norm_text(t) for t, p in pcs if not isinstance(t, ast.Constant)) or 'unconditionally'),
           construct='cp437 names are re-decoded only without the UTF-8 flag', definite=True)


# ------------------------------------------------------------------ S1
def elements(ctx):
  """A value that flows from find()/findall() is an Element (or None / a list); comparing it with a str constant is always False."""
  mi = ctx.P.module('musicxml_parser')
  n = 0
  for fi in mi.all_functions.values():
    elem_names = {}
    for st in U.walk_stmts(fi.node, into_nested=False):
      if isinstance(st, ast.Assign) and len(st.targets) == 1:
        kind = _elem_kind(st.value, elem_names)
        t = st.targets[0]
        key = norm_text(t) if isinstance(t, (ast.Name, ast.Attribute)) else None
        if key:
          if kind:
            elem_names[key] = kind
          else:
            elem_names.pop(key, None)
      if isinstance(st, (ast.For,)) and isinstance(st.target, ast.Name):
        k = _elem_kind(st.iter, elem_names)
        if k in ('list', 'elem'):
          elem_names[st.target.id] = 'elem'
      for node in _exprs(st):
        for c in ast.walk(node):
          if isinstance(c, ast.Compare):
            operands = [c.left] + c.comparators
            kinds_ = [_elem_kind(o, elem_names) for o in operands]
            strs = [isinstance(o, ast.Constant) and isinstance(o.value, str) for o in operands]
            if any(k in ('elem', 'list') for k in kinds_):
              n += 1
              if any(strs) and all(isinstance(op, (ast.Eq, ast.NotEq, ast.In, ast.NotIn)) for op in c.ops):
                ctx.ob('ELEM/compared-with-text', fi, c, False,
                       'an ElementTree %s is compared with the string %s: the comparison can never be true (use .text)' % (
                           'element' if 'elem' in kinds_ else 'element list', next(norm_text(o) for o, s in zip(operands, strs) if s)))
              else:
                ctx.ob('ELEM/compared-with-text', fi, c, True, 'element compared with None / another element')
  ctx.require(n >= 12, 'musicxml_parser: only %d element comparisons found' % n)


def _exprs(st):
  for field, value in ast.iter_fields(st):
    if field in ('body', 'orelse', 'finalbody', 'handlers'):
      continue
    if isinstance(value, ast.AST):
      yield value
    elif isinstance(value, list):
      for v in value:
        if isinstance(v, ast.AST) and not isinstance(v, ast.stmt):
          yield v


def _elem_kind(node, names):
  if isinstance(node, ast.Call) and isinstance(node.func, ast.Attribute):
    if node.func.attr == 'find':
      return 'elem'
    if node.func.attr in ('findall', 'iter', 'getchildren'):
      return 'list'
    if node.func.attr in ('getroot',):
      return 'elem'
  if isinstance(node, ast.Call) and dotted(node.func) in ('ET.fromstring', 'ET.XML'):
    return 'elem'
  if isinstance(node, (ast.Name, ast.Attribute)):
    return names.get(norm_text(node))
  return None


# ------------------------------------------------------------------ S2
def pitch(ctx):
  fi = ctx.func('musicxml_parser:Note.pitch_to_midi_pitch')
  fn = fi.node
  params = fi.params()
  ctx.require(params == ['step', 'alter', 'octave'], 'pitch_to_midi_pitch signature changed: %s' % params)
  # step table
  table = {}
  else_raises = False
  chain = next((s for s in fn.body if isinstance(s, ast.If)), None)
  cur = chain
  var = None
  while cur is not None:
    c = cur.test
    if isinstance(c, ast.Compare) and norm_text(c.left) == 'step' and isinstance(c.ops[0], ast.Eq) and isinstance(c.comparators[0], ast.Constant):
      a = cur.body[0] if cur.body and isinstance(cur.body[0], ast.Assign) else None
      if a is not None and U.const_value(a.value) is not None and isinstance(a.targets[0], ast.Name):
        table[c.comparators[0].value] = U.const_value(a.value)
        var = a.targets[0].id
    if cur.orelse and len(cur.orelse) == 1 and isinstance(cur.orelse[0], ast.If):
      cur = cur.orelse[0]
    else:
      else_raises = any(isinstance(x, ast.Raise) and isinstance(x.exc, ast.Call) and dotted(x.exc.func) == 'PitchStepParseError' for x in cur.orelse)
      cur = None
  if not table:
    # dictionary form: {'C': 0, ...}[step] / .get
    for n in ast.walk(fn):
      if isinstance(n, ast.Dict) and all(isinstance(k, ast.Constant) for k in n.keys):
        try:
          table = {k.value: U.const_value(v) for k, v in zip(n.keys, n.values)}
        except Exception:
          table = {}
    else_raises = any(isinstance(x, ast.Raise) and isinstance(x.exc, ast.Call) and dotted(x.exc.func) == 'PitchStepParseError' for x in ast.walk(fn))
    dict_names = [st.targets[0].id for st in fn.body if isinstance(st, ast.Assign) and isinstance(st.targets[0], ast.Name) and isinstance(st.value, ast.Dict)]
    for st in fn.body:
      if isinstance(st, ast.Assign) and isinstance(st.targets[0], ast.Name) and isinstance(st.value, ast.Subscript) and norm_text(st.value.value) in dict_names:
        var = st.targets[0].id
  for l, pc in LETTER_PC.items():
    ok = table.get(l) == pc
    ctx.ob('PITCH/step-table', fi, chain or fn, ok, 'step %s is %d semitones above C' % (l, pc) if ok else 'step %s maps to %r, expected %d' % (l, table.get(l), pc), construct='step %s' % l)
  ctx.ob('PITCH/step-table', fi, chain or fn, else_raises, 'an unknown step raises PitchStepParseError' if else_raises else 'an unknown step does not raise PitchStepParseError', construct='unknown step -> PitchStepParseError')
  ctx.require(var is not None, 'pitch_to_midi_pitch: the step offset variable was not identified')
  # affine form of the result in int(alter), int(octave) and the step offset
  rets = [s for s in fn.body if isinstance(s, ast.Return)]
  ctx.require(len(rets) == 1, 'pitch_to_midi_pitch: expected one return')
  env = {}
  after_chain = False
  for st in fn.body:
    if st is chain:
      after_chain = True
      continue
    if isinstance(st, ast.Assign) and isinstance(st.targets[0], ast.Name) and (after_chain or chain is None):
      if st.targets[0].id == var and (not after_chain or isinstance(st.value, (ast.Constant, ast.Subscript))):
        continue
      try:
        env[st.targets[0].id] = nf.Builder(dict(env)).rat(st.value)
      except nf.NFError:
        pass
  try:
    r = nf.Builder(dict(env)).rat(rets[0].value)
    poly = r.poly()
  except nf.NFError:
    poly = None
  ok = False
  why = 'the returned pitch is not a polynomial the checker can read'
  if poly is not None:
    atoms = poly.atoms()
    mods = [a for a in atoms if '%' in a or '//' in a]
    ca, co, cs = poly.coeff('int(alter)'), poly.coeff('int(octave)'), poly.coeff(var)
    const = poly.t.get((), 0)
    ok = not mods and ca == 1 and co == 12 and cs == 1 and const == 12 and atoms <= {'int(alter)', 'int(octave)', var}
    why = 'result = %r' % (r,)
    if mods:
      why = 'the alteration passes through a modulo (%s) before the octave is added: Cb and B# land an octave off' % mods[0]
  ctx.ob('PITCH/affine', fi, rets[0], ok, 'midi pitch = 12 + step + alter + 12*octave' if ok else
         'MusicXML pitch must be 12*(octave+1) + step + alter; %s' % why, construct='midi_pitch = 12 + step offset + int(alter) + 12 * int(octave)')
  pp = ctx.func('musicxml_parser:Note._parse_pitch')
  tr = [s for s in U.walk_stmts(pp.node) if isinstance(s, ast.AugAssign) and isinstance(s.op, ast.Add) and norm_text(s.value) == 'self.state.transpose']
  ok = len(tr) == 1
  ctx.ob('PITCH/transpose', pp, tr[0] if tr else pp.node, ok, 'the part transposition is added once' if ok else 'the chromatic transposition is not added to the MIDI pitch exactly once')
  pa = ctx.func('musicxml_parser:Measure._parse_attributes')
  pa = Canon(pa, roles.discover(pa, {'child': lambda fn: [n.target.id for n in fn.body if isinstance(n, ast.For) and isinstance(n.target, ast.Name)]}))
  st = [s for s in U.walk_stmts(pa.node) if isinstance(s, ast.Assign) and norm_text(s.targets[0]) == 'self.state.transpose']
  ok = len(st) == 1 and isinstance(st[0].value, ast.Name)
  if ok:
    v = [s for s in U.walk_stmts(pa.node) if isinstance(s, ast.Assign) and norm_text(s.targets[0]) == st[0].value.id]
    ok = len(v) == 1 and norm_text(v[0].value) == "int(child.find('chromatic').text)"
  ctx.ob('PITCH/transpose-source', pa, st[0] if st else pa.node, ok, 'the transposition is the <chromatic> value' if ok else 'state.transpose is not read from <transpose><chromatic>')


# ------------------------------------------------------------------ S3
def _straight(stmts, env=None):
  """Straight-line substitution: dotted target -> Rat."""
  env = dict(env or {})
  for st in stmts:
    if isinstance(st, ast.Assign) and len(st.targets) == 1:
      k = dotted(st.targets[0])
      if k:
        try:
          env[k] = nf.Builder(dict(env), strip=('float', 'int')).rat(st.value)
        except nf.NFError:
          env.pop(k, None)
    elif isinstance(st, ast.AugAssign):
      k = dotted(st.target)
      if k:
        try:
          b = nf.Builder(dict(env), strip=('float', 'int'))
          cur = b.rat(st.target)
          v = b.rat(st.value)
          env[k] = {ast.Add: cur + v, ast.Sub: cur - v, ast.Mult: cur * v, ast.Div: cur / v}.get(type(st.op), None) or env.get(k)
        except (nf.NFError, TypeError):
          pass
  return env


def no_rounding(ctx):
  """Onsets and durations are "given by the <duration>/<divisions> arithmetic": exact rational arithmetic on the integer read
  from the XML.  Location-independent: in the functions that turn a <duration> / <offset> into seconds (and the helpers of
  their class they call) the only rounding construct is the int() that parses the XML text / the duration argument."""
  mi = ctx.P.module('musicxml_parser')
  fns = [ctx.func('musicxml_parser:NoteDuration.parse_duration'), ctx.func('musicxml_parser:Measure._parse_backup'), ctx.func('musicxml_parser:Measure._parse_forward')]
  seen = set(f.qualname for f in fns)
  for f in list(fns):
    cls = mi.all_classes.get(f.qualname.rsplit('.', 1)[0])
    for c in ast.walk(f.node):
      if isinstance(c, ast.Call) and isinstance(c.func, ast.Attribute) and isinstance(c.func.value, ast.Name) and c.func.value.id == 'self' and cls is not None and \
          c.func.attr in cls.methods and cls.methods[c.func.attr].qualname not in seen:
        fns.append(cls.methods[c.func.attr])
        seen.add(cls.methods[c.func.attr].qualname)
  n = 0
  for f in fns:
    params = set(f.params())
    for c in ast.walk(f.node):
      bad = None
      if isinstance(c, ast.Call) and (dotted(c.func) or '') in ('int', 'round', 'math.floor', 'math.ceil', 'math.trunc', 'np.round', 'numpy.round'):
        a = c.args[0] if c.args else None
        parses = dotted(c.func) == 'int' and a is not None and ((isinstance(a, ast.Name) and a.id in params) or (isinstance(a, ast.Attribute) and a.attr == 'text'))
        if not parses:
          bad = c
      elif isinstance(c, ast.BinOp) and isinstance(c.op, ast.FloorDiv):
        bad = c
      elif isinstance(c, ast.AugAssign) and isinstance(c.op, ast.FloorDiv):
        bad = c
      if bad is not None:
        n += 1
        ctx.ob('CONV/no-rounding', f, bad, False, '%s rounds on the way from <duration>/<divisions> to seconds (%s): onsets and durations are no longer the exact quotient' % (
            f.qualname, norm_text(bad)[:80]), construct='no rounding in %s' % f.qualname, definite=True)
  if not n:
    ctx.ob('CONV/no-rounding', fns[0], fns[0].node, True, '%d conversion functions use exact division only (int() only parses the XML number)' % len(fns),
           construct='no rounding between <duration> and seconds')


def conversions(ctx):
  no_rounding(ctx)
  sites = [
      ('musicxml_parser:NoteDuration.parse_duration', 'self.seconds', 'self.duration'),
      ('musicxml_parser:Measure._parse_backup', 'seconds', 'backup_duration'),
      ('musicxml_parser:Measure._parse_forward', 'seconds', 'forward_duration'),
  ]
  want = nf.rat(E('D / self.state.divisions * self.state.seconds_per_quarter'))
  for fq, res, dur in sites:
    fi = ctx.func(fq)
    body = [s for s in fi.node.body if isinstance(s, (ast.Assign, ast.AugAssign))]
    # the duration local is discovered: the name assigned from int(<...>.text) / int(duration)
    durs = [dotted(s.targets[0]) for s in body if isinstance(s, ast.Assign) and isinstance(s.value, ast.Call) and dotted(s.value.func) == 'int']
    ctx.require(durs, '%s: duration read not found' % fq)
    d = durs[0]
    # the seconds value is what moves the cursor (or, for notes, self.seconds)
    secs = [norm_text(s.value) for s in ast.walk(fi.node) if isinstance(s, ast.AugAssign) and norm_text(s.target) == 'self.state.time_position' and
            isinstance(s.value, (ast.Name, ast.Attribute))]
    ctx.require(secs, '%s: the cursor update was not found' % fq)
    env = _straight([s for s in body if not (isinstance(s, ast.Assign) and dotted(s.targets[0]) == d)], {})
    got = env.get(secs[0])
    ok = got is not None and got.equals(nf.Builder({'D': E(d)}).rat(E('D / self.state.divisions * self.state.seconds_per_quarter')))
    ctx.ob('CONV/seconds', fi, fi.node, ok, 'seconds = duration / divisions * seconds_per_quarter' if ok else
           '%s converts a duration to %r; its siblings use duration / divisions * seconds_per_quarter' % (fi.qualname, got), construct='%s: duration -> seconds' % fi.qualname)
  # harmony offset
  cs = ctx.func('musicxml_parser:ChordSymbol._parse')
  br = None
  for s in U.walk_stmts(cs.node):
    if isinstance(s, ast.If) and isinstance(s.test, ast.Compare) and isinstance(s.test.comparators[0], ast.Constant) and s.test.comparators[0].value == 'offset':
      br = s
  ctx.require(br is not None, 'ChordSymbol._parse: offset branch not found')
  body = [s for s in br.body if isinstance(s, (ast.Assign, ast.AugAssign))]
  tr = [s for s in br.body if isinstance(s, ast.Try)]
  off = [x.targets[0].id for t in tr for x in t.body if isinstance(x, ast.Assign) and isinstance(x.targets[0], ast.Name)]
  ctx.require(off, 'ChordSymbol._parse: offset read not found')
  env = _straight(body)
  secs = [dotted(s.targets[0]) for s in body if isinstance(s, ast.Assign) and 'seconds_per_quarter' in norm_text(s.value)]
  got = env.get(secs[0]) if secs else None
  ok = got is not None and got.equals(nf.Builder({'D': E(off[0])}).rat(E('D / self.state.divisions * self.state.seconds_per_quarter')))
  ctx.ob('CONV/seconds', cs, br, ok, 'harmony offset: seconds = offset / divisions * seconds_per_quarter' if ok else
         'the harmony <offset> is converted to %r; the note durations use duration / divisions * seconds_per_quarter' % (got,), construct='ChordSymbol offset -> seconds')
  add = [s for s in br.body if isinstance(s, ast.AugAssign) and norm_text(s.target) == 'self.time_position']
  ok = len(add) == 1 and isinstance(add[0].op, ast.Add) and norm_text(add[0].value) == secs[0] if secs else False
  ctx.ob('CONV/direction', cs, add[0] if add else br, ok, 'the offset moves the chord symbol forward' if ok else 'the harmony offset is not added to the chord time')
  # cursor directions
  for fq, op, word in (('musicxml_parser:Measure._parse_backup', ast.Sub, 'backwards'), ('musicxml_parser:Measure._parse_forward', ast.Add, 'forwards')):
    fi = ctx.func(fq)
    mv = [s for s in fi.node.body if isinstance(s, ast.AugAssign) and norm_text(s.target) == 'self.state.time_position']
    ok = len(mv) == 1 and isinstance(mv[0].op, op)
    ctx.ob('CONV/direction', fi, mv[0] if mv else fi.node, ok, '%s moves the cursor %s' % (fi.name, word) if ok else '%s does not move the cursor %s' % (fi.name, word))
  pd = ctx.func('musicxml_parser:NoteDuration.parse_duration')
  chord_if = [s for s in pd.node.body if isinstance(s, ast.If) and norm_text(s.test) == 'is_in_chord' and s.orelse]
  ok = False
  if chord_if:
    s = chord_if[-1]
    onset = [norm_text(x) for x in s.body]
    adv = [x for x in s.orelse if isinstance(x, ast.AugAssign)]
    ok = onset == ['self.time_position = self.state.previous_note.note_duration.time_position'] and len(adv) == 1 and isinstance(adv[0].op, ast.Add) and \
        norm_text(adv[0].target) == 'self.state.time_position' and norm_text(adv[0].value) == 'self.seconds'
  ctx.ob('CONV/chord-onset', pd, chord_if[-1] if chord_if else pd.node, ok, 'chord notes take the previous onset and do not advance; other notes advance by their duration' if ok else
         'chord notes do not share the previous note\'s onset / non-chord notes do not advance the cursor by their own duration')
  base = [s for s in pd.node.body if isinstance(s, ast.Assign) and norm_text(s.targets[0]) == 'self.time_position']
  ok = len(base) >= 1 and norm_text(base[0].value) == 'self.state.time_position'
  ctx.ob('CONV/onset', pd, base[0] if base else pd.node, ok, 'a note starts at the cursor' if ok else 'a note\'s onset is not the cursor position')
  pp = ctx.func('musicxml_parser:Part._parse')
  rs = [s for s in pp.node.body if isinstance(s, ast.Assign) and norm_text(s.targets[0]) == 'self._state.time_position']
  ok = len(rs) == 1 and U.const_value(rs[0].value) == 0
  ctx.ob('CONV/part-reset', pp, rs[0] if rs else pp.node, ok, 'each part restarts at time 0' if ok else 'the cursor is not reset to 0 at the start of a part')
  di = ctx.func('musicxml_parser:Measure._parse_direction')
  q = [s for s in U.walk_stmts(di.node) if isinstance(s, ast.Assign) and norm_text(s.targets[0]) == 'self.state.seconds_per_quarter']
  ok = False
  if len(q) == 1:
    try:
      ok = nf.rat(q[0].value).equals(nf.rat(E('60 / self.state.qpm')))
    except nf.NFError:
      ok = False
    blk = U.parent(di.node, q[0])
    ok = ok and any(isinstance(x, ast.Assign) and norm_text(x.targets[0]) == 'self.state.qpm' for x in getattr(blk, 'body', []))
  ctx.ob('CONV/tempo', di, q[0] if q else di.node, ok, 'seconds_per_quarter = 60 / qpm is updated with the tempo' if ok else 'seconds_per_quarter is not updated as 60/qpm where the tempo changes')


def keys_by_enumeration(ctx, fi):
  """Location-independent: <fifths> ranges over the 15 signatures -7..7 and <mode> over major / minor: a finite domain.  The loop
  that fills key_signatures is followed path by path (sa.pathval); on the paths selected by mode == "major" / "minor" the
  expression left in <key signature>.key is folded (sa.fold: integer arithmetic, %, //, len, subscripts of literal tables) for
  each of the 15 values of <fifths> and compared with the tonic's pitch class: 7*f mod 12 for major, 7*f + 9 mod 12 for minor.
  The first disagreeing signature is reported.  If a path or an expression is outside what is folded: no verdict."""
  from sa import pathval, fold
  fn = fi.node
  loop = None
  for n in ast.walk(fn):
    if isinstance(n, ast.For) and isinstance(n.target, ast.Name) and any(
        isinstance(c, ast.Call) and isinstance(c.func, ast.Attribute) and c.func.attr == 'add' and norm_text(c.func.value).endswith('.key_signatures') for c in ast.walk(n)):
      loop = n
  if loop is None:
    return
  v = loop.target.id
  ksv = None
  body = []
  for st in loop.body:
    if isinstance(st, ast.Assign) and isinstance(st.value, ast.Call) and isinstance(st.value.func, ast.Attribute) and st.value.func.attr == 'add' and \
       norm_text(st.value.func.value).endswith('.key_signatures') and isinstance(st.targets[0], ast.Name) and not st.value.keywords and not st.value.args:
      ksv = st.targets[0].id
      continue
    body.append(st)
  if ksv is None:
    return
  # tables / constants defined before the loop are part of the environment
  pre = [st for st in fn.body if st.lineno < loop.lineno and isinstance(st, ast.Assign) and len(st.targets) == 1 and isinstance(st.targets[0], ast.Name) and
         isinstance(st.value, (ast.List, ast.Tuple, ast.Constant, ast.Dict))]
  try:
    ps = pathval.paths(pre + body, {})
  except pathval.PathError:
    return
  fd = fold.Folder(ctx.P, ctx.S)
  mi = fi.module
  loc = '%s.key' % ksv
  for mode, shift in (('major', 0), ('minor', 9)):
    sel = []
    for conds, out, end in ps:
      val = None
      for t, pol in conds:
        sd = U.eq_sides(t, lambda x: norm_text(x) == '%s.mode' % v, lambda y: isinstance(y, ast.Constant) and isinstance(y.value, str))
        if sd:
          val = (sd[1].value == mode) == pol if val is None else (val and ((sd[1].value == mode) == pol))
      if val:
        sel.append((conds, out))
    if len(sel) != 1 or loc not in sel[0][1]:
      continue
    expr = sel[0][1][loc]
    bad = None
    try:
      for f in range(-7, 8):
        e2 = pathval.subst(expr, {'%s.key' % v: ast.Constant(value=f)})
        got = fd.expr(mi, e2, {})
        want = (7 * f + shift) % 12
        if got != want and bad is None:
          bad = (f, got, want)
    except Exception:
      continue
    ok = bad is None
    ctx.ob('KEY/tonic-by-signature', fi, loop, ok, 'all 15 signatures give the %s tonic (7*fifths%s mod 12)' % (mode, ' + 9' if shift else '') if ok else
           'mode %s, <fifths> %d: the reported key is %r, the %s key with that signature has tonic pitch class %d (%s)' % (
               mode, bad[0], bad[1], mode, bad[2], norm_text(expr)[:120]), construct='%s keys, all 15 signatures' % mode, definite=True)


# ------------------------------------------------------------------ S4
def transposed_key(ctx, rule):
  """Location-independent, finite domain: a transposing part declares its *written* key; the parser moves it along the circle of
  fifths by the chromatic transposition so that the reported key is the sounding one.  Written fifths f range over -7..7 and the
  chromatic transposition t over -11..11.  The block that stores the transposed key (and the helper it may call) is followed path
  by path (sa.pathval), and for every (f, t) the stored value k on the path whose conditions hold is folded: it must be the same
  key (7k = 7f + t mod 12) and a signature that exists (-7 <= k <= 7).  The first disagreeing pair is reported."""
  from sa import pathval, scenario
  fi = ctx.func('musicxml_parser:Measure._parse_attributes')
  fn = fi.node
  cons = 'the key of a transposing part is moved by the transposition and stays a valid signature'
  store = None
  for st in U.walk_stmts(fn):
    for tgt, _v, op in U.store_targets(st):
      if isinstance(tgt, ast.Attribute) and tgt.attr == 'key' and norm_text(tgt.value).endswith('key_signature') and op == 'store':
        store = (st, tgt)
  if store is None:
    why = 'cannot classify: Measure._parse_attributes does not store a transposed key'
    ctx.ob(rule, fi, fn, False, why, construct=cons, unknown=why)
    return
  st, tgt = store
  loc = norm_text(tgt)
  blk = next((b for b in U.blocks(fn) if any(x is st for x in b)), None)
  # widen to the block that also holds the definition of the transposition (a few levels up)
  pm = U.parents(fn)
  cur = st
  chosen = blk
  for _ in range(4):
    par = pm.get(id(cur))
    if par is None or isinstance(par, (ast.For, ast.While, ast.FunctionDef)):
      break
    b2 = next((b for b in U.blocks(fn) if any(x is par for x in b)), None)
    if isinstance(par, ast.If) and b2 is not None and not isinstance(pm.get(id(par)), (ast.For, ast.While)) and False:
      chosen = b2
    cur = par
    if isinstance(par, ast.If):
      body_blk = par.body if any(any(y is st for y in ast.walk(x)) for x in par.body) else par.orelse
      if any(isinstance(x, ast.Assign) and any('chromatic' in norm_text(n) for n in ast.walk(x.value)) for x in body_blk):
        chosen = body_blk
        break
  try:
    ps = pathval.paths(chosen, opaque=True)
  except pathval.PathError as e:
    why = 'cannot classify: %s' % e
    ctx.ob(rule, fi, st, False, why, construct=cons, unknown=why)
    return
  ci = fi.cls

  def inline(value, conds, depth=0):
    """[(conds, value)] with a call of a method / staticmethod of the class or of a module function replaced by its return paths."""
    if isinstance(value, ast.Call) and depth < 2:
      nm = (dotted(value.func) or '').split('.')[-1]
      h = (ci.methods.get(nm) if ci is not None else None) or fi.module.functions.get(nm)
      if h is not None and not value.keywords:
        ps_ = [a.arg for a in h.node.args.args]
        if ps_ and ps_[0] in ('self', 'cls') and len(ps_) == len(value.args) + 1:
          ps_ = ps_[1:]
        if len(ps_) == len(value.args):
          env = dict(zip(ps_, value.args))
          try:
            hp = pathval.paths(h.node.body, env, opaque=True)
          except pathval.PathError:
            return [(conds, value)]
          out = []
          for c2, e2, end in hp:
            if end == 'return' and pathval.RETURN in e2:
              out.extend(inline(e2[pathval.RETURN], conds + c2, depth + 1))
          return out or [(conds, value)]
    return [(conds, value)]
  alts = []
  for conds, env, end in ps:
    if loc in env:
      v = env[loc]
      if isinstance(v, ast.IfExp):
        alts.extend(inline(v.body, conds + [(v.test, True)]))
        alts.extend(inline(v.orelse, conds + [(v.test, False)]))
      else:
        alts.extend(inline(v, conds))
  flat = []
  for conds, v in alts:
    if isinstance(v, ast.IfExp):
      flat.append((conds + [(v.test, True)], v.body))
      flat.append((conds + [(v.test, False)], v.orelse))
    else:
      flat.append((conds, v))
  chrom = set()
  for conds, v in flat:
    for x in [v] + [t for t, _p in conds]:
      for n in ast.walk(x):
        if isinstance(n, ast.Call) and dotted(n.func) == 'int' and n.args and 'chromatic' in norm_text(n.args[0]):
          chrom.add(norm_text(n.args[0]))
  if len(chrom) != 1 or not flat:
    why = 'cannot classify: the transposition read from <chromatic> was not identified in the stored key (%s)' % sorted(chrom)
    ctx.ob(rule, fi, st, False, why, construct=cons, unknown=why)
    return
  catom = chrom.pop()
  bad = None
  n = 0
  for f in range(-7, 8):
    for t in range(-11, 12):
      if t == 0:
        continue
      sub = {loc: nf.rat(U.E(repr(f))), catom: nf.rat(U.E(repr(t)))}
      got = []
      for conds, v in flat:
        rel = [(c, p_) for c, p_ in conds if any(norm_text(x) in (loc, catom) for x in ast.walk(c))]
        r = scenario.tv_all(rel, sub) if rel else True
        if r is None:
          why = 'cannot classify: a condition on the path to the stored key cannot be evaluated for fifths %d, chromatic %d' % (f, t)
          ctx.ob(rule, fi, st, False, why, construct=cons, unknown=why)
          return
        if r:
          got.append(scenario.fold_numeric(v, sub))
      if len(got) != 1 or got[0] is None:
        why = 'cannot classify: the stored key cannot be folded for fifths %d, chromatic %d' % (f, t)
        ctx.ob(rule, fi, st, False, why, construct=cons, unknown=why)
        return
      k = got[0]
      n += 1
      if (7 * k) % 12 != (7 * f + t) % 12 or not -7 <= k <= 7:
        bad = bad or (f, t, k)
  if bad:
    f, t, k = bad
    names = ['Cb', 'Gb', 'Db', 'Ab', 'Eb', 'Bb', 'F', 'C', 'G', 'D', 'A', 'E', 'B', 'F#', 'C#']
    ctx.ob(rule, fi, st, False, 'a part written with %d fifths (%s major) and a chromatic transposition of %d sounds in pitch class %d, but the stored key is %s fifths (%s): %s' % (
        f, names[f + 7], t, (7 * f + t) % 12, k, (names[int(k) + 7] + ' major, pitch class %d' % ((7 * int(k)) % 12)) if -7 <= k <= 7 else 'not a signature',
        'the reported key is not the sounding key'), construct=cons, definite=True)
  else:
    ctx.ob(rule, fi, st, True, 'for all %d (fifths, chromatic) pairs the stored key is the sounding key and a valid signature' % n, construct=cons)


def keys(ctx):
  transposed_key(ctx, 'KEY/transposed-sounding-key')
  fi = ctx.func('musicxml_reader:musicxml_to_sequence_proto')
  fn = fi.node
  keys_by_enumeration(ctx, fi)
  tab = None
  tab_st = None
  for st in U.walk_stmts(fn):
    if isinstance(st, ast.Assign) and isinstance(st.value, ast.List) and len(st.value.elts) == 15:
      try:
        tab = [U.const_value(e) for e in st.value.elts]
        tab_st = st
      except Exception:
        pass
  ctx.require(tab is not None, 'musicxml_to_sequence_proto: fifths table not found')
  tname = tab_st.targets[0].id
  for f in range(-7, 8):
    want = (7 * f) % 12
    ok = tab[f + 7] == want
    ctx.ob('KEY/fifths-table', fi, tab_st, ok, '%d fifths -> major tonic pitch class %d' % (f, want) if ok else
           'fifths %d maps to %r, the major key with that signature has tonic pitch class %d' % (f, tab[f + 7], want), construct='fifths %d' % f)
  use = [s for s in U.walk_stmts(fn) if isinstance(s, ast.Assign) and isinstance(s.value, ast.Subscript) and norm_text(s.value.value) == tname]
  ok = len(use) == 1 and isinstance(use[0].value.slice, ast.BinOp) and norm_text(use[0].value.slice).endswith('.key + 7') and norm_text(use[0].targets[0]).endswith('.key')
  ctx.ob('KEY/index', fi, use[0] if use else fn, ok, 'the table is indexed with fifths + 7' if ok else 'the fifths table is not indexed with <fifths> + 7')
  # mode dispatch
  br = {}
  for s in U.walk_stmts(fn):
    if isinstance(s, ast.If) and isinstance(s.test, ast.Compare) and norm_text(s.test.left).endswith('.mode') and isinstance(s.test.comparators[0], ast.Constant):
      br[s.test.comparators[0].value] = s
  for m, en in (('major', 'MAJOR'), ('minor', 'MINOR')):
    s = br.get(m)
    ok = s is not None and any(isinstance(x, ast.Assign) and norm_text(x.targets[0]).endswith('.mode') and norm_text(x.value).endswith('.' + en) for x in s.body)
    ctx.ob('KEY/mode', fi, s or fn, ok, 'mode %s -> %s' % (m, en) if ok else 'mode %r is not mapped to %s' % (m, en), construct='mode %s' % m)
  s = br.get('minor')
  ok = False
  if s is not None:
    for x in s.body:
      if isinstance(x, ast.Assign) and norm_text(x.targets[0]).endswith('.key') and isinstance(x.value, ast.BinOp) and isinstance(x.value.op, ast.Mod) and U.const_value(x.value.right) == 12:
        try:
          d = nf.rat(x.value.left) - nf.rat(x.targets[0])
          c = d.const_value()
          ok = c is not None and c % 12 == 9
        except nf.NFError:
          ok = False
  ctx.ob('KEY/minor-tonic', fi, s or fn, ok, 'a minor key reports the relative minor tonic (major tonic + 9 mod 12)' if ok else
         'for a minor key the reported key is still the major tonic of the signature (A minor would be reported as C)', construct='minor: key = (major tonic + 9) % 12')
  ks = ctx.func('musicxml_parser:KeySignature._parse')
  rd = [x for x in U.walk_stmts(ks.node) if isinstance(x, ast.Assign) and norm_text(x.targets[0]) == 'self.key']
  ok = len(rd) == 1 and norm_text(rd[0].value) == "int(self.xml_key.find('fifths').text)"
  ctx.ob('KEY/fifths-source', ks, rd[0] if rd else ks.node, ok, 'the key is read from <fifths>' if ok else 'the key is not int(<fifths>.text)')
  md = [x for x in U.walk_stmts(ks.node) if isinstance(x, ast.Assign) and norm_text(x.targets[0]) == 'self.mode']
  ok = False
  if len(md) == 1 and isinstance(md[0].value, ast.Name):
    v = md[0].value.id
    defs = [x for x in U.walk_stmts(ks.node) if isinstance(x, ast.Assign) and norm_text(x.targets[0]) == v]
    texts = [norm_text(d.value) for d in defs]
    ok = any('.text' in t for t in texts) and any(t == "'major'" for t in texts)
  ctx.ob('KEY/mode-source', ks, md[0] if md else ks.node, ok, 'the mode is the <mode> text, defaulting to major' if ok else 'the mode is not taken from the text of <mode> (default major)')


# ------------------------------------------------------------------ S5
def kinds(ctx):
  fd = fold.Folder(ctx.P, ctx.S)
  ci = ctx.cls('musicxml_parser:ChordSymbol')
  ab = fold.need(lambda: fd.class_const(ci, 'CHORD_KIND_ABBREVIATIONS'), 'ChordSymbol.CHORD_KIND_ABBREVIATIONS')
  pat = fold.need(lambda: fd.module_const('chord_symbols_lib', '_CHORD_SYMBOL_PATTERN'), '_CHORD_SYMBOL_PATTERN')
  rxp = re.compile(pat)
  node = next(s for s in ci.node.body if isinstance(s, ast.Assign) and norm_text(s.targets[0]) == 'CHORD_KIND_ABBREVIATIONS')
  for kind, abbr in sorted(ab.items()):
    if abbr == 'N.C.':
      continue
    m = rxp.match('C' + abbr)
    ok = m is not None and m.group(2) + m.group(3) == abbr
    ctx.ob('KIND/accepted', ci, node, ok, 'kind %r -> %r is a chord symbol the symbol library parses' % (kind, abbr) if ok else
           'kind %r is abbreviated %r, which the chord-symbol grammar of chord_symbols_lib rejects: such a harmony yields an unparseable figure' % (kind, abbr),
           construct='CHORD_KIND_ABBREVIATIONS[%r]' % kind)
  gf = ctx.func('musicxml_parser:ChordSymbol.get_figure_string')
  gf = Canon(gf, roles.discover(gf, {'figure': lambda fn: sorted(set(r.value.id for r in ast.walk(fn) if isinstance(r, ast.Return) and isinstance(r.value, ast.Name)))}))
  asg = [s for s in U.walk_stmts(gf.node) if isinstance(s, ast.Assign) and norm_text(s.targets[0]) == 'figure']
  ok = len(asg) == 1 and isinstance(asg[0].value, ast.BinOp) and [norm_text(x) for x in _flat_add(asg[0].value)][:2] == ['self.root', 'self.kind'] and len(_flat_add(asg[0].value)) == 3
  ctx.ob('FIG/order', gf, asg[0] if asg else gf.node, ok, 'figure = root + kind + degrees' if ok else 'the figure is not assembled as root, kind, degrees')
  b = [s for s in U.walk_stmts(gf.node) if isinstance(s, ast.AugAssign) and norm_text(s.target) == 'figure']
  conds_b = U.path_conditions(gf.node, b[0]) if len(b) == 1 else []
  ok = len(b) == 1 and norm_text(b[0].value) == "'/' + self.bass" and any(norm_text(t) == 'self.bass' and pol for (t, pol) in conds_b)
  # located whatever the arrangement: the bass is written whenever one was declared - a further condition on the root ("not when it equals
  # the root") drops a declared <bass>
  extra_b = [t for t, _p in conds_b if any(isinstance(n_, ast.Attribute) and n_.attr == 'root' for n_ in ast.walk(t))]
  ctx.ob('FIG/bass', gf, b[0] if b else gf.node, ok and not extra_b, '"/bass" is appended last, only when a bass is present' if ok and not extra_b else
         ('the bass is appended only when %s: a <harmony> that declares a bass equal to its root ("Fm/F") is reported without it' % ' and '.join(norm_text(t) for t in extra_b) if extra_b else
          'the bass is not appended as "/bass" last'), definite=bool(extra_b))
  nc = [s for s in gf.node.body if isinstance(s, ast.If) and "'N.C.'" in norm_text(s.test)]
  ctx.ob('FIG/no-chord', gf, nc[0] if nc else gf.node, bool(nc), 'N.C. is returned as is' if nc else 'the N.C. kind is not handled')


def _flat_add(n):
  if isinstance(n, ast.BinOp) and isinstance(n.op, ast.Add):
    return _flat_add(n.left) + _flat_add(n.right)
  return [n]


# ------------------------------------------------------------------ S6
def contain(ctx):
  fi = ctx.func('musicxml_reader:musicxml_file_to_sequence_proto')
  tr = [n for n in ast.walk(fi.node) if isinstance(n, ast.Try)]
  ctx.require(len(tr) == 1, 'musicxml_file_to_sequence_proto: expected one try')
  t = tr[0]
  ctor = [c for c in U.calls_in(fi.node) if (dotted(c.func) or '').endswith('MusicXMLDocument')]
  ok = len(ctor) == 1 and any(x is ctor[0] for s in t.body for x in ast.walk(s))
  ctx.ob('CONTAIN/ctor-in-try', fi, t, ok, 'the document is parsed inside the try' if ok else 'MusicXMLDocument is constructed outside the try')
  h = t.handlers
  ok = len(h) >= 1 and any((dotted(x.type) or '').endswith('MusicXMLParseError') or dotted(x.type) in ('Exception',) for x in h if x.type is not None)
  ctx.ob('CONTAIN/handler-class', fi, h[0] if h else t, ok, 'the handler catches the base class MusicXMLParseError' if ok else
         'the handler catches %s, not the base class MusicXMLParseError' % [norm_text(x.type) if x.type else None for x in h])
  ok = all(any(isinstance(x, ast.Raise) and isinstance(x.exc, ast.Call) and dotted(x.exc.func) == 'MusicXMLConversionError' for x in hh.body) for hh in h)
  ctx.ob('CONTAIN/converted', fi, h[0] if h else t, ok, 'parse errors are re-raised as MusicXMLConversionError' if ok else 'the handler does not raise MusicXMLConversionError')
  mi = ctx.P.module('musicxml_parser')
  base = mi.classes.get('MusicXMLParseError')
  n = 0
  bad = 0
  for f in mi.all_functions.values():
    for r in ast.walk(f.node):
      if isinstance(r, ast.Raise) and r.exc is not None:
        cls = dotted(r.exc.func) if isinstance(r.exc, ast.Call) else dotted(r.exc)
        c = mi.classes.get(cls)
        n += 1
        ok = c is not None and base in ctx.P.mro(c)
        if not ok:
          bad += 1
        ctx.ob('CONTAIN/raise-class', f, r, ok, 'raises %s (a MusicXMLParseError)' % cls if ok else 'raises %s, which is not converted by the reader' % cls)
  ctx.require(n >= 20, 'only %d raise sites in musicxml_parser' % n)
  gs = ctx.func('musicxml_parser:MusicXMLDocument._get_score')
  rets = [s for s in ast.walk(gs.node) if isinstance(s, ast.Return)]
  ok = len(rets) == 1 and isinstance(rets[0].value, ast.Name)
  v = rets[0].value.id if ok else None
  br = next((s for s in gs.node.body if isinstance(s, ast.If) and ".endswith('.mxl')" in norm_text(s.test)), None)
  ok = ok and br is not None and any(isinstance(x, ast.Assign) and norm_text(x.targets[0]) == v for x in ast.walk(ast.Module(body=br.body, type_ignores=[]))) and \
      any(isinstance(x, ast.Assign) and norm_text(x.targets[0]) == v for x in ast.walk(ast.Module(body=br.orelse, type_ignores=[])))
  ctx.ob('CONTAIN/one-score', gs, br or gs.node, ok, 'the .mxl and .xml branches deliver the score through one variable' if ok else 'the .mxl and .xml branches do not end in the same score variable')


# ------------------------------------------------------------------ element-tag typing against the MusicXML schema
UNTRACKED_ROOTS = {
    # (function, receiver text): reason the receiver's tag is not known
    ('MusicXMLDocument._get_score', 'findall'): 'root of META-INF/container.xml, parsed from bytes; only the steps below it are checked',
}


def schema_navigation(ctx):
  """Every find()/findall()/child.tag ==/attribute read of the parser names a child
  (or attribute) the MusicXML schema allows under the element it is applied to."""
  from sa import xmltags, musicxml_schema as MS
  mi = ctx.P.module('musicxml_parser')
  doc = mi.all_classes.get('MusicXMLDocument')
  ctx.require(doc is not None and '_parse' in doc.methods and '_get_score' in doc.methods, 'MusicXMLDocument._parse/_get_score not found')
  ta = xmltags.TagAnalysis(ctx.P, mi, {('MusicXMLDocument', '_score'): xmltags.Tags(['score-partwise'])})
  ta.run([(doc.methods['_parse'], {}), (doc.methods['_get_score'], {})])
  known_nodes = set(k[0] for k in ta.sites)
  for sx in sorted(ta.sites.values(), key=lambda x: (x.node.lineno, x.node.col_offset, sorted(x.parents), x.name)):
    table = MS.CHILDREN if sx.kind == 'child' else MS.ATTRIBUTES
    for par in sorted(sx.parents):
      if sx.kind == 'child' and par not in table:
        raise AnalysisError('the parser navigates below <%s> (%s), which the schema table does not describe: cannot decide' % (par, loc(mi, sx.node)))
      ok = sx.name in table.get(par, ())
      what = 'child element' if sx.kind == 'child' else 'attribute'
      ctx.ob('ELEM/schema-' + sx.kind, sx.func, sx.node, ok,
             '<%s> may have %s %s' % (par, what, sx.name) if ok else
             '%s reads %s "%s" of a <%s> element, which the MusicXML schema does not define there (allowed: %s): the value is never found' % (
                 sx.func.qualname, what, sx.name, par, ', '.join(sorted(table.get(par, ()))) or 'none'),
             construct='<%s> %s %s @ %s' % (par, what, sx.name, norm_text(sx.node)[:60]), chain=list(sx.chain))
  for nid, (node, fi) in sorted(ta.unknown.items(), key=lambda kv: kv[1][0].lineno):
    if nid in known_nodes:
      continue      # reached once with no element (default None argument) and once with one
    why = None
    for (fn, attr), reason in UNTRACKED_ROOTS.items():
      if fi.qualname == fn and isinstance(node, ast.Call) and isinstance(node.func, ast.Attribute) and node.func.attr == attr:
        why = reason
    if why is None:
      raise AnalysisError('%s: navigation `%s` on an element whose tag the analysis cannot determine' % (loc(mi, node), norm_text(node)[:80]))
    ctx.note('untracked receiver at %s: %s' % (loc(mi, node), why))


# ------------------------------------------------------------------ per-part parser state
# One MusicXMLParserState object is shared by all parts of a score.  Fields the property scopes to the part must be
# re-initialised when a part starts; the others are score-wide by the parser's design.
PER_PART = {
    'time_position': ('const', 0, '"each part restarts at zero"'),
    'transpose': ('const', 0, '"the part\'s chromatic transposition": a part without <transpose> is not transposed'),
    'midi_channel': ('score_part', 'midi_channel', '"the part\'s ... MIDI channel"'),
    'midi_program': ('score_part', 'midi_program', '"the part\'s ... program"'),
}
SCORE_WIDE = {
    'divisions': 'set by <attributes> of every part before its first note in complete measures',
    'seconds_per_quarter': 'derived from qpm (judged with it: STATE/running-tempo-per-part)',
    'velocity': 'dynamics carry over as in the original parser (not a clause of the property)',
    'previous_note': 'set by every non-chord note before it is read by a chord note',
    'time_signature': 'one time signature for all parts (polymeter unsupported by design)',
}


# running values: written while a part is read, and read to time the notes that follow
RUNNING = {
    'qpm': 'tempo marks apply to the whole score, and "each part restarts at zero": at the start of a part the tempo in force is the one at time zero, not the last tempo of the previous part',
}


def running_tempo(ctx, part, loop, delegated):
  """Location-independent: state.qpm is a running value - written by <sound tempo> while a part is read and used to time every
  following note - and every part restarts at time zero.  If nothing before a part's measure loop re-establishes it, the second
  part starts with the *last* tempo of the first: in a score whose tempo changes, every part without tempo marks of its own (the
  usual case: marks stand in the top part only) is timed at the final tempo throughout."""
  for f, why in sorted(RUNNING.items()):
    sts = [st for st in part.node.body[:loop] if isinstance(st, ast.Assign) and len(st.targets) == 1 and isinstance(st.targets[0], ast.Attribute) and st.targets[0].attr == f and
           norm_text(st.targets[0].value) in ('self._state', 'self.state')]
    cons = 'Part._parse re-establishes state.%s before the measures of a part' % f
    if sts or f in delegated:
      whyu = 'cannot classify: state.%s is assigned before the measures of a part; whether the value is the tempo in force at time zero (and later changes of other parts are applied) is not decided' % f
      ctx.ob('STATE/running-tempo-per-part', part, sts[0] if sts else part.node, False, whyu, construct=cons, unknown=whyu)
    else:
      ctx.ob('STATE/running-tempo-per-part', part, part.node, False, 'the shared parser state field %s is a running value (written by <sound tempo> inside a measure, read to time every later note) and '
             'is not re-established when a part starts although time_position is reset to 0: %s' % (f, why), construct=cons, definite=True)


def running_tempo_after_backup(ctx):
  """Location-independent: <backup> moves the cursor to an earlier position of the bar.  The amount is converted to seconds
  with the running state.seconds_per_quarter, and the running tempo stays what it was at the later position.  Both are right
  only if no tempo mark lies between the two positions; the parser keeps no map of tempo marks by position, so a bar with two
  voices and a tempo change inside it is timed wrongly (the cursor does not return to where the first voice started, and the
  second voice is timed at the later tempo from its first note)."""
  mi = ctx.P.module('musicxml_parser')
  cons = 'a backward move of the cursor re-establishes the tempo in force at the earlier position'
  n = 0
  for fi in mi.all_functions.values():
    fn = fi.node
    for st in U.walk_stmts(fn, into_nested=False):
      if not (isinstance(st, ast.AugAssign) and isinstance(st.op, ast.Sub) and isinstance(st.target, ast.Attribute) and st.target.attr == 'time_position'):
        continue
      n += 1
      amount = U.expand_locals(fn, st.value, at=st)
      at_running = any(isinstance(x, ast.Attribute) and x.attr in ('seconds_per_quarter', 'qpm') for x in ast.walk(amount))
      restores = any(isinstance(t, ast.Attribute) and t.attr in ('qpm', 'seconds_per_quarter') for s_ in U.walk_stmts(fn, into_nested=False) for t, _v, _o in U.store_targets(s_))
      calls = [c for c in U.calls_in(fn) if isinstance(c.func, ast.Attribute) and norm_text(c.func.value) in ('self.state', 'self._state')]
      if restores or calls:
        why = 'cannot classify: %s also writes the running tempo / calls the state object; whether the tempo in force at the earlier position is restored is not decided' % fi.qualname
        ctx.ob('STATE/running-tempo-after-backup', fi, st, False, why, construct=cons, unknown=why)
      elif at_running:
        ctx.ob('STATE/running-tempo-after-backup', fi, st, False, '%s moves the cursor back by an amount converted at the running tempo (%s) and leaves the running tempo as it is: when a tempo mark '
               'lies inside the span, the cursor does not land where the earlier voice started and the following notes are timed at the later tempo from the start' % (
                   fi.qualname, norm_text(st.value)[:60]), construct=cons, definite=True)
      else:
        ctx.ob('STATE/running-tempo-after-backup', fi, st, True, 'the backward move does not depend on the running tempo', construct=cons)
  if n == 0:
    why = 'cannot classify: no statement moves time_position backwards'
    ctx.ob('STATE/running-tempo-after-backup', mi, mi.tree, False, why, construct=cons, unknown=why)


def part_state(ctx):
  mi = ctx.P.module('musicxml_parser')
  written = {}
  for fi in mi.all_functions.values():
    if fi.qualname.startswith('MusicXMLParserState.'):
      continue
    for st in U.walk_stmts(fi.node):
      for tgt, _v, _o in U.store_targets(st):
        if isinstance(tgt, ast.Attribute) and isinstance(tgt.value, ast.Attribute) and tgt.value.attr in ('state', '_state') and \
            isinstance(tgt.value.value, ast.Name) and tgt.value.value.id == 'self':
          written.setdefault(tgt.attr, []).append((fi, st))
  unknown = sorted(set(written) - set(PER_PART) - set(SCORE_WIDE) - set(RUNNING))
  if unknown:
    raise AnalysisError('parser state field(s) %s are written but classified neither per-part nor score-wide: cannot decide the per-part reset rule' % unknown)
  part = ctx.func('musicxml_parser:Part._parse')
  loop = next((i for i, st in enumerate(part.node.body) if isinstance(st, ast.For) and any(isinstance(c, ast.Call) and dotted(c.func) == 'Measure' for c in ast.walk(st))), None)
  ctx.require(loop is not None, 'Part._parse: the loop constructing Measure objects was not found')
  # the reset may be delegated to a method of the state object called before the measures: self._state.<method>(args)
  state_cls = mi.all_classes.get('MusicXMLParserState')
  delegated = {}     # field -> value text with the helper's parameters replaced by the call's arguments
  for st in part.node.body[:loop]:
    if isinstance(st, ast.Expr) and isinstance(st.value, ast.Call) and isinstance(st.value.func, ast.Attribute) and \
        norm_text(st.value.func.value) in ('self._state', 'self.state') and state_cls is not None and st.value.func.attr in state_cls.methods:
      h = state_cls.methods[st.value.func.attr]
      hp = h.params()
      amap = dict(zip(hp[1:], st.value.args))
      amap.update({k.arg: k.value for k in st.value.keywords if k.arg})
      for hs in h.node.body:       # top level of the helper only: unconditional
        if isinstance(hs, ast.Assign) and len(hs.targets) == 1 and isinstance(hs.targets[0], ast.Attribute) and norm_text(hs.targets[0].value) == hp[0]:
          v = hs.value
          txt = norm_text(v)
          if isinstance(v, ast.Attribute) and isinstance(v.value, ast.Name) and v.value.id in amap:
            txt = norm_text(amap[v.value.id]) + '.' + v.attr
          elif isinstance(v, ast.Name) and v.id in amap:
            txt = norm_text(amap[v.id])
          delegated[hs.targets[0].attr] = (txt, v, hs)
  running_tempo(ctx, part, loop, delegated)
  running_tempo_after_backup(ctx)
  for f, (kind, val, why) in sorted(PER_PART.items()):
    sts = [st for st in part.node.body[:loop] if isinstance(st, ast.Assign) and len(st.targets) == 1 and isinstance(st.targets[0], ast.Attribute) and st.targets[0].attr == f and
           norm_text(st.targets[0].value) in ('self._state', 'self.state')]
    got = None
    if len(sts) == 1:
      got = ('const', U.const_value(sts[0].value)) if U.const_value(sts[0].value) is not None else ('expr', norm_text(sts[0].value))
    elif not sts and f in delegated:
      txt, v, hs = delegated[f]
      got = ('const', U.const_value(v)) if U.const_value(v) is not None else ('expr', txt)
    ok = got is not None and (got == ('const', val) if kind == 'const' else got == ('expr', 'self.score_part.' + val))
    # the statements before the measure loop and the state method they call were both read: a field found in neither is not reset
    ctx.ob('STATE/part-reset', part, sts[0] if sts else part.node, ok, 'state.%s is re-initialised when a part starts (%s)' % (f, why) if ok else
           'the shared parser state field %s is not re-initialised at the start of a part (%s): it leaks from the previous part' % (f, why),
           construct='Part._parse resets state.%s' % f, definite=(got is None and len(sts) == 0))


MUTANTS = [
    Mutant('F32 reverted: transposed key folded with %= -6', P, "          if new_key > 6:\n            new_key -= 12\n", "          if new_key > 6:\n            new_key %= -6\n", rule='KEY/transposed-sounding-key'),
    Mutant('transposed key: wrap at > 7 (leaves 7 sharps for 19 - 12)', P, "          if new_key > 6:\n            new_key -= 12\n", "          if new_key > 7:\n            new_key -= 12\n", expect='silent'),
    Mutant('transposed key moved the wrong way round the circle', P, "          key_transpose = (transpose * -5) % 12\n", "          key_transpose = (transpose * 5) % 12\n", rule='KEY/transposed-sounding-key'),
    Mutant('seed C05_e: the transposition is not reset between parts', P, "    self._state.transpose = 0\n", "", rule='STATE/part-reset'),
    Mutant('the cursor is not reset between parts', P, "    self._state.time_position = 0\n", "", rule='STATE/part-reset'),
    Mutant('seed C05_b: bass alteration read from root-alter', P, "alter_tag='bass-alter'", "alter_tag='root-alter'", rule='ELEM/schema-child'),
    Mutant('root step read as <step>', P, "step_tag='root-step'", "step_tag='step'", rule='ELEM/schema-child'),
    Mutant('pitch alteration read from <accidental>', P, "    if xml_pitch.find('alter') is not None:\n      alter_text = xml_pitch.find('alter').text", "    if xml_pitch.find('accidental') is not None:\n      alter_text = xml_pitch.find('accidental').text", rule='ELEM/schema-child'),
    Mutant('transposition read from <diatonic-steps>', P, "child.find('chromatic')", "child.find('diatonic-steps')", rule='ELEM/schema-child'),
    Mutant('tempo read from a bpm attribute', P, "self.xml_sound.get('tempo')", "self.xml_sound.get('bpm')", rule='ELEM/schema-attr'),
    Mutant('time signature dispatched on <time-signature>', P, "      elif child.tag == 'time':", "      elif child.tag == 'time-signature':", rule='ELEM/schema-child'),
    Mutant('tag read through a temporary (harmless)', P, "    xml_duration = xml_backup.find('duration')", "    tag_name = 'duration'\n    xml_duration = xml_backup.find(tag_name)", expect='silent'),
    Mutant('mode element compared with text again', P, "    mode = xml_mode.text if xml_mode is not None else None\n", "    mode = xml_mode\n", rule='ELEM/'),
    Mutant('fifths element compared with text', P, "    fifths = self.xml_key.find('fifths')\n    if fifths is None:", "    fifths = self.xml_key.find('fifths')\n    if fifths == '':", rule='ELEM/'),
    Mutant('alteration wraps in the octave', P, "    midi_pitch = (12 + pitch_class + int(alter)) + (int(octave) * 12)", "    midi_pitch = (12 + (pitch_class + int(alter)) % 12) + (int(octave) * 12)", rule='PITCH/affine'),
    Mutant('octave numbering off by one', P, "    midi_pitch = (12 + pitch_class + int(alter)) + (int(octave) * 12)", "    midi_pitch = (pitch_class + int(alter)) + (int(octave) * 12)", rule='PITCH/affine'),
    Mutant('alteration doubled', P, "    midi_pitch = (12 + pitch_class + int(alter)) + (int(octave) * 12)", "    midi_pitch = (12 + pitch_class + 2 * int(alter)) + (int(octave) * 12)", rule='PITCH/affine'),
    Mutant('step A one semitone low', P, "    elif step == 'A':\n      pitch_class = 9", "    elif step == 'A':\n      pitch_class = 8", rule='PITCH/step-table'),
    Mutant('backup moves forward', P, "    self.state.time_position -= seconds", "    self.state.time_position += seconds", rule='CONV/direction'),
    Mutant('forward divides by divisions + 1', P, "    midi_ticks = forward_duration * (constants.STANDARD_PPQ\n                                     / self.state.divisions)", "    midi_ticks = forward_duration * (constants.STANDARD_PPQ\n                                     / (self.state.divisions + 1))", rule='CONV/seconds'),
    Mutant('backup forgets the tempo', P, "    seconds = ((midi_ticks / constants.STANDARD_PPQ)\n               * self.state.seconds_per_quarter)\n    self.state.time_position -= seconds", "    seconds = (midi_ticks / constants.STANDARD_PPQ)\n    self.state.time_position -= seconds", rule='CONV/seconds'),
    Mutant('note seconds scaled twice by resolution', P, "    self.seconds = self.midi_ticks / constants.STANDARD_PPQ\n", "    self.seconds = self.midi_ticks\n", rule='CONV/seconds'),
    Mutant('chord notes advance the cursor', P, "    else:\n      # Only increment time positions once in chord\n      self.state.time_position += self.seconds", "    self.state.time_position += self.seconds", rule='CONV/chord-onset'),
    Mutant('parts continue where the previous ended', P, "    self._state.time_position = 0\n    self._state.midi_channel", "    self._state.midi_channel", rule='STATE/part-reset'),
    Mutant('tempo change keeps the old seconds per quarter', P, "          self.state.seconds_per_quarter = 60 / self.state.qpm\n", "", rule='CONV/tempo'),
    Mutant('two rows of the fifths table swapped', R, "music_proto_keys = [11, 6, 1, 8, 3, 10, 5, 0, 7, 2, 9, 4, 11, 6, 1]", "music_proto_keys = [11, 6, 1, 8, 3, 10, 5, 0, 2, 7, 9, 4, 11, 6, 1]", rule='KEY/fifths-table'),
    Mutant('minor keys report the major tonic', R, "      key_signature.key = (key_signature.key + 9) % 12\n", "", rule='KEY/'),
    Mutant('minor tonic a major third below', R, "      key_signature.key = (key_signature.key + 9) % 12\n", "      key_signature.key = (key_signature.key + 8) % 12\n", rule='KEY/minor-tonic'),
    Mutant('kind abbreviation the symbol parser rejects', P, "      'suspended-second': 'sus2',", "      'suspended-second': 'suspended2',", rule='KIND/accepted'),
    Mutant('bass before the degrees', P, "      figure = self.root + self.kind + degrees_string\n      if self.bass:\n        figure += '/' + self.bass", "      figure = self.root + self.kind\n      if self.bass:\n        figure += '/' + self.bass\n      figure += degrees_string", rule='FIG/'),
    Mutant('reader catches KeyParseError only', R, "  except musicxml_parser.MusicXMLParseError as e:", "  except musicxml_parser.KeyParseError as e:", rule='CONTAIN/handler-class'),
    Mutant('unknown step raises ValueError', P, "      raise PitchStepParseError('Unable to parse pitch step ' + step)", "      raise ValueError('Unable to parse pitch step ' + step)", rule=None),
    # equivalent
    Mutant('seconds computed in another order', P, "    seconds = ((midi_ticks / constants.STANDARD_PPQ)\n               * self.state.seconds_per_quarter)\n    self.state.time_position -= seconds", "    seconds = (self.state.seconds_per_quarter * midi_ticks\n               / constants.STANDARD_PPQ)\n    self.state.time_position -= seconds", expect='silent'),
    Mutant('pitch summed in another order', P, "    midi_pitch = (12 + pitch_class + int(alter)) + (int(octave) * 12)", "    midi_pitch = 12 * (int(octave) + 1) + int(alter) + pitch_class", expect='silent'),
    Mutant('step table as a dict', P, "    pitch_class = 0\n    if step == 'C':\n      pitch_class = 0\n    elif step == 'D':\n      pitch_class = 2\n    elif step == 'E':\n      pitch_class = 4\n    elif step == 'F':\n      pitch_class = 5\n    elif step == 'G':\n      pitch_class = 7\n    elif step == 'A':\n      pitch_class = 9\n    elif step == 'B':\n      pitch_class = 11\n    else:\n      # Raise exception for unknown step (ex: 'Q')\n      raise PitchStepParseError('Unable to parse pitch step ' + step)\n",
           "    steps = {'C': 0, 'D': 2, 'E': 4, 'F': 5, 'G': 7, 'A': 9, 'B': 11}\n    if step not in steps:\n      raise PitchStepParseError('Unable to parse pitch step ' + step)\n    pitch_class = steps[step]\n", expect='silent'),
]

RENAME_FUNCS = [(P, 'Measure._parse'), (P, 'Note._parse'), (P, 'ChordSymbol._parse'), (P, 'ChordSymbol._parse_pitch'), (P, 'ScorePart._parse'), (P, 'MusicXMLDocument._parse'),
                (P, 'Note.pitch_to_midi_pitch'), (P, 'Measure._parse_backup'), (P, 'Measure._parse_forward'), (P, 'NoteDuration.parse_duration'),
                (P, 'KeySignature._parse'), (P, 'ChordSymbol.get_figure_string'), (P, 'Measure._parse_direction'), (R, 'musicxml_to_sequence_proto'),
                (R, 'musicxml_file_to_sequence_proto'), (P, 'Note._parse_pitch'), (P, 'Measure._parse_attributes')]

EXPLANATION += (' Location-independent additions: KEY/tonic-by-signature (the key expression of each mode path folded for all 15 signatures), CONTAIN/zip-name-flag (cp437 re-decoding only under a test of flag_bits & 0x800).')
EXPLANATION += (' Round 6: ' + "DUP/identity-includes-time (the membership key of the signature de-duplication, or the __eq__ it relies on, includes time_position); DEGREE/subtract-is-no (path-wise with the string scenario degree-type = 'subtract': the result is 'no' + the degree on every feasible path).")
EXPLANATION += (' Round 7: ' + 'HARMONY/accidental-spelling (five alterations folded path-wise); TEMPO/independent-of-dynamics; KEY/transposed-sounding-key (all (fifths, chromatic) pairs folded; finding F32); STATE/running-tempo-per-part and STATE/running-tempo-after-backup (known findings F30, F31).')
EXPLANATION += (' Rounds 9-10: ' + 'REPAIR/only-a-measure-without-notes; TEMPO/default-only-without-marks (guard exact vs. one disjunct of a wider or).')
EXPLANATION += (' Round 11: ' + 'FIG/bass located when a condition on the root guards the bass; METER/complete-bar-keeps-the-meter (_fix_time_signature on seven scenarios).')
EXPLANATION += (' Round 12: ' + 'PITFALL/case-folded-key over musicxml_parser (class-level tables included).')
EXPLANATION += (' Round 14: ' + 'KEY/every-key-in-range-accepted (the fifteen keys folded through every raising guard on the fifths count); KEY/wrap-both-ways (statement-form folds by 12).')
