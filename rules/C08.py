"""C08 - decoding the labels an encoder produced reconstructs the event sequence (DESIGN.md §4 C08)."""
import ast

from sa import iface, nf, cov, roles, fold, astutil as U
from sa.roles import Canon
from sa.loader import norm_text, dotted
from sa.selftest import Mutant

PROPERTY = 'C08'
ED = 'note_seq/encoder_decoder.py'
ME = 'note_seq/melody_encoder_decoder.py'
PE = 'note_seq/performance_encoder_decoder.py'
PR = 'note_seq/pianoroll_encoder_decoder.py'
LEVEL_TEXT = (
    'Encoder/decoder sibling agreement, decided from the source for every history length: all EventSequenceEncoderDecoder subclasses '
    '(and the conditional wrapper) implement the six interface members; in the lookback and key-melody encoders the label returned for '
    'lookback i and the label tested by the decoder are the same expression, both walk the lookbacks in the same (reversed) order, the '
    'encoder\'s history guard is the complement of the decoder\'s under position = len(events), the early default label is the label of '
    'the last lookback and decodes to the same default event, and num_classes is the largest label + 1; plain labels are inverse pieces; '
    'the one-hot wrappers delegate to encode_event(events[position]) / decode_event(class_index); the conditional wrapper reads the '
    'control sequence one position ahead of the target; the note-performance encoder splits each value with // and % by the same '
    'segment size the decoder multiplies by, with matching offsets; the pianoroll label is the bit mask the decoder unpacks; input_size '
    'equals the symbolic sum of the block widths written by events_to_input. "For every history" behaviour as a whole is not decided.')
LEVEL_NOTE = 'Trusted: Python integer // and % (a == (a // s) * s + a % s for s > 0); the C09 check for the underlying one-hot encodings.'
TECHNIQUE = 'static analysis: interface conformance, normal-form equality of encoder and decoder label expressions, complementary guards under substitution, divmod/multiply inverse-pair recognition, symbolic trip-count sums of vector widths'
DESIGN_REF = 'DESIGN.md section 4 (C08)'
EXPLANATION = ('IFACE over EventSequenceEncoderDecoder (+ conditional wrapper members); LOOKBACK rules for LookbackEventSequenceEncoderDecoder and '
               'KeyMelodyEncoderDecoder; WRAP one-hot wrapper delegation; COND conditional wrapper positions; NOTEPERF divmod pairs; PIANOROLL '
               'bit mask; SIZE input_size vs. written widths; ENCODE aligned (input i, label i+1) pairs.')
TRUSTED = ['integer divmod identity', 'the one-hot encodings are bijections (C09)']
NOT_DECIDED = ['label precedence over all histories as a behaviour', 'labels_to_num_steps sums (values)']
ASSUMPTIONS = ['lookback distances are positive']
FLOORS = {'IFACE': 40, 'LOOKBACK': 16, 'WRAP': 5, 'COND': 5, 'NOTEPERF': 5, 'PIANOROLL': 3, 'SIZE': 3, 'ENCODE': 2}


def E(t):
  return U.E(t)


def _root_and_depth(e):
  d = 0
  while isinstance(e, ast.Subscript):
    e = e.value
    d += 1
  return (e.id if isinstance(e, ast.Name) else None, d)


def _iterates(fn, name, at):
  """The collection (text) that the loop / comprehension variable `name` walks where `at` sits, or None."""
  for n in ast.walk(fn):
    gens = [(n.target, n.iter)] if isinstance(n, ast.For) else [(g.target, g.iter) for g in getattr(n, 'generators', [])]
    for tg, it in gens:
      if isinstance(tg, ast.Name) and tg.id == name and any(x is at for x in ast.walk(n)):
        return it
  return None


def sampled_sizes(ctx, rule):
  """Location-independent: the generation loops draw a class with np.random.choice(n, p=distribution).  n must be the length of
  a distribution taken from the *same* element as the distribution itself: when the distributions come from walking a list of
  sub-softmaxes (each with its own size), a size read off one fixed element of that list is wrong for all the others."""
  for fq in ('encoder_decoder:EventSequenceEncoderDecoder.extend_event_sequences', 'encoder_decoder:EventSequenceEncoderDecoder.evaluate_log_likelihood'):
    try:
      fi = ctx.func(fq)
    except Exception:      # pylint: disable=broad-except
      continue
    fn = fi.node
    draws = [c for c in ast.walk(fn) if isinstance(c, ast.Call) and (dotted(c.func) or '').endswith('random.choice') and c.args and any(k.arg == 'p' for k in c.keywords)]
    if not draws and fq.endswith('extend_event_sequences'):
      why = 'cannot classify: extend_event_sequences no longer draws the class with np.random.choice(n, p=...)'
      ctx.ob(rule, fi, fn, False, why, construct='np.random.choice(n, p=d): n is the size of d', unknown=why)
    for c in draws:
      pk = next((k.value for k in c.keywords if k.arg == 'p'), None)
      n = c.args[0]
      if isinstance(n, ast.Name):
        n = U.reaching_def(fn, n.id, c) or U.expand_locals(fn, n, at=c, depth=1)
      cons = 'np.random.choice(n, p=d): n is the size of d'
      if not (isinstance(n, ast.Call) and dotted(n.func) == 'len' and n.args):
        why = 'cannot classify: the number of classes %s is not the length of a distribution' % norm_text(n)
        ctx.ob(rule, fi, c, False, why, construct=cons, unknown=why)
        continue
      nroot, nd = _root_and_depth(n.args[0])
      proot, pd = _root_and_depth(pk if isinstance(pk, ast.Subscript) else U.expand_locals(fn, pk, at=c, depth=1))
      if nroot is None or proot is None:
        why = 'cannot classify: %s / %s are not subscripted names' % (norm_text(n), norm_text(pk))
        ctx.ob(rule, fi, c, False, why, construct=cons, unknown=why)
      elif nroot == proot and nd == pd:
        ctx.ob(rule, fi, c, True, 'size and distribution are both taken from %s at depth %d' % (proot, pd), construct=cons)
      else:
        it = _iterates(fn, proot, c)
        iroot = _root_and_depth(it)[0] if it is not None else None
        while isinstance(it, ast.Call) and it.args and iroot is None:
          it = it.args[0]
          iroot = _root_and_depth(it)[0]
        if iroot is not None and nroot == iroot:
          ctx.ob(rule, fi, c, False, 'the distribution %s is taken from each element %s of %s in turn, but the number of classes %s is read off one fixed element of %s: '
                 'with sub-softmaxes of different sizes np.random.choice is given a size that does not match the distribution, and the generation loop fails' % (
                     norm_text(pk), proot, norm_text(it), norm_text(n), iroot), construct=cons, definite=True)
        else:
          why = 'cannot classify: the number of classes %s and the distribution %s are taken from different objects' % (norm_text(n), norm_text(pk))
          ctx.ob(rule, fi, c, False, why, construct=cons, unknown=why)


def steps_by_decoding(ctx, rule):
  """Location-independent: "labels_to_num_steps equals the steps of the sequence so generated".  Every definition of
  labels_to_num_steps in the encoder modules must turn each label into its event (class_index_to_event / decode_event, directly
  or by delegating to another labels_to_num_steps) and count the steps of the events.  Arithmetic on the label numbers themselves
  assumes a block layout; a one-sided comparison of the label with the start of the time-shift block also counts every label of
  the blocks that follow (velocity changes) as time."""
  n = 0
  for mn in ('encoder_decoder', 'performance_encoder_decoder', 'melody_encoder_decoder', 'pianoroll_encoder_decoder', 'chords_encoder_decoder'):
    try:
      mi = ctx.P.module(mn)
    except Exception:      # pylint: disable=broad-except
      continue
    for q, fi in sorted(mi.all_functions.items()):
      if not q.endswith('.labels_to_num_steps') or fi.is_abstract() if callable(getattr(fi, 'is_abstract', None)) else not q.endswith('.labels_to_num_steps'):
        continue
      fn = fi.node
      body = [st for st in fn.body if not (isinstance(st, ast.Expr) and isinstance(st.value, ast.Constant))]
      if all(isinstance(st, (ast.Pass, ast.Raise)) for st in body):
        continue
      n += 1
      cons = '%s counts the steps of the events its labels stand for' % q
      if len(body) == 1 and isinstance(body[0], ast.Return) and norm_text(body[0].value) == 'len(%s)' % fi.params()[-1]:
        ctx.ob(rule, fi, body[0], True, 'the documented default: one step per event', construct=cons)
        continue
      decodes = [c for c in U.calls_in(fn) if isinstance(c.func, ast.Attribute) and c.func.attr in ('class_index_to_event', 'decode_event', 'labels_to_num_steps')]
      if decodes:
        # located: a label picked by a fixed position other than the last one - what is added once after the loop (the duration of the
        # note that is still sounding) belongs to the last label
        lp_ = fi.params()[-1]
        fixed = [x for x in ast.walk(fn) if isinstance(x, ast.Subscript) and isinstance(x.value, ast.Name) and x.value.id == lp_ and isinstance(U.const_value(x.slice), int) and U.const_value(x.slice) != -1]
        if fixed:
          ctx.ob(rule + '/last-label', fi, fixed[0], False, '%s decodes `%s`, a fixed position that is not the last: the duration added once at the end is that of the note still sounding, i.e. of the last '
                 'label - with two or more labels of different durations the count differs from the steps of the generated sequence' % (q, norm_text(fixed[0])), construct='%s: what is added after the loop belongs to the last label' % q, definite=True)
        ctx.ob(rule, fi, decodes[0], True, 'each label is decoded (%s)' % decodes[0].func.attr, construct=cons)
        continue
      lbl = set()
      for lp in ast.walk(fn):
        if isinstance(lp, ast.For) and isinstance(lp.target, ast.Name):
          lbl.add(lp.target.id)
      onesided = [c for c in ast.walk(fn) if isinstance(c, ast.Compare) and len(c.ops) == 1 and isinstance(c.ops[0], (ast.Lt, ast.LtE, ast.Gt, ast.GtE)) and
                  any(isinstance(x, ast.Name) and x.id in lbl for x in (c.left, c.comparators[0]))]
      if onesided:
        ctx.ob(rule, fi, onesided[0], False, '%s does not decode its labels; it counts a label as time when %s, with no upper end of the time-shift block: with velocity bins the labels of '
               'the velocity block lie above it and are counted as (large) time shifts although their events advance time by 0' % (q, norm_text(onesided[0])), construct=cons, definite=True)
      else:
        why = 'cannot classify: %s neither decodes its labels nor delegates' % q
        ctx.ob(rule, fi, fn, False, why, construct=cons, unknown=why)
  if n == 0:
    why = 'cannot classify: no labels_to_num_steps implementation found'
    ctx.ob(rule, ctx.P.module('encoder_decoder'), 'labels_to_num_steps', False, why, construct='labels_to_num_steps implementations', unknown=why)


def note_block_size(ctx, rule):
  """Location-independent: max_pitch is inclusive for NotePerformance events (the default is MAX_MIDI_PITCH = 127), and the NOTE_ON
  sub-label is pitch - min_pitch, so the NOTE_ON block holds max_pitch - min_pitch + 1 classes.  The third entry of the class-size
  list is compared with that in normal form."""
  ci = ctx.cls('performance_encoder_decoder:NotePerformanceEventSequenceEncoderDecoder')
  init = ci.methods['__init__']
  cons = 'the NOTE_ON block of NotePerformance labels has max_pitch - min_pitch + 1 classes'
  lst = [st for st in U.walk_stmts(init.node) if isinstance(st, ast.Assign) and norm_text(st.targets[0]) == 'self._num_classes' and isinstance(st.value, (ast.List, ast.Tuple))]
  if len(lst) != 1 or len(lst[0].value.elts) != 6:
    why = 'cannot classify: the six-entry class-size list was not found'
    ctx.ob(rule, init, init.node, False, why, construct=cons, unknown=why)
    return
  e = U.expand_locals(init.node, lst[0].value.elts[2], at=lst[0])
  try:
    ok = nf.rat(e).equals(nf.rat(U.E('max_pitch - min_pitch + 1')))
    ctx.ob(rule, init, lst[0], ok, 'NOTE_ON block size max_pitch - min_pitch + 1' if ok else
           'the NOTE_ON block has %s classes; pitches run from min_pitch to max_pitch inclusive, so an event at max_pitch gets the sub-label max_pitch - min_pitch, which is out of range' %
           norm_text(e), construct=cons, definite=True)
  except nf.NFError:
    why = 'cannot classify: NOTE_ON block size %s' % norm_text(e)
    ctx.ob(rule, init, lst[0], False, why, construct=cons, unknown=why)


def run(ctx):
  from sa import pitfalls
  scope_ = []
  for mn_ in ('encoder_decoder', 'performance_encoder_decoder', 'melody_encoder_decoder', 'chords_encoder_decoder', 'pianoroll_encoder_decoder'):
    scope_.extend(fi_ for q_, fi_ in sorted(ctx.P.module(mn_).all_functions.items()) if fi_.cls is not None and '<locals>' not in q_)
  pitfalls.apply(ctx, 'PITFALL', scope_, ['unzip-empty'], {
      'unzip-empty': 'encode of a sequence with fewer than two events returns no (input, label) pairs - two empty lists - and must not raise'})
  pitfalls.apply(ctx, 'PITFALL', scope_, ['falsy-domain-zero'], {
      'falsy-domain-zero': 'a melody event of pitch 0 (the lowest note of an encoder built with min_note=0) is decoded as "no event": decoding the label of a repeat does not give the repeated event'})
  pitfalls.apply(ctx, 'PITFALL', scope_, ['unforwarded-parameter'], {
      'unforwarded-parameter': 'the label side and the input side of the encoder are then built for different limits: labels outside num_classes, or labels that decode to events the input side refuses'})
  default_event_in_range(ctx)
  sampled_sizes(ctx, 'GEN/sampled-size')
  steps_by_decoding(ctx, 'GEN/steps-by-decoding')
  note_block_size(ctx, 'NOTEPERF/pitch-block-size')
  base = ctx.cls('encoder_decoder:EventSequenceEncoderDecoder')
  subs = iface.check_interface(ctx, base, 'IFACE/encoder-decoder')
  ctx.require(len(subs) >= 8, 'only %d concrete EventSequenceEncoderDecoder subclasses found' % len(subs))
  cond = ctx.cls('encoder_decoder:ConditionalEventSequenceEncoderDecoder')
  for name in ('input_size', 'num_classes', 'default_event_label', 'events_to_input', 'events_to_label', 'class_index_to_event', 'encode'):
    ok = name in cond.methods
    ctx.ob('IFACE/conditional', cond, cond.methods[name].node if ok else cond.node, ok, 'the conditional wrapper defines %s' % name if ok else 'ConditionalEventSequenceEncoderDecoder lacks %s' % name,
           construct='ConditionalEventSequenceEncoderDecoder.%s' % name)
  wide_label(ctx)      # location-independent rules first
  chord_labels(ctx)
  full_history(ctx)
  lookback(ctx, 'encoder_decoder:LookbackEventSequenceEncoderDecoder')
  lookback(ctx, 'melody_encoder_decoder:KeyMelodyEncoderDecoder')
  wrapper(ctx)
  conditional(ctx, cond)
  noteperf(ctx)
  pianoroll(ctx)
  sizes(ctx)
  encode_pairs(ctx)


# ------------------------------------------------------------------ lookback family
def _lb_loop(m):
  for n in m.node.body:
    if isinstance(n, ast.For) and isinstance(n.target, ast.Tuple) and len(n.target.elts) == 2 and 'self._lookback_distances' in norm_text(n.iter):
      return n
  return None


def early_distance(ctx, ci, enc, dec):
  """The encoder labels an early default event "repeat of the last lookback" while `position < D`; the decoder turns that label
  back into the default event while `len(events) < D'`.  D and D' must be the same distance (the last one in the list):
  with max(distances) on one side an unsorted list gives a label the decoder reads from real history.  Location-independent."""
  pos = enc.params()[2]
  dev = dec.params()[2]

  def distances(fn, subject):
    out = []
    for c in ast.walk(fn):
      if isinstance(c, ast.Compare) and len(c.ops) == 1 and isinstance(c.ops[0], (ast.Lt, ast.LtE)):
        l, r = c.left, c.comparators[0]
        for a, b in ((l, r), (r, l)):
          if norm_text(a) == subject and any(isinstance(n, ast.Attribute) and n.attr == '_lookback_distances' for n in ast.walk(b)) and \
              not any(isinstance(n, ast.Name) and n.id not in ('self', 'max', 'min', 'len') for n in ast.walk(b)):
            out.append((c, b))
    return out
  e = distances(enc.node, pos)
  if not e:
    return      # the early-default idiom is written differently: the anchored rules decide
  # the early label is the label of the *last* lookback (LOOKBACK/*/early-label), which the decoder maps to the default event
  # while len(events) < distances[-1]
  dtxt = {'self._lookback_distances[-1]', 'self._lookback_distances[len(self._lookback_distances) - 1]'}
  for c, b in e:
    ok = norm_text(b) in dtxt
    ctx.ob('LOOKBACK/%s/early-distance' % ci.qualname, enc, c, ok, 'the early-default test uses the distance the decoder tests (%s)' % norm_text(b) if ok else
           'the encoder labels early default events while position < %s, but the decoder maps that label back to the default event while len(events) < %s: '
           'for lookback lists where these differ the label decodes to an event from real history' % (norm_text(b), ' / '.join(sorted(dtxt))),
           construct='%s early-default distance: encoder == decoder' % ci.qualname, definite=True)


def lookback(ctx, cq):
  ci = ctx.cls(cq)
  enc, dec, nc = ci.methods['events_to_label'], ci.methods['class_index_to_event'], ci.methods['num_classes']
  early_distance(ctx, ci, enc, dec)
  ev, pos = enc.params()[1:3]
  cidx, dev = dec.params()[1:3]
  le, ld = _lb_loop(enc), _lb_loop(dec)
  tag = ci.qualname
  ctx.require(le is not None and ld is not None, '%s: lookback loops not found' % tag)
  for m, lp in ((enc, le), (dec, ld)):
    ok = norm_text(lp.iter).replace(' ', '') == 'reversed(list(enumerate(self._lookback_distances)))'
    ctx.ob('LOOKBACK/%s/order' % tag, m, lp, ok, 'lookbacks are tried farthest (last) first' if ok else
           '%s iterates the lookbacks as %s; encoder and decoder must both walk reversed(list(enumerate(lookbacks)))' % (m.name, norm_text(lp.iter)), construct='%s lookback order' % m.name)
  ie, de = [e.id for e in le.target.elts]
  idd, dd = [e.id for e in ld.target.elts]
  # encoder: if <history guard> and events[pos] == events[pos - d]: return RE(i)
  g = next((s for s in le.body if isinstance(s, ast.If)), None)
  ctx.require(g is not None, '%s.events_to_label: lookback test not found' % tag)
  env = {}
  for s in le.body:
    if isinstance(s, ast.Assign) and isinstance(s.targets[0], ast.Name):
      env[s.targets[0].id] = s.value
  conj = g.test.values if isinstance(g.test, ast.BoolOp) and isinstance(g.test.op, ast.And) else [g.test]
  hist = None
  eq = None
  for c in conj:
    if isinstance(c, ast.Compare) and isinstance(c.ops[0], ast.Eq):
      eq = c
    else:
      hist = c
  re_stmt = next((s for s in g.body if isinstance(s, ast.Return)), None)
  re_node = cov.resolve_value(enc.node, re_stmt.value, re_stmt) if re_stmt is not None else None
  ctx.require(re_node is not None and hist is not None and eq is not None, '%s.events_to_label: lookback branch is not "history guard and equality -> return label"' % tag)
  # decoder: if class_index == DE(i): if len(events) < d: return default; return events[-d]
  gd = next((s for s in ld.body if isinstance(s, ast.If)), None)
  ctx.require(gd is not None and isinstance(gd.test, ast.Compare) and isinstance(gd.test.ops[0], ast.Eq), '%s.class_index_to_event: lookback test not found' % tag)
  sides = [gd.test.left, gd.test.comparators[0]]
  de_node = next((x for x in sides if norm_text(x) != cidx), None)
  ok = False

  def consts_of(*nodes):
    """module-level integer constants mentioned in the expressions, folded (NUM_SPECIAL_MELODY_EVENTS is 2)"""
    env = {}
    fd_ = fold.Folder(ctx.P, ctx.S)
    for n_ in nodes:
      for nm in U.names_in(n_):
        try:
          v_ = fd_.module_const(ci.module, nm)
          if isinstance(v_, int) and not isinstance(v_, bool):
            env[nm] = ast.Constant(value=int(v_))
        except fold.Unknown:
          pass
    return env
  try:
    cenv0 = consts_of(re_node, de_node)
    RE = nf.Builder(dict(cenv0, **{ie: E('I')})).rat(re_node)
    DE = nf.Builder(dict(cenv0, **{idd: E('I')})).rat(de_node)
    ok = RE.equals(DE)
  except nf.NFError:
    RE = DE = None
  ctx.ob('LOOKBACK/%s/label-agreement' % tag, dec, gd, ok, 'the label of lookback i is the same expression in encoder and decoder' if ok else
         'the encoder returns %s for lookback i but the decoder tests %s: repeat labels decode to the wrong lookback (or to a plain event)' % (norm_text(re_node), norm_text(de_node)),
         construct='%s: label(i) encoder == decoder' % tag)
  # history guards are complements under position = len(events)
  short = next((s for s in gd.body if isinstance(s, ast.If)), None)
  okh = False
  if short is not None:
    try:
      ce = nf.compare_nf(hist, dict(env, **{pos: E('len(H)'), de: E('D')}))
      cd = nf.compare_nf(short.test, {dev: E('H'), dd: E('D')}, polarity=False)
      okh = nf.compare_equal(ce, cd)
    except nf.NFError:
      okh = False
  ctx.ob('LOOKBACK/%s/history-guard' % tag, dec, short or gd, okh, 'the decoder falls back to the default exactly when the encoder could not have looked back (len(events) < distance)' if okh else
         'the encoder\'s history guard (%s) is not the complement of the decoder\'s short-history test (%s) under position = len(events)' % (norm_text(hist), norm_text(short.test) if short else None),
         construct='%s: history guards complementary' % tag)
  # the compared / returned positions agree
  cmp_ok = False
  try:
    a, b = eq.left, eq.comparators[0]
    idxs = []
    for x in (a, b):
      if isinstance(x, ast.Subscript) and norm_text(x.value) == ev:
        idxs.append(nf.Builder(dict(env, **{de: E('D')})).rat(x.slice))
    cmp_ok = len(idxs) == 2 and any(r.equals(nf.rat(E(pos))) for r in idxs) and any(r.equals(nf.rat(E('%s - D' % pos))) for r in idxs)
  except nf.NFError:
    cmp_ok = False
  ctx.ob('LOOKBACK/%s/compared-position' % tag, enc, g, cmp_ok, 'the encoder compares events[position] with events[position - distance]' if cmp_ok else
         'the encoder does not compare events[position] with events[position - distance]', construct='%s: compares position with position - distance' % tag)
  rets = [s for s in gd.body if isinstance(s, ast.Return)]
  okr = len(rets) == 1 and isinstance(rets[0].value, ast.Subscript) and norm_text(rets[0].value.value) == dev and norm_text(rets[0].value.slice) == '-%s' % dd
  ctx.ob('LOOKBACK/%s/decoded-position' % tag, dec, rets[0] if rets else gd, okr, 'the decoder returns events[-distance], the same position seen from the end' if okr else
         'the decoder does not return events[-distance]', construct='%s: decodes events[-distance]' % tag)
  # early default label = label of the last lookback; default events agree
  early = next((s for s in enc.node.body if isinstance(s, ast.If) and any(isinstance(x, ast.Return) for x in s.body) and s.lineno < le.lineno), None)
  oke = False
  okd = False
  if early is not None and RE is not None:
    try:
      er = nf.rat(next(x.value for x in early.body if isinstance(x, ast.Return)))
      last = RE.subst({'I': nf.rat(E('len(self._lookback_distances) - 1'))})
      oke = er.equals(last)
    except nf.NFError:
      oke = False
    t = norm_text(early.test)
    dflt_e = None
    for c in ast.walk(early.test):
      sd = U.eq_sides(c, lambda a: norm_text(a) == '%s[%s]' % (ev, pos))
      if sd:
        dflt_e = norm_text(sd[1])
    dflt_d = norm_text(next((x.value for x in short.body if isinstance(x, ast.Return)), None)) if short is not None and short.body else None
    okd = dflt_e is not None and dflt_e == dflt_d and ('%s < self._lookback_distances[-1]' % pos) in t
  ctx.ob('LOOKBACK/%s/early-label' % tag, enc, early or enc.node, oke, 'before the last lookback distance a default event is labelled as "repeat last lookback"' if oke else
         'the early default-event label is not the label of the last lookback', construct='%s: early label == label(last lookback)' % tag)
  ctx.ob('LOOKBACK/%s/early-default' % tag, dec, short or dec.node, okd, 'that label decodes back to the same default event while the history is short' if okd else
         'the event assumed by the early label and the event the decoder returns for a short history differ', construct='%s: early label decodes to the default event' % tag)
  # num_classes = label(last) + 1
  r = [s for s in U.walk_stmts(nc.node) if isinstance(s, ast.Return)]
  okn = False
  if len(r) == 1 and RE is not None:
    try:
      cenv = {}
      fd = fold.Folder(ctx.P, ctx.S)
      for nm in U.names_in(r[0].value):
        try:
          v = fd.module_const(ci.module, nm)
          if isinstance(v, int):
            cenv[nm] = ast.Constant(value=int(v))
        except fold.Unknown:
          pass
      okn = nf.Builder(cenv).rat(r[0].value).equals(RE.subst({'I': nf.rat(E('len(self._lookback_distances) - 1'))}) + nf.rat(E('1')))
    except nf.NFError:
      okn = False
  ctx.ob('LOOKBACK/%s/num-classes' % tag, nc, r[0] if r else nc.node, okn, 'num_classes = largest label + 1' if okn else 'num_classes is not the label of the last lookback + 1',
         construct='%s: num_classes' % tag)
  # plain labels
  if tag == 'LookbackEventSequenceEncoderDecoder':
    le_ret = enc.node.body[-1]
    ld_ret = dec.node.body[-1]
    ok = isinstance(le_ret, ast.Return) and norm_text(le_ret.value) == 'self._one_hot_encoding.encode_event(%s[%s])' % (ev, pos) and \
        isinstance(ld_ret, ast.Return) and norm_text(ld_ret.value) == 'self._one_hot_encoding.decode_event(%s)' % cidx
    ctx.ob('LOOKBACK/%s/plain' % tag, enc, le_ret, ok, 'plain events use the one-hot encoding both ways' if ok else 'plain labels are not encode_event(events[position]) / decode_event(class_index)',
           construct='%s: plain label' % tag)
  else:
    ep = [(g_, e, rn) for (g_, e, rn) in iface.pieces(enc.node) if rn.lineno > le.lineno]
    dp = [(g_, d, rn) for (g_, d, rn) in iface.pieces(dec.node) if rn.lineno > ld.lineno]
    ok = len(ep) == 3 and len(dp) == 3
    if ok:
      try:
        # special events: same label constant for the same event
        for k in (0, 1):
          evt_e = [norm_text(U.eq_sides(c, lambda a: norm_text(a) == '%s[%s]' % (ev, pos))[1]) for (t, pol) in ep[k][0] for c in [t] if pol and isinstance(t, ast.Compare)][-1]
          lab_d = [U.eq_sides(c, lambda a: norm_text(a) == cidx)[1] for (t, pol) in dp[k][0] for c in [t] if pol and isinstance(t, ast.Compare)][-1]
          ok = ok and nf.rat(ep[k][1]).equals(nf.rat(lab_d)) and norm_text(dp[k][1]) == evt_e
        inv = nf.Builder({cidx: ep[2][1]}).rat(dp[2][1])
        ok = ok and inv.equals(nf.rat(E('%s[%s]' % (ev, pos))))
      except (nf.NFError, IndexError):
        ok = False
    ctx.ob('LOOKBACK/%s/plain' % tag, enc, enc.node, ok, 'note-off, no-event and pitch labels are inverse pieces' if ok else 'the plain label pieces of encoder and decoder are not inverses',
           construct='%s: plain label pieces' % tag)
    dl = ci.methods['default_event_label']
    r = [s for s in U.walk_stmts(dl.node) if isinstance(s, ast.Return)]
    ok = len(r) == 1 and len(ep) == 3 and nf.rat(r[0].value).equals(nf.rat(ep[1][1]))
    ctx.ob('LOOKBACK/%s/default-label' % tag, dl, r[0] if r else dl.node, ok, 'default_event_label is the label of no-event' if ok else 'default_event_label is not the label of MELODY_NO_EVENT')


# ------------------------------------------------------------------ wrappers
def wrapper(ctx):
  ci = ctx.cls('encoder_decoder:OneHotEventSequenceEncoderDecoder')
  m = ci.methods
  ev, pos = m['events_to_label'].params()[1:3]
  r = m['events_to_label'].node.body[-1]
  ok = isinstance(r, ast.Return) and norm_text(r.value) == 'self._one_hot_encoding.encode_event(%s[%s])' % (ev, pos)
  ctx.ob('WRAP/label', m['events_to_label'], r, ok, 'label = encode_event(events[position])' if ok else 'the one-hot wrapper label is not encode_event(events[position])')
  r = m['class_index_to_event'].node.body[-1]
  ok = isinstance(r, ast.Return) and norm_text(r.value) == 'self._one_hot_encoding.decode_event(%s)' % m['class_index_to_event'].params()[1]
  ctx.ob('WRAP/decode', m['class_index_to_event'], r, ok, 'event = decode_event(class_index)' if ok else 'the one-hot wrapper does not decode with decode_event(class_index)')
  e2, p2 = m['events_to_input'].params()[1:3]
  st = [s for s in U.walk_stmts(m['events_to_input'].node) if isinstance(s, ast.Assign) and isinstance(s.targets[0], ast.Subscript)]
  ok = len(st) == 1 and norm_text(st[0].targets[0].slice) == 'self._one_hot_encoding.encode_event(%s[%s])' % (e2, p2) and U.const_value(st[0].value) == 1
  alloc = [s for s in U.walk_stmts(m['events_to_input'].node) if isinstance(s, ast.Assign) and norm_text(s.value) == '[0.0] * self.input_size']
  ctx.ob('WRAP/input', m['events_to_input'], st[0] if st else m['events_to_input'].node, ok and len(alloc) == 1, 'the input is a zero vector of input_size with a single 1 at the event index' if ok and alloc else
         'the one-hot input is not [0]*input_size with exactly one 1 at encode_event(events[position])')
  for name in ('input_size', 'num_classes'):
    r = [s for s in U.walk_stmts(m[name].node) if isinstance(s, ast.Return)]
    ok = len(r) == 1 and norm_text(r[0].value) == 'self._one_hot_encoding.num_classes'
    ctx.ob('WRAP/' + name, m[name], r[0] if r else m[name].node, ok, '%s = one_hot.num_classes' % name if ok else '%s is not the number of one-hot classes' % name)
  r = [s for s in U.walk_stmts(m['default_event_label'].node) if isinstance(s, ast.Return)]
  ok = len(r) == 1 and norm_text(r[0].value).replace(' ', '') == 'self._one_hot_encoding.encode_event(self._one_hot_encoding.default_event)'
  ctx.ob('WRAP/default', m['default_event_label'], r[0] if r else m['default_event_label'].node, ok, 'default label = encode_event(default_event)' if ok else 'default_event_label is not the label of the default event')


def conditional(ctx, ci):
  m = ci.methods
  ei = m['events_to_input']
  c_ev, t_ev, pos = ei.params()[1:4]
  r = ei.node.body[-1]
  parts = []
  if isinstance(r, ast.Return) and isinstance(r.value, ast.BinOp) and isinstance(r.value.op, ast.Add):
    # the two halves may be named in locals first
    parts = [U.expand_locals(ei.node, r.value.left, at=r), U.expand_locals(ei.node, r.value.right, at=r)]
  ok = len(parts) == 2 and all(isinstance(p_, ast.Call) for p_ in parts) and norm_text(parts[0].func) == 'self._control_encoder_decoder.events_to_input' and norm_text(parts[1].func) == 'self._target_encoder_decoder.events_to_input'
  okp = False
  if ok:
    try:
      okp = norm_text(parts[0].args[0]) == c_ev and nf.rat(parts[0].args[1]).equals(nf.rat(E('%s + 1' % pos))) and \
          norm_text(parts[1].args[0]) == t_ev and nf.rat(parts[1].args[1]).equals(nf.rat(E(pos)))
    except nf.NFError:
      okp = False
  ctx.ob('COND/input-order', ei, r, ok, 'input = control input followed by target input' if ok else 'the conditional input is not control input + target input')
  ctx.ob('COND/positions', ei, r, okp, 'control is read at position + 1, target at position' if okp else
         'the control sequence is not read one position ahead of the target (control at position + 1, target at position)')
  for name, arg in (('events_to_label', None), ('class_index_to_event', None), ('labels_to_num_steps', None)):
    mm = m[name]
    r = mm.node.body[-1]
    ok = isinstance(r, ast.Return) and isinstance(r.value, ast.Call) and norm_text(r.value.func) == 'self._target_encoder_decoder.%s' % name and \
        [norm_text(a) for a in r.value.args] == mm.params()[1:]
    ctx.ob('COND/target-delegation', mm, r, ok, '%s is delegated to the target encoder with the same arguments' % name if ok else '%s is not delegated unchanged to the target encoder' % name)
  for name in ('num_classes', 'default_event_label'):
    r = [s for s in U.walk_stmts(m[name].node) if isinstance(s, ast.Return)]
    ok = len(r) == 1 and norm_text(r[0].value) == 'self._target_encoder_decoder.%s' % name
    ctx.ob('COND/target-delegation', m[name], r[0] if r else m[name].node, ok, '%s is the target encoder\'s' % name if ok else '%s is not taken from the target encoder' % name)
  r = [s for s in U.walk_stmts(m['input_size'].node) if isinstance(s, ast.Return)]
  ok = len(r) == 1 and nf.rat(r[0].value).equals(nf.rat(E('self._control_encoder_decoder.input_size + self._target_encoder_decoder.input_size')))
  ctx.ob('SIZE/conditional', m['input_size'], r[0] if r else m['input_size'].node, ok, 'input_size = control + target' if ok else 'input_size is not the sum of the control and target input sizes')


# ------------------------------------------------------------------ note performance
def noteperf(ctx):
  ci = ctx.cls('performance_encoder_decoder:NotePerformanceEventSequenceEncoderDecoder')
  enc, dec = ci.methods['_encode_event'], ci.methods['class_index_to_event']
  evp = enc.params()[1]
  env = {}
  for s in enc.node.body:
    if isinstance(s, ast.Assign) and isinstance(s.targets[0], ast.Name):
      env[s.targets[0].id] = s.value
  ret = enc.node.body[-1]
  ctx.require(isinstance(ret, ast.Return) and isinstance(ret.value, ast.Tuple) and len(ret.value.elts) == 6, 'NotePerformance._encode_event: 6-tuple not found')
  comps = [cov.resolve_value(enc.node, e, ret, depth=1) for e in ret.value.elts]
  # `major, minor = divmod(v, S)` is the same split as (v // S, v % S)
  dm = {}
  for s_ in U.walk_stmts(enc.node):
    if isinstance(s_, ast.Assign) and len(s_.targets) == 1 and isinstance(s_.targets[0], ast.Tuple) and len(s_.targets[0].elts) == 2 and \
        all(isinstance(e, ast.Name) for e in s_.targets[0].elts) and isinstance(s_.value, ast.Call) and dotted(s_.value.func) == 'divmod' and len(s_.value.args) == 2:
      v_, s2 = s_.value.args
      dm[s_.targets[0].elts[0].id] = ast.BinOp(left=v_, op=ast.FloorDiv(), right=s2)
      dm[s_.targets[0].elts[1].id] = ast.BinOp(left=v_, op=ast.Mod(), right=s2)
  comps = [dm.get(c.id, c) if isinstance(c, ast.Name) else c for c in comps]
  comps = [dm.get(e.id, c) if isinstance(e, ast.Name) and e.id in dm else c for e, c in zip(ret.value.elts, comps)]
  denv = {}
  cin = dec.params()[1]
  for s in dec.node.body:
    if isinstance(s, ast.Assign) and isinstance(s.targets[0], ast.Name):
      denv[s.targets[0].id] = s.value
  alias = [k for k, v in denv.items() if norm_text(v) == cin]
  ci_name = alias[0] if alias else cin
  dret = dec.node.body[-1]
  ctx.require(isinstance(dret, ast.Return) and isinstance(dret.value, ast.Tuple) and len(dret.value.elts) == 4, 'NotePerformance.class_index_to_event: 4-tuple not found')
  dvals = []
  for e in dret.value.elts:
    v = e.args[1] if isinstance(e, ast.Call) and len(e.args) == 2 else None
    dvals.append(cov.resolve_value(dec.node, v, dret, depth=1) if v is not None else None)

  def divmod_pair(i_major, i_minor, dval, what):
    a, b = comps[i_major], comps[i_minor]
    ok = isinstance(a, ast.BinOp) and isinstance(a.op, ast.FloorDiv) and isinstance(b, ast.BinOp) and isinstance(b.op, ast.Mod) and \
        norm_text(a.right) == norm_text(b.right)
    why = '%s is not split with // and %% by one segment size' % what
    if ok:
      try:
        bld = nf.Builder(dict(env))
        V = bld.rat(a.left)
        ok = V.equals(bld.rat(b.left))
        S = nf.rat(a.right)
        d = nf.Builder({}).rat(dval)
        want = nf.rat(E('%s[%d]' % (ci_name, i_major))) * S + nf.rat(E('%s[%d]' % (ci_name, i_minor)))
        c = (d - want).const_value()
        src = nf.rat(E('%s[%d].event_value' % (evp, {0: 0, 4: 3}[i_major])))
        c2 = (src - V).const_value()
        ok = ok and c is not None and c2 is not None and c == c2
        why = ('decode = major * %s + minor + %s but encode splits value - %s' % (norm_text(a.right), c, c2)) if not ok else ''
      except (nf.NFError, KeyError):
        ok = False
    ctx.ob('NOTEPERF/' + what, dec, dret, ok, '%s: (v // S, v %% S) <-> major * S + minor with the same S and offset' % what if ok else
           'note-performance %s: %s' % (what, why), construct='note-performance %s divmod pair' % what, depends=[enc])

  divmod_pair(0, 1, dvals[0], 'time-shift')
  divmod_pair(4, 5, dvals[3], 'duration')
  for k, (i, what) in enumerate(((2, 'pitch'), (3, 'velocity'))):
    ok = False
    try:
      enc_r = nf.Builder(dict(env)).rat(comps[i])
      dec_r = nf.Builder({}).rat(dvals[1 + k]).subst({'%s[%d]' % (ci_name, i): enc_r})
      ok = dec_r.equals(nf.rat(E('%s[%d].event_value' % (evp, 1 + k))))
    except nf.NFError:
      ok = False
    ctx.ob('NOTEPERF/' + what, dec, dret, ok, '%s offset is added back by the decoder' % what if ok else 'note-performance %s: decode(encode(v)) != v' % what, construct='note-performance %s offset pair' % what, depends=[enc])
  isz = ci.methods['input_size']
  r = [s for s in U.walk_stmts(isz.node) if isinstance(s, ast.Return)]
  ok = len(r) == 1 and norm_text(r[0].value) == 'sum(self._num_classes)'
  ctx.ob('SIZE/note-performance', isz, r[0] if r else isz.node, ok, 'input_size = sum of the six block widths' if ok else 'input_size is not sum(self._num_classes)')
  init = ci.methods['__init__']
  lst = [s for s in U.walk_stmts(init.node) if isinstance(s, ast.Assign) and norm_text(s.targets[0]) == 'self._num_classes' and isinstance(s.value, ast.List)]
  ok = len(lst) == 1 and len(lst[0].value.elts) == 6
  ctx.ob('NOTEPERF/blocks', init, lst[0] if lst else init.node, ok, 'six one-hot blocks for the six label components' if ok else 'the number of one-hot blocks differs from the six label components')
  ei = ci.methods['events_to_input']
  # whatever the loop variable is called: [0.0] * self._num_classes[<index>]
  ok = any(isinstance(s, ast.Assign) and isinstance(s.value, ast.BinOp) and isinstance(s.value.op, ast.Mult) and norm_text(s.value.left) == '[0.0]' and
           isinstance(s.value.right, ast.Subscript) and norm_text(s.value.right.value) == 'self._num_classes' and isinstance(s.value.right.slice, ast.Name)
           for s in U.walk_stmts(ei.node))
  ctx.ob('NOTEPERF/blocks', ei, ei.node, ok, 'block i has width _num_classes[i]' if ok else 'the one-hot blocks are not sized by _num_classes[i]', construct='note-performance block widths')


def full_history(ctx):
  """Location-independent: class_index_to_event(label, events) reads events[-d] for every listed lookback distance d, in whatever
  order the distances are listed.  The history handed to it in labels_to_num_steps must therefore be the complete list of events
  generated so far, or a bounded one whose bound is the *maximum* distance; a deque bounded by one positional element of the
  list (`[-1]`, `[0]`) is too short as soon as the distances are not listed in ascending order."""
  for cq in ('encoder_decoder:LookbackEventSequenceEncoderDecoder', 'melody_encoder_decoder:KeyMelodyEncoderDecoder'):
    ci = ctx.cls(cq)
    m = ci.methods.get('labels_to_num_steps')
    if m is None:
      continue
    fn = m.node
    for c in U.calls_in(fn):
      if not (isinstance(c.func, ast.Attribute) and c.func.attr == 'class_index_to_event' and len(c.args) >= 2 and isinstance(c.args[1], ast.Name)):
        continue
      h = c.args[1].id
      defs = [s for s in U.walk_stmts(fn) if isinstance(s, ast.Assign) and len(s.targets) == 1 and isinstance(s.targets[0], ast.Name) and s.targets[0].id == h]
      for d in defs:
        v = d.value
        if isinstance(v, ast.Call) and (dotted(v.func) or '').split('.')[-1] == 'deque':
          ml = next((k.value for k in v.keywords if k.arg == 'maxlen'), v.args[1] if len(v.args) > 1 else None)
          if ml is None or U.const_value(ml) is None and norm_text(ml) == 'None':
            continue
          mxs = [U.expand_locals(fn, ml, at=d)]
          if isinstance(mxs[0], ast.Name):       # bound on several paths (if / else): every binding counts
            mxs = [s.value for s in U.walk_stmts(fn) if isinstance(s, ast.Assign) and len(s.targets) == 1 and norm_text(s.targets[0]) == mxs[0].id]
          is_max = bool(mxs) and all(any(isinstance(x, ast.Call) and dotted(x.func) == 'max' for x in ast.walk(mx)) or U.const_value(mx) is not None for mx in mxs) and \
              any(any(isinstance(x, ast.Call) and dotted(x.func) == 'max' for x in ast.walk(mx)) for mx in mxs)
          positional = [x for mx in mxs for x in ast.walk(mx) if isinstance(x, ast.Subscript) and norm_text(x.value).endswith('_lookback_distances') and U.const_value(x.slice) is not None]
          if positional and not is_max:
            ctx.ob('GEN/full-history', m, d, False, 'the history given to class_index_to_event is a deque bounded by %s, one positional entry of the lookback list: with distances not '
                   'listed in ascending order (e.g. [2, 1]) a repeat of the longer distance finds too little history and decodes to the default event, so labels_to_num_steps '
                   'differs from the steps of the sequence the generation loop builds' % norm_text(positional[0]), construct='history handed to class_index_to_event', definite=True)
          elif is_max:
            ctx.ob('GEN/full-history', m, d, True, 'the history is bounded by the maximum lookback distance', construct='history handed to class_index_to_event', definite=True)
        elif isinstance(v, (ast.List,)) and not v.elts:
          ctx.ob('GEN/full-history', m, d, True, 'the history is the complete list of events generated so far', construct='history handed to class_index_to_event', definite=True)


def chord_labels(ctx):
  """The generation loop turns every in-range label into an event through the one-hot encoding's decode_event; for the chord
  encodings the split of a label into (quality, root) is the rule of C09 (shared): label 12k is the chord on B of quality k-1."""
  from rules import C09
  mi = ctx.P.module('chords_encoder_decoder')
  env0 = C09._fold_env(ctx, mi, ['NOTES_PER_OCTAVE'])
  for cname in ('MajorMinorChordOneHotEncoding', 'TriadChordOneHotEncoding'):
    dec = mi.classes[cname].methods['decode_event']
    C09.block_split(ctx, dec, dec.params()[1], env0, cname, rule='GEN/chord-label-split')


# ------------------------------------------------------------------ pianoroll
def wide_label(ctx):
  """Location-independent (a type rule): a pianoroll label is a bit mask over input_size pitches, num_classes = 2**input_size
  (2**88 by default): it only fits Python's unbounded int.  numpy integer arrays are fixed-width (at most 64 bits), so
  2**<array> wraps for exponents >= 63 and <int> >> <array> / <int> & <array> refuse an int >= 2**63.  Wherever the label is
  computed or taken apart, no operand may be a numpy value."""
  ci = ctx.cls('pianoroll_encoder_decoder:PianorollEncoderDecoder')
  for name, what in (('_event_to_label', 'computed'), ('class_index_to_event', 'taken apart')):
    m = ci.methods.get(name)
    if m is None:
      continue
    fn = m.node
    np_names = set()
    changed = True

    def is_np(x):
      return any((isinstance(n, ast.Call) and (dotted(n.func) or '').split('.')[0] in ('np', 'numpy')) or (isinstance(n, ast.Name) and n.id in np_names)
                 for n in ast.walk(x))
    while changed:
      changed = False
      for s in U.walk_stmts(fn):
        for tgt, val, _op in U.store_targets(s):
          if isinstance(tgt, ast.Name) and val is not None and tgt.id not in np_names and is_np(val):
            np_names.add(tgt.id)
            changed = True
    label_names = set(m.params()[1:2]) if name == 'class_index_to_event' else set()
    bad = []
    for n in ast.walk(fn):
      if isinstance(n, ast.BinOp) and isinstance(n.op, ast.Pow) and U.const_value(n.left) == 2 and is_np(n.right):
        bad.append((n, '2**<numpy array> is computed in a fixed-width integer type'))
      elif isinstance(n, ast.BinOp) and isinstance(n.op, (ast.RShift, ast.BitAnd, ast.Mod, ast.FloorDiv)) and isinstance(n.left, ast.Name) and n.left.id in label_names and is_np(n.right):
        bad.append((n, 'the label (up to 2**input_size) is combined with a numpy array, which holds at most 64-bit integers'))
      elif isinstance(n, ast.Call) and (dotted(n.func) or '').split('.')[0] in ('np', 'numpy') and any(
          isinstance(a, ast.Name) and a.id in label_names for a in n.args):
        bad.append((n, 'the label (up to 2**input_size) is converted to a numpy value'))
    for n, why in bad:
      ctx.ob('PIANOROLL/wide-label', m, n, False, '%s: %s; with the default input_size of 88 every event with a pitch index >= 63 gets a wrong label or raises' % (norm_text(n), why),
             construct='the label is %s in unbounded Python integers' % what, definite=True)
    if not bad:
      ctx.ob('PIANOROLL/wide-label', m, fn, True, 'the label is %s without numpy operands' % what, construct='the label is %s in unbounded Python integers' % what, definite=True)


def pianoroll(ctx):
  ci = ctx.cls('pianoroll_encoder_decoder:PianorollEncoderDecoder')
  el = ci.methods['_event_to_label']
  aug = [s for s in U.walk_stmts(el.node) if isinstance(s, ast.AugAssign)]
  ok = len(aug) == 1 and isinstance(aug[0].op, ast.Add) and isinstance(aug[0].value, ast.BinOp) and isinstance(aug[0].value.op, ast.Pow) and U.const_value(aug[0].value.left) == 2
  ctx.ob('PIANOROLL/label', el, aug[0] if aug else el.node, ok, 'label = sum of 2**pitch' if ok else 'the pianoroll label is not the sum of 2**pitch over the active pitches')
  de = ci.methods['class_index_to_event']
  cidx = de.params()[1]
  lp = next((n for n in de.node.body if isinstance(n, ast.For)), None)
  ok = False
  if lp is not None and isinstance(lp.iter, ast.Call) and dotted(lp.iter.func) == 'range' and norm_text(lp.iter.args[0]) == 'self.input_size':
    i = lp.target.id
    tst = [s for s in lp.body if isinstance(s, ast.If)]
    sh = [s for s in lp.body if isinstance(s, ast.AugAssign)]
    ok = len(tst) == 1 and norm_text(tst[0].test) == '%s %% 2' % cidx and any('append(%s)' % i in norm_text(x) for x in tst[0].body) and \
        len(sh) == 1 and isinstance(sh[0].op, ast.RShift) and U.const_value(sh[0].value) == 1 and norm_text(sh[0].target) == cidx
  ctx.ob('PIANOROLL/decode', de, lp or de.node, ok, 'bit i of the label is pitch i (LSB first)' if ok else 'the pianoroll decoder does not read bit i of the label as pitch i')
  nc = ci.methods['num_classes']
  r = [s for s in U.walk_stmts(nc.node) if isinstance(s, ast.Return)]
  ok = len(r) == 1 and norm_text(r[0].value) == '2 ** self.input_size'
  ctx.ob('PIANOROLL/num-classes', nc, r[0] if r else nc.node, ok, 'num_classes = 2 ** input_size' if ok else 'num_classes is not 2 ** input_size')


# ------------------------------------------------------------------ S3 sizes
TRIPS = {
    'self._lookback_distances': 'len(self._lookback_distances)',
    'enumerate(self._lookback_distances)': 'len(self._lookback_distances)',
    'range(self._binary_counter_bits)': 'self._binary_counter_bits',
    # Melody.get_major_key_histogram returns np.zeros(NOTES_PER_OCTAVE): checked below
    'enumerate(key_histogram)': 'NOTES_PER_OCTAVE',
}


def _written_width(m, offset_name):
  total = nf.rat(E('0'))
  # the running offset is counted through `offset += e` / `offset = offset + e`; any other way of moving it (the return value of a
  # helper, slots addressed as offset + k without advancing) is not counted here
  for st in U.walk_stmts(m.node):
    for tgt, val, op in U.store_targets(st):
      if isinstance(tgt, ast.Name) and tgt.id == offset_name and not (op == 'aug:Add' or (op == 'store' and val is not None and (U.const_value(val) == 0 or (
          isinstance(val, ast.BinOp) and isinstance(val.op, ast.Add) and offset_name in U.names_in(val))))):
        return None, 'cannot classify: the offset is also moved by `%s`' % norm_text(st)[:60]
  nested_writes = [f for f in ast.walk(m.node) if isinstance(f, ast.FunctionDef) and f is not m.node]
  if nested_writes:
    return None, 'cannot classify: part of the vector is written by the nested helper %s' % nested_writes[0].name
  for st in U.walk_stmts(m.node):
    inc = None
    if isinstance(st, ast.AugAssign) and isinstance(st.op, ast.Add) and norm_text(st.target) == offset_name:
      inc = nf.rat(st.value)
    elif isinstance(st, ast.Assign) and len(st.targets) == 1 and norm_text(st.targets[0]) == offset_name and offset_name in U.names_in(st.value):
      try:
        inc = nf.rat(st.value) - nf.rat(E(offset_name))      # offset = offset + e
        if offset_name in inc.atoms():
          inc = None
      except nf.NFError:
        inc = None
    if inc is not None:
      w = inc
      for lp in U.enclosing_loops(m.node, st):
        trip = TRIPS.get(norm_text(lp.iter).replace(' ', '').replace('enumerate(', 'enumerate(')) or TRIPS.get(norm_text(lp.iter))
        if trip is None:
          # the histogram under another local name: read the loop's iterable through its reaching definition
          it_ = lp.iter.args[0] if isinstance(lp.iter, ast.Call) and norm_text(lp.iter.func) == 'enumerate' and lp.iter.args else lp.iter
          d_ = U.reaching_def(m.node, it_.id, lp) if isinstance(it_, ast.Name) else None
          if isinstance(d_, ast.Call) and isinstance(d_.func, ast.Attribute) and d_.func.attr == 'get_major_key_histogram':
            trip = 'NOTES_PER_OCTAVE'
        if trip is None and isinstance(lp.iter, (ast.Tuple, ast.List)):
          trip = str(len(lp.iter.elts))
        if trip is None:
          return None, 'cannot classify: loop over %s has no known trip count' % norm_text(lp.iter)
        w = w * nf.rat(E(trip))
      if any(True for _ in U.enclosing_tests(m.node, st, stop_at=(U.enclosing_loops(m.node, st) or [None])[-1])):
        return None, 'the offset is advanced conditionally'
      total = total + w
  return total, ''


def _seq_len(fn, e, at, depth=0):
  """('=', normal form) when the sequence expression has exactly that many elements, ('>=', text) when it has at least that many and
  possibly more (a number formatted with a *minimum* width), None when unknown."""
  if depth > 5:
    return None
  if isinstance(e, ast.Name):
    d = U.reaching_def(fn, e.id, at)
    return _seq_len(fn, d, at, depth + 1) if d is not None else None
  if isinstance(e, ast.Subscript) and isinstance(e.slice, ast.Slice) and e.slice.lower is None and e.slice.upper is None:
    return _seq_len(fn, e.value, at, depth + 1)        # x[::-1], x[:]
  if isinstance(e, (ast.ListComp, ast.GeneratorExp)) and len(e.generators) == 1 and not e.generators[0].ifs:
    return _seq_len(fn, e.generators[0].iter, at, depth + 1)
  if isinstance(e, ast.Call):
    d = dotted(e.func) or ''
    if d in ('list', 'tuple', 'reversed', 'enumerate', 'sorted') and e.args:
      return _seq_len(fn, e.args[0], at, depth + 1)
    if d == 'range' and len(e.args) == 1:
      try:
        return ('=', nf.rat(e.args[0]))
      except nf.NFError:
        return None
    if d == 'format' and len(e.args) == 2:
      return ('>=', norm_text(e))
    if isinstance(e.func, ast.Attribute) and e.func.attr in ('zfill', 'rjust', 'ljust', 'center'):
      return ('>=', norm_text(e))
    if isinstance(e.func, ast.Attribute) and e.func.attr == 'get_major_key_histogram':
      return ('=', nf.rat(E('NOTES_PER_OCTAVE')))
  if isinstance(e, ast.BinOp) and isinstance(e.op, ast.Mod) and isinstance(e.left, ast.Constant) and isinstance(e.left.value, str):
    return ('>=', norm_text(e))
  if isinstance(e, ast.BinOp) and isinstance(e.op, ast.Mult):
    for a, b in ((e.left, e.right), (e.right, e.left)):
      if isinstance(a, ast.List) and len(a.elts) == 1:
        try:
          return ('=', nf.rat(b))
        except nf.NFError:
          return None
  if isinstance(e, (ast.List, ast.Tuple)):
    return ('=', nf.rat(E(str(len(e.elts)))))
  return None


def slice_store_widths(ctx, ei, vec, rule):
  """A block written with one slice store `vec[a:b] = values` must receive exactly b - a values: a Python list *grows* when a longer
  list is assigned to a slice (and an array refuses it), so the vector no longer has input_size entries."""
  fn = ei.node
  for st in U.walk_stmts(fn):
    if not (isinstance(st, ast.Assign) and len(st.targets) == 1 and isinstance(st.targets[0], ast.Subscript) and isinstance(st.targets[0].slice, ast.Slice) and
            norm_text(st.targets[0].value) == vec):
      continue
    sl = st.targets[0].slice
    cons = '%s: %s receives as many values as the slice is wide' % (ei.qualname, norm_text(st.targets[0])[:50])
    try:
      width = nf.rat(sl.upper) - nf.rat(sl.lower) if sl.lower is not None and sl.upper is not None and sl.step is None else None
    except nf.NFError:
      width = None
    ln = _seq_len(fn, st.value, st)
    if width is None or ln is None:
      why = 'cannot classify: the number of values stored into %s' % norm_text(st.targets[0])[:60]
      ctx.ob(rule, ei, st, False, why, construct=cons, unknown=why)
    elif ln[0] == '>=':
      ctx.ob(rule, ei, st, False, 'the values stored into %s come from %s, a text padded to a *minimum* width: a number with more digits gives more values than the slice is wide, and the '
             'vector then has more than input_size entries (the original loop kept only the low bits)' % (norm_text(st.targets[0])[:50], ln[1][:60]), construct=cons, definite=True)
    else:
      ok = ln[1].equals(width)
      ctx.ob(rule, ei, st, ok, 'the slice is as wide as the values stored into it' if ok else '%s values are stored into a slice %s wide' % (ln[1], width), construct=cons, definite=not ok)


def default_event_in_range(ctx, rule='DEFAULT/event-of-the-encoding'):
  """The default event of PerformanceOneHotEncoding (what a lookback encoder uses for a history that is too short) must be an event
  of that encoding, whatever limits it was built with: a time shift of self._max_shift_steps (the upper end of the configured
  range) or of 1 (its lower end).  A module constant is in range only for encodings whose limit is at least that constant."""
  ci = ctx.cls('performance_encoder_decoder:PerformanceOneHotEncoding')
  m = ci.methods.get('default_event')
  cons = 'PerformanceOneHotEncoding.default_event lies in the configured time-shift range'
  calls = [c for c in ast.walk(m.node) if isinstance(c, ast.Call) and (dotted(c.func) or '').split('.')[-1] == 'PerformanceEvent'] if m is not None else []
  if len(calls) != 1:
    why = 'cannot classify: default_event does not build exactly one PerformanceEvent'
    ctx.ob(rule, ci, m.node if m is not None else ci.node, False, why, construct=cons, unknown=why)
    return
  c = calls[0]
  val = next((k.value for k in c.keywords if k.arg == 'event_value'), c.args[1] if len(c.args) > 1 else None)
  typ = next((k.value for k in c.keywords if k.arg == 'event_type'), c.args[0] if c.args else None)
  if val is None or typ is None or not norm_text(typ).endswith('TIME_SHIFT'):
    why = 'cannot classify: the default event is not a TIME_SHIFT built with an explicit value'
    ctx.ob(rule, m, c, False, why, construct=cons, unknown=why)
    return
  vx = U.expand_locals(m.node, val, at=c)
  k = U.const_value(vx)
  if norm_text(vx) == 'self._max_shift_steps' or k == 1:
    ctx.ob(rule, m, c, True, 'the default event is TIME_SHIFT(%s), an end of the configured range' % norm_text(vx), construct=cons)
  elif isinstance(k, int):
    ctx.ob(rule, m, c, False, 'the default event is TIME_SHIFT(%d) whatever max_shift_steps the encoding was built with: for a limit below %d it is not an event of the encoding - a lookback '
           'encoder with a short history writes outside its blocks or raises, and the label of a repeat decodes to an event that cannot be encoded again' % (k, k), construct=cons, definite=True)
  else:
    why = 'cannot classify: the value %s of the default time shift' % norm_text(vx)
    ctx.ob(rule, m, c, False, why, construct=cons, unknown=why)


def sizes(ctx):
  for cq in ('encoder_decoder:LookbackEventSequenceEncoderDecoder', 'melody_encoder_decoder:KeyMelodyEncoderDecoder'):
    ci = ctx.cls(cq)
    ei, isz = ci.methods['events_to_input'], ci.methods['input_size']
    vec_ = [norm_text(r_.value) for r_ in ast.walk(ei.node) if isinstance(r_, ast.Return) and isinstance(r_.value, ast.Name)]
    if vec_:
      slice_store_widths(ctx, ei, vec_[-1], 'SIZE/slice-store-width')
    offs = [s.targets[0].id for s in ei.node.body if isinstance(s, ast.Assign) and isinstance(s.targets[0], ast.Name) and U.const_value(s.value) == 0 and
            any(isinstance(x, ast.AugAssign) and norm_text(x.target) == s.targets[0].id for x in ast.walk(ei.node))]
    ctx.require(len(offs) == 1, '%s.events_to_input: offset variable not found' % ci.qualname)
    total, why = _written_width(ei, offs[0])
    env = {}
    for s in isz.node.body:
      if isinstance(s, ast.Assign) and isinstance(s.targets[0], ast.Name):
        env[s.targets[0].id] = s.value
    r = [s for s in U.walk_stmts(isz.node) if isinstance(s, ast.Return)]
    ok = total is not None and len(r) == 1 and nf.Builder(env).rat(r[0].value).equals(total)
    ctx.ob('SIZE/' + ci.qualname, isz, r[0] if r else isz.node, ok, 'input_size equals the sum of the block widths written by events_to_input (%r)' % (total,) if ok else
           '%s.input_size is %s but events_to_input advances its offset by %s in total%s: vectors have the wrong length or blocks overlap' % (
               ci.qualname, norm_text(r[0].value) if r else None, total, (' (' + why + ')') if why else ''), construct='%s: input_size == written width' % ci.qualname,
           unknown=why if (total is None and why and why.startswith('cannot classify')) else None)
  mh = ctx.func('melodies_lib:Melody.get_major_key_histogram')
  ok = any(norm_text(s.value) == 'np.zeros(NOTES_PER_OCTAVE)' for s in U.walk_stmts(mh.node) if isinstance(s, ast.Assign))
  ctx.ob('SIZE/key-histogram', mh, mh.node, ok, 'the key histogram has NOTES_PER_OCTAVE entries' if ok else 'the key histogram is not allocated with NOTES_PER_OCTAVE entries', construct='key histogram width')


def encode_pairs(ctx):
  for cq, evs in (('encoder_decoder:EventSequenceEncoderDecoder', None), ('encoder_decoder:ConditionalEventSequenceEncoderDecoder', None)):
    ci = ctx.cls(cq)
    m = ci.methods['encode']
    lp = next((n for n in m.node.body if isinstance(n, ast.For)), None)
    ok = False
    if lp is not None and isinstance(lp.iter, ast.Call) and dotted(lp.iter.func) == 'range':
      i = lp.target.id
      tgt = m.params()[-1]
      okr = nf.rat(lp.iter.args[0]).equals(nf.rat(E('len(%s) - 1' % tgt)))
      calls = {norm_text(c.func): c for c in U.calls_in(lp)}
      ci_call = calls.get('self.events_to_input')
      cl_call = calls.get('self.events_to_label')
      ok = okr and ci_call is not None and cl_call is not None and norm_text(ci_call.args[-1]) == i and nf.rat(cl_call.args[-1]).equals(nf.rat(E('%s + 1' % i)))
    ctx.ob('ENCODE/aligned-pairs', m, lp or m.node, ok, 'encode yields len - 1 pairs (input at i, label at i + 1)' if ok else
           '%s.encode does not pair the input at i with the label at i + 1 for i in range(len - 1)' % ci.qualname, construct='%s.encode pairs' % ci.qualname)


MUTANTS = [
    Mutant('lookback decoder tests the wrong label', ED, "      if class_index == self._one_hot_encoding.num_classes + i:", "      if class_index == self._one_hot_encoding.num_classes + i + 1:", rule='LOOKBACK/'),
    Mutant('lookback decoder iterates forward', ED, "    # Repeat N bar ago.\n    for i, lookback_distance in reversed(\n        list(enumerate(self._lookback_distances))):", "    # Repeat N bar ago.\n    for i, lookback_distance in list(enumerate(self._lookback_distances)):", rule='LOOKBACK/'),
    Mutant('lookback decoder history test inclusive', ED, "        if len(events) < lookback_distance:\n          return self._one_hot_encoding.default_event", "        if len(events) <= lookback_distance:\n          return self._one_hot_encoding.default_event", rule='LOOKBACK/'),
    Mutant('lookback encoder history guard strict', ED, "      lookback_position = position - lookback_distance\n      if (lookback_position >= 0 and\n          events[position] == events[lookback_position]):\n        return self._one_hot_encoding.num_classes + i",
           "      lookback_position = position - lookback_distance\n      if (lookback_position > 0 and\n          events[position] == events[lookback_position]):\n        return self._one_hot_encoding.num_classes + i", rule='LOOKBACK/'),
    Mutant('lookback num_classes one short', ED, "    return self._one_hot_encoding.num_classes + len(self._lookback_distances)", "    return self._one_hot_encoding.num_classes + len(self._lookback_distances) - 1", rule='LOOKBACK/'),
    Mutant('lookback decoder returns the neighbour', ED, "        return events[-lookback_distance]\n\n    # Return the event for that class index.", "        return events[-lookback_distance + 1]\n\n    # Return the event for that class index.", rule='LOOKBACK/'),
    Mutant('key melody encoder offset 1', ME, "        return self._note_range + 2 + i", "        return self._note_range + 1 + i", rule='LOOKBACK/'),
    Mutant('key melody early label off by one', ME, "      return self._note_range + len(self._lookback_distances) + 1", "      return self._note_range + len(self._lookback_distances)", rule='LOOKBACK/'),
    Mutant('key melody decoder pitch offset', ME, "    return self._min_note + class_index", "    return self._min_note + class_index + 1", rule='LOOKBACK/'),
    Mutant('key melody input_size forgets the lookback flags', ME, "            len(self._lookback_distances) +   # whether note matches lookbacks\n", "", rule='SIZE/'),
    Mutant('lookback input_size forgets the repeat flags', ED, "            self._binary_counter_bits +     # binary counters\n            num_lookbacks)                  # whether event matches lookbacks", "            self._binary_counter_bits)     # binary counters", rule='SIZE/'),
    Mutant('conditional control read at position', ED, "            control_events, position + 1) +", "            control_events, position) +", rule='COND/positions'),
    Mutant('conditional decodes with the control encoder', ED, "    return self._target_encoder_decoder.class_index_to_event(\n        class_index, target_events)", "    return self._control_encoder_decoder.class_index_to_event(\n        class_index, target_events)", rule='COND/target-delegation'),
    Mutant('one-hot wrapper labels the previous event', ED, "    return self._one_hot_encoding.encode_event(events[position])\n\n  def class_index_to_event(self, class_index, events):\n    \"\"\"Returns the event for the given class index.\n\n    This is the reverse process of the self.events_to_label method.\n\n    Args:\n      class_index: An integer in the range [0, self.num_classes).\n      events: A list-like sequence of events. This object is not used in this",
           "    return self._one_hot_encoding.encode_event(events[position - 1])\n\n  def class_index_to_event(self, class_index, events):\n    \"\"\"Returns the event for the given class index.\n\n    This is the reverse process of the self.events_to_label method.\n\n    Args:\n      class_index: An integer in the range [0, self.num_classes).\n      events: A list-like sequence of events. This object is not used in this", rule='WRAP/label'),
    Mutant('note performance decodes shifts with the duration segment size', PE, "    time_shift = (class_indices[0] * self._shift_steps_per_segment +", "    time_shift = (class_indices[0] * self._duration_steps_per_segment +", rule='NOTEPERF/time-shift'),
    Mutant('note performance duration loses the + 1', PE, "                class_indices[5]) + 1\n", "                class_indices[5])\n", rule='NOTEPERF/duration'),
    Mutant('note performance velocity offset', PE, "    velocity = class_indices[3] + 1\n", "    velocity = class_indices[3]\n", rule='NOTEPERF/velocity'),
    Mutant('pianoroll decoder shifts by two bits', PR, "      class_index >>= 1", "      class_index >>= 2", rule='PIANOROLL/decode'),
    Mutant('encode pairs input and label of the same position', ED, "      labels.append(self.events_to_label(events, i + 1))\n    return inputs, labels\n\n  def get_inputs_batch(self, event_sequences, full_length=False):", "      labels.append(self.events_to_label(events, i))\n    return inputs, labels\n\n  def get_inputs_batch(self, event_sequences, full_length=False):", rule='ENCODE/'),
    Mutant('class_index_to_event deleted from the pianoroll encoder', PR, "  def class_index_to_event(self, class_index, events):", "  def class_index_to_event_removed(self, class_index, events):", rule='IFACE/'),
    # equivalent
    Mutant('offset named in a local', ED, "        return self._one_hot_encoding.num_classes + i\n\n    # If last step didn't repeat", "        label = self._one_hot_encoding.num_classes + i\n        return label\n\n    # If last step didn't repeat", expect='silent'),
    Mutant('history guard written the other way round', ED, "        if len(events) < lookback_distance:\n          return self._one_hot_encoding.default_event", "        if lookback_distance > len(events):\n          return self._one_hot_encoding.default_event", expect='silent'),
    Mutant('conditional positions reordered', ED, "            control_events, position + 1) +", "            control_events, 1 + position) +", expect='silent'),
]

RENAME_FUNCS = [(ED, 'LookbackEventSequenceEncoderDecoder.events_to_label'), (ED, 'LookbackEventSequenceEncoderDecoder.class_index_to_event'),
                (ED, 'LookbackEventSequenceEncoderDecoder.events_to_input'), (ME, 'KeyMelodyEncoderDecoder.events_to_label'), (ME, 'KeyMelodyEncoderDecoder.class_index_to_event'),
                (PE, 'NotePerformanceEventSequenceEncoderDecoder._encode_event'), (PE, 'NotePerformanceEventSequenceEncoderDecoder.class_index_to_event'),
                (ED, 'EventSequenceEncoderDecoder.encode'), (PR, 'PianorollEncoderDecoder.class_index_to_event')]

EXPLANATION += (' Location-independent additions: PIANOROLL/wide-label (no numpy fixed-width operand where the label needs input_size bits), GEN/chord-label-split (C09 rule shared), GEN/full-history (history handed to class_index_to_event complete or bounded by max(distances)).')
EXPLANATION += (' Round 6: ' + 'GEN/sampled-size: the size given to np.random.choice is the length of a distribution taken from the same element as p.')
EXPLANATION += (' Round 7: ' + 'GEN/steps-by-decoding (every labels_to_num_steps decodes its labels or delegates); NOTEPERF/pitch-block-size.')
EXPLANATION += (' Rounds 9-10: ' + 'PITFALL/unforwarded-parameter over the encoder classes (constructors and base constructors resolved through the hierarchy).')
EXPLANATION += (' Round 11: ' + 'DEFAULT/event-of-the-encoding; PITFALL/falsy-domain-zero over the encoders; SIZE/slice-store-width.')
EXPLANATION += (' Round 12: ' + 'PITFALL/unzip-empty; SIZE answers cannot-classify when the offset is moved by a helper.')
EXPLANATION += (' Round 14: ' + 'GEN/steps-by-decoding/last-label.')
