"""C14 - applying the sustain pedal holds exactly the notes the pedal holds (DESIGN.md §4 C14)."""
import ast

from sa import own, nf, fold, astutil as U
from sa.loader import norm_text, dotted
from sa.selftest import Mutant
from rules import C11

PROPERTY = 'C14'
SL = 'sequences_lib'
F = 'note_seq/sequences_lib.py'
LEVEL_TEXT = (
    'Structural necessary conditions of the sustain contract, decided for all inputs: the input is untouched (ownership analysis) '
    'and quantized input is rejected before any work; the four event ranks fold to the strict chain SUSTAIN_ON < SUSTAIN_OFF < '
    'NOTE_ON < NOTE_OFF and the sort key selects (time, rank); all four producers build (time of the object, its rank, the object) '
    'and the consumer unpacks that layout; pedal down/up guards are complementary at 64 and the controller filter compares with '
    'the parameter; every access to the pedal flag and the active-note list is keyed by the current event\'s instrument; both note '
    'producers exclude drums; the dispatch covers the four ranks with a raising else; the per-branch state updates are the '
    'documented ones (flag set/cleared, notes ending before the release are extended to it, a re-strike of the same pitch ends the '
    'held note, note-off removes a note only when the pedal is up, leftovers end at the last event); extending an end_time keeps '
    'total_time covering it. Which notes are held until when, as a behaviour over all event interleavings, is not decided.')
LEVEL_NOTE = 'Trusted: protobuf copy semantics; list.sort is stable and orders tuples by the selected key positions.'
TECHNIQUE = 'static analysis: ownership/points-to, constant folding of the rank chain, tuple-layout agreement between producers and consumer, complementary guard normal forms, keyed-state subscript agreement, dispatch exhaustiveness'
DESIGN_REF = 'DESIGN.md section 4 (C14)'
EXPLANATION = ('OWN + ESC guard; RANK chain and sort key; LAYOUT of the four producers and the consumer; THRESHOLD complement at 64; '
               'KEYED per-instrument subscripts; DRUM filter on both note producers; DISPATCH exhaustiveness; BRANCH state-update rows; '
               'PAIR end_time/total_time.')
TRUSTED = ['protobuf copy semantics', 'list.sort is stable']
NOT_DECIDED = ['which notes are held until when, over all interleavings of coinciding events']
ASSUMPTIONS = []
# rules whose verdict does not depend on how the statements are arranged (semantic analyses); all other rules are shape rules:
# when one of those fails in a function that was restructured relative to reference/signatures.json the verdict is "cannot decide"
ROBUST = ('OWN/write', 'OWN/return')
FLOORS = {'OWN': 8, 'RANK': 2, 'LAYOUT': 5, 'THRESHOLD': 2, 'KEYED': 8, 'DRUM': 2, 'DISPATCH': 5, 'BRANCH': 7, 'PAIR': 2}

RANKS = ['_SUSTAIN_ON', '_SUSTAIN_OFF', '_NOTE_ON', '_NOTE_OFF']


def E(t):
  return U.E(t)


def has(test, text, polarity=True):
  try:
    return nf.compare_equal(nf.compare_nf(test, None, polarity), nf.compare_nf(E(text)))
  except nf.NFError:
    return False


class Roles(dict):
  __getattr__ = dict.__getitem__


def discover(ctx, fi):
  """Local names by role (so that renaming locals does not matter)."""
  fn = fi.node
  r = Roles()
  cp = [s for s in fn.body if isinstance(s, ast.Assign) and isinstance(s.value, ast.Call) and dotted(s.value.func) == 'copy.deepcopy' and
        isinstance(s.targets[0], ast.Name)]
  ctx.require(len(cp) == 1, 'apply_sustain_control_changes: the defensive deep copy was not found')
  r['seq'] = cp[0].targets[0].id
  loop = None
  for n in fn.body:
    if isinstance(n, ast.For) and isinstance(n.target, ast.Tuple) and len(n.target.elts) == 3 and isinstance(n.iter, ast.Name) and \
        all(isinstance(e, ast.Name) for e in n.target.elts):
      loop = n
  ctx.require(loop is not None, 'apply_sustain_control_changes: consumer loop over 3-tuples not found')
  r['events'] = loop.iter.id
  r['time'], r['etype'], r['ev'] = [e.id for e in loop.target.elts]
  r['loop'] = loop
  for s in fn.body:
    if isinstance(s, ast.Assign) and isinstance(s.targets[0], ast.Name) and isinstance(s.value, ast.Call) and (dotted(s.value.func) or '').endswith('defaultdict') and s.value.args:
      a = s.value.args[0]
      if isinstance(a, ast.Name) and a.id == 'list':
        r['act'] = s.targets[0].id
      elif (isinstance(a, ast.Lambda) and isinstance(a.body, ast.Constant) and a.body.value is False) or (isinstance(a, ast.Name) and a.id == 'bool'):
        r['sus'] = s.targets[0].id
  ctx.require('act' in r and 'sus' in r, 'apply_sustain_control_changes: per-instrument state dictionaries not found')
  return r


def quantized_definition(ctx, rule):
  """"Quantized" means a positive resolution: steps_per_quarter > 0 or steps_per_second > 0.  (Presence of the oneof member
  is not the same: a field explicitly set to 0 is present.)  The guard of every operation on unquantized input relies on it."""
  q = ctx.func(SL + ':is_quantized_sequence')
  rets = [s for s in U.walk_stmts(q.node) if isinstance(s, ast.Return)]
  ok = False
  if len(rets) == 1 and isinstance(rets[0].value, ast.BoolOp) and isinstance(rets[0].value.op, ast.Or) and len(rets[0].value.values) == 2:
    p = q.params()[0]
    forms = set()
    for v in rets[0].value.values:
      c = U.compare_full(v)
      if c is not None and c[1] == '<' and c[0] == '0' and c[2] in ('%s.quantization_info.steps_per_quarter' % p, '%s.quantization_info.steps_per_second' % p):
        forms.add(c[2].split('.')[-1])
    ok = forms == {'steps_per_quarter', 'steps_per_second'}
  # positively located: the decision reads the *presence* of the resolution (HasField / WhichOneof) and never compares its value
  presence = [c for c in U.calls_in(q.node) if isinstance(c.func, ast.Attribute) and c.func.attr in ('HasField', 'WhichOneof')]
  value_tests = [c for c in ast.walk(q.node) if isinstance(c, ast.Compare) and any(isinstance(x, ast.Attribute) and x.attr in ('steps_per_quarter', 'steps_per_second') for x in ast.walk(c))
                 and any(isinstance(o, (ast.Lt, ast.LtE, ast.Gt, ast.GtE, ast.NotEq, ast.Eq)) for o in c.ops)]
  if presence and not value_tests:
    ctx.ob(rule, q, presence[0], False, 'is_quantized_sequence decides by %s, the presence of the resolution, and never looks at its value: an unquantized sequence whose steps_per_quarter / '
           'steps_per_second was explicitly set to 0 is present-but-zero and is classified as quantized (and then rejected by apply_sustain_control_changes)' % norm_text(presence[0]),
           construct='is_quantized_sequence = positive resolution', definite=True)
    return
  ctx.ob(rule, q, rets[0] if rets else q.node, ok, 'quantized iff steps_per_quarter > 0 or steps_per_second > 0' if ok else
         'is_quantized_sequence is not "steps_per_quarter > 0 or steps_per_second > 0": sequences with an explicit zero resolution (or none) are classified differently',
         construct='is_quantized_sequence = positive resolution')


class _RankNames:
  """FuncInfo look-alike in which a rank written as its number (0..3, where the module constants fold to exactly these values)
  in a rank position - second element of a 3-tuple, or compared for (in)equality with a name - is written with the constant's
  name again, so that the rules below can speak about ranks by name whichever way the code spells them."""

  def __init__(self, ctx, fi):
    import copy
    fd = fold.Folder(ctx.P, ctx.S)
    by_value = {}
    for r in RANKS:
      try:
        v = fd.module_const(fi.module, r)
      except Exception:
        v = None
      if isinstance(v, int) and not isinstance(v, bool):
        by_value.setdefault(v, []).append(r)
    by_value = dict((v, rs[0]) for v, rs in by_value.items() if len(rs) == 1)
    node = copy.deepcopy(fi.node)

    def name_of(c):
      if isinstance(c, ast.Constant) and isinstance(c.value, int) and not isinstance(c.value, bool) and c.value in by_value:
        return ast.copy_location(ast.Name(id=by_value[c.value], ctx=ast.Load()), c)
      return c
    for n in ast.walk(node):
      if isinstance(n, ast.Tuple) and len(n.elts) == 3 and isinstance(getattr(n, 'ctx', None), ast.Load):
        e = n.elts[1]
        if isinstance(e, ast.IfExp):
          e.body, e.orelse = name_of(e.body), name_of(e.orelse)
        else:
          n.elts[1] = name_of(e)
      elif isinstance(n, ast.Compare) and len(n.ops) == 1 and isinstance(n.ops[0], (ast.Eq, ast.NotEq)):
        if isinstance(n.left, ast.Name):
          n.comparators[0] = name_of(n.comparators[0])
        elif isinstance(n.comparators[0], ast.Name):
          n.left = name_of(n.left)
    self.fi, self.node, self.module, self.qualname, self.name, self.nested = fi, node, fi.module, fi.qualname, fi.name, fi.nested

  def params(self):
    return self.fi.params()

  @property
  def fq(self):
    return self.fi.fq


def run(ctx):
  fq = SL + ':apply_sustain_control_changes'
  fi = _RankNames(ctx, ctx.func(fq))
  fn = fi.node
  own.check_borrowed(ctx, fq, {'note_sequence': own.NS}, {}, ['note_sequence'])
  from sa import pitfalls
  pitfalls.apply(ctx, 'PITFALL', [ctx.func(fq)], ['dead-parameter'], {
      'dead-parameter': 'apply_sustain_control_changes(sequence, sustain_control_number=n) must act on controller n'})
  from rules import C12 as _c12      # a stream merged or searched as if it were sorted (heapq.merge, bisect) must be sorted whatever the storage order
  _c12.assumes_sorted_in(ctx, ('apply_sustain_control_changes',))
  pedal_state_always_recorded(ctx, fi)
  total_time_never_lowered(ctx, fi)
  pedal_selected_by_controller_only(ctx, fi)
  rank_in_sort_key(ctx, fi)       # location-independent rules first
  note_off_removes_one(ctx, fi)
  threshold_scenarios(ctx, fi, 'THRESHOLD/scenarios')
  restrike_paths(ctx, fi, 'BRANCH/restrike-paths')
  try:
    R = discover(ctx, fi)
  except Exception:
    if any(not o.ok for o in ctx.obligations):
      return    # the ownership violation is the verdict; the remaining anchors depend on the copy
    raise
  # ESC: guard first
  body = [s for s in fn.body if not (isinstance(s, ast.Expr) and isinstance(s.value, ast.Constant))]
  first = body[0]
  ok = isinstance(first, ast.If) and 'is_quantized_sequence(note_sequence)' in norm_text(first.test) and \
      any(isinstance(x, ast.Raise) and isinstance(x.exc, ast.Call) and dotted(x.exc.func) == 'QuantizationStatusError' for x in first.body)
  quantized_definition(ctx, 'ESC/quantized-definition')
  # located: the guard that raises QuantizationStatusError asks one of the two narrower predicates only
  narrow = None
  if not ok and isinstance(first, ast.If) and any(isinstance(x, ast.Raise) and isinstance(x.exc, ast.Call) and dotted(x.exc.func) == 'QuantizationStatusError' for x in first.body):
    called = set(dotted(c.func).split('.')[-1] for c in ast.walk(first.test) if isinstance(c, ast.Call) and dotted(c.func))
    if len(called & {'is_relative_quantized_sequence', 'is_absolute_quantized_sequence'}) == 1 and 'is_quantized_sequence' not in called and \
        not any(isinstance(a, ast.Attribute) and a.attr in ('steps_per_second', 'steps_per_quarter') for a in ast.walk(first.test)):
      narrow = sorted(called & {'is_relative_quantized_sequence', 'is_absolute_quantized_sequence'})[0]
  ctx.ob('ESC/quantized-rejected', fi, first, ok, 'quantized input raises QuantizationStatusError before any work' if ok else
         ('the guard asks %s only: input quantized the other way (by %s) is accepted and processed as if its times were unquantized' % (narrow, 'steps per second' if 'relative' in narrow else 'steps per quarter')
          if narrow else 'quantized input is not rejected with QuantizationStatusError before the sequence is processed'), definite=bool(narrow))
  ranks(ctx, fi, R)
  layout(ctx, fi, R)
  keyed(ctx, fi, R)
  dispatch(ctx, fi, R)
  # PAIR (shared with C11)
  ends, totals = [], []
  for st in U.walk_stmts(fn):
    for tgt, val, op in U.store_targets(st):
      if isinstance(tgt, ast.Attribute) and tgt.attr == 'end_time':
        ends.append((st, tgt, val, op))
      if isinstance(tgt, ast.Attribute) and tgt.attr == 'total_time':
        totals.append((st, tgt, val, op))
  for (st, tgt, val, op) in ends:
    ok, why = C11._paired(fi, st, tgt, val, op, totals)
    if not ok:
      tests = [norm_text(t) for (t, pol) in U.enclosing_tests(fn, st) if pol]
      for (fname, txt, needle, reason) in C11.PAIR_ALLOW:
        if fname == fi.name and (txt is None or norm_text(st) == txt) and any(needle in t for t in tests):
          ok, why = True, 'allow-listed: ' + reason
    ctx.ob('PAIR/end-total', fi, st, ok, why, definite=(not ok and op == 'store' and C11._no_total_near(fi, st, totals)))


def total_time_never_lowered(ctx, fi, rule='PAIR/total-time-never-lowered'):
  """"the result equals the input except for extended note ends" - and a total_time raised to cover them.  Every store into the
  copy's total_time either is guarded by `value > total_time` or takes a max that includes the old total_time.  A plain store of
  "the latest note end" shortens a sequence whose total_time lay beyond its last note (trailing silence)."""
  fn = fi.node
  n = 0
  for st in U.walk_stmts(fn):
    if not (isinstance(st, ast.Assign) and len(st.targets) == 1 and isinstance(st.targets[0], ast.Attribute) and st.targets[0].attr == 'total_time'):
      continue
    n += 1
    t = norm_text(st.targets[0])
    v = st.value
    vx = U.expand_locals(fn, v, at=st)
    # a one-return helper of the module is read through
    g = fi.module.functions.get(vx.func.id) if isinstance(vx, ast.Call) and isinstance(vx.func, ast.Name) else None
    if g is not None:
      body = [b for b in g.node.body if not (isinstance(b, ast.Expr) and isinstance(b.value, ast.Constant))]
      if len(body) == 1 and isinstance(body[0], ast.Return) and body[0].value is not None:
        vx = body[0].value
    guarded = any(U.is_gt_guard(c, norm_text(v), t) for c in U.enclosing_tests(fn, st)) or any(p and isinstance(c, ast.Compare) and t in norm_text(c) and norm_text(v) in norm_text(c)
                                                                                                  for c, p in U.path_conditions(fn, st))
    keeps = any(isinstance(a, ast.Attribute) and a.attr == 'total_time' for a in ast.walk(vx))
    if not keeps and isinstance(v, ast.Name):
      # a local that accumulates the maximum: it was started from a total_time somewhere in the function
      keeps = any(isinstance(s2, ast.Assign) and any(isinstance(t2, ast.Name) and t2.id == v.id for t2 in s2.targets) and
                  any(isinstance(a, ast.Attribute) and a.attr == 'total_time' for a in ast.walk(s2.value)) for s2 in U.walk_stmts(fn))
    cons = 'the store %s cannot lower total_time' % norm_text(st)[:50]
    ok = guarded or keeps
    ctx.ob(rule, fi, st, ok, 'guarded by a comparison with total_time' if guarded else ('the new value takes the old total_time into account' if keeps else '') if ok else
           '`%s` overwrites total_time with a value that does not look at the old one (%s): a sequence whose total_time lies beyond its last note end - trailing silence, or no notes at all - '
           'comes back shorter than it went in' % (norm_text(st)[:60], norm_text(vx)[:60]), construct=cons, definite=True)
  if n == 0:
    ctx.ob(rule, fi, fn, True, 'apply_sustain_control_changes never stores a total_time', construct='total_time is never lowered')


def pedal_state_always_recorded(ctx, fi, rule='BRANCH/pedal-state-always-recorded'):
  """Location-independent: a pedal event sets the pedal state of its instrument whatever else is true at that moment - whether notes
  are sounding, held, or none at all.  In the branch that handles the event, the store of the new state (`flags[...] = True /
  False`) must not come after a `continue` / `break` of the event loop: a press or release that arrives while the instrument is
  silent would leave the state as it was."""
  fn = fi.node
  pm = U.parents(fn)
  n = 0
  for st in U.walk_stmts(fn):
    if not (isinstance(st, ast.Assign) and len(st.targets) == 1 and isinstance(st.targets[0], ast.Subscript) and isinstance(st.value, ast.Constant) and isinstance(st.value.value, bool)):
      continue
    loops = U.enclosing_loops(fn, st)
    if not loops:
      continue
    loop = loops[-1]
    n += 1
    # the statements of the enclosing arms that run before the store, innermost arm outwards, up to the loop body
    before = []
    child, cur = st, pm.get(id(st))
    while cur is not None and cur is not loop:
      for field in ('body', 'orelse'):
        blk = getattr(cur, field, None)
        if isinstance(blk, list) and any(child is x for x in blk):
          before.extend(blk[:next(i for i, x in enumerate(blk) if x is child)])
      child, cur = cur, pm.get(id(cur))
    # (statements of the loop body before the dispatch are shared by all event types: not part of this branch)
    early = [x for b in before for x in ast.walk(b) if isinstance(x, (ast.Continue, ast.Break)) and U.enclosing_loops(fn, x) and U.enclosing_loops(fn, x)[-1] is loop]
    cons = 'the pedal state store %s is reached by every event of its kind' % norm_text(st)[:50]
    ctx.ob(rule, fi, early[0] if early else st, not early, 'nothing leaves the branch before the pedal state is stored' if not early else
           'the %s at line %d%s leaves the branch before `%s`: a pedal event that arrives then does not change the pedal state, and notes that end later on that instrument are held '
           '(or not held) according to the stale state' % (type(early[0]).__name__.lower(), early[0].lineno,
                                                          ''.join(' (taken when %s)' % norm_text(t) for t, p in U.path_conditions(fn, early[0])[-1:] if p), norm_text(st)[:50]),
           construct=cons, definite=True)
  if n == 0:
    why = 'cannot classify: no store of a constant pedal state (flags[...] = True / False) found in the event loop'
    ctx.ob(rule, fi, fn, False, why, construct='pedal state stores are reached by every pedal event', unknown=why)


def pedal_selected_by_controller_only(ctx, fi, rule='FILTER/pedal-by-controller-only'):
  """"its own instrument's pedal (control 64, value >= 64)": which control changes are pedal events is decided by the controller
  number (and which way by the value) - never by the `is_drum` or `program` of the control change.  A note is a drum note by its own
  `is_drum`; a pedal event carrying `is_drum` on the same instrument as a non-drum note still is that instrument's pedal.  Every
  variable that iterates `<sequence>.control_changes` is followed; a read of its `is_drum` / `program` inside a condition (if, while,
  conditional expression, comprehension filter) is the violation."""
  fn = fi.node
  def over_ccs(it):
    it = U.expand_locals(fn, it) if isinstance(it, ast.Name) else it
    return any(isinstance(a, ast.Attribute) and a.attr == 'control_changes' for a in ast.walk(it))
  names = {}
  for x in ast.walk(fn):
    if isinstance(x, (ast.For, ast.comprehension)) and isinstance(x.target, ast.Name) and over_ccs(x.iter):
      names[x.target.id] = x
  tests = []
  for x in ast.walk(fn):
    if isinstance(x, (ast.If, ast.While, ast.IfExp)):
      tests.append(x.test)
    elif isinstance(x, ast.comprehension):
      tests.extend(x.ifs)
  bad = [a for t in tests for a in ast.walk(t) if isinstance(a, ast.Attribute) and a.attr in ('is_drum', 'program') and isinstance(a.value, ast.Name) and a.value.id in names]
  cons = 'pedal events are selected by controller number and value only'
  if not names:
    why = 'cannot classify: no loop or comprehension over <sequence>.control_changes with a plain loop variable'
    ctx.ob(rule, fi, fn, False, why, construct=cons, unknown=why)
    return
  ctx.ob(rule, fi, bad[0] if bad else fn, not bad, 'no condition reads is_drum / program of a control change (%d traversal(s) of control_changes followed)' % len(names) if not bad else
         'the condition at line %d reads `%s`: whether a control change is a pedal event then depends on a field other than its controller number and value, so the pedal of an '
         'instrument whose control changes carry that field is ignored (or taken) and the non-drum notes of that instrument are not held (or held) as stated' % (bad[0].lineno, norm_text(bad[0])),
         construct=cons, definite=True)


def rank_in_sort_key(ctx, fi):
  """Location-independent: the events are (time, rank, object) tuples whose rank constant fixes the processing order at equal
  times (pedal down before pedal up before note start before note end).  Wherever such tuples are sorted - in the function or in
  a helper it calls - the key must contain the rank position after the time; a key of the time alone leaves ties in the order
  the events happen to be listed, i.e. in storage order (a release listed before a press at the same instant leaves the pedal down)."""
  fns = [fi] + [fi.module.functions[d] for d in sorted(set(dotted(c.func) or '' for c in U.calls_in(fi.node))) if d in fi.module.functions]
  for f in fns:
    fn = f.node
    # only functions that build rank tuples
    if not any(isinstance(t, ast.Tuple) and len(t.elts) == 3 and isinstance(t.elts[1], (ast.Name, ast.IfExp)) and
               any(isinstance(n, ast.Name) and n.id in RANKS for n in ast.walk(t.elts[1])) for t in ast.walk(fn)):
      continue
    for c in ast.walk(fn):
      if not isinstance(c, ast.Call):
        continue
      is_sorted = dotted(c.func) == 'sorted'
      is_sort = isinstance(c.func, ast.Attribute) and c.func.attr == 'sort'
      if not (is_sorted or is_sort):
        continue
      key = next((k.value for k in c.keywords if k.arg == 'key'), None)
      pos = None
      if key is None:
        pos = [0, 1, 2]       # whole-tuple comparison: time, then rank (then the object: not comparable, but the order is fixed before)
      elif isinstance(key, ast.Call) and (dotted(key.func) or '').split('.')[-1] == 'itemgetter':
        pos = [U.const_value(a) for a in key.args]
      elif isinstance(key, ast.Lambda):
        p = key.args.args[0].arg
        elts = key.body.elts if isinstance(key.body, ast.Tuple) else [key.body]
        pos = [U.const_value(e.slice) if isinstance(e, ast.Subscript) and isinstance(e.value, ast.Name) and e.value.id == p else None for e in elts]
      if pos is None or None in pos:
        continue
      ok = pos[:2] == [0, 1]
      ctx.ob('RANK/rank-in-key', f, c, ok, 'events are sorted by (time, rank)' if ok else
             'the (time, rank, object) events are sorted by position(s) %s only: events at the same time are processed in the order they were listed - the storage order of the '
             'control changes and notes - not pedal-down, pedal-up, note-start, note-end' % pos, construct='sort key contains the rank', definite=True)


def note_off_removes_one(ctx, fi):
  """Location-independent: a note that ends while its pedal is up stops being tracked - that note, and only it.  The structure the
  note starts are appended to (found by `<X>[...].append(<event>)`) may, on the paths taken for a note end, lose the ending event
  through `.remove(<event>)`; dropping a whole entry there (`X.pop(key)`, `del X[key]`, `X[key] = ...`, `.clear()`) also forgets
  other notes filed under the same key - e.g. a second note of the same pitch that starts exactly where the first one ends - and
  those are then not held when the pedal goes down."""
  fn = fi.node
  loop = next((n for n in ast.walk(fn) if isinstance(n, ast.For) and isinstance(n.target, ast.Tuple) and len(n.target.elts) == 3 and
               all(isinstance(e, ast.Name) for e in n.target.elts)), None)
  if loop is None:
    return
  tvar, ev = loop.target.elts[1].id, loop.target.elts[2].id
  tracked = set()
  for c in ast.walk(loop):
    if isinstance(c, ast.Call) and isinstance(c.func, ast.Attribute) and c.func.attr == 'append' and c.args and norm_text(c.args[0]) == ev and isinstance(c.func.value, ast.Subscript) and \
       isinstance(c.func.value.value, ast.Name):
      tracked.add(c.func.value.value.id)
  if not tracked:
    return

  def on_note_off(st):
    return any(pol and U.eq_sides(t, lambda a: norm_text(a) == tvar, lambda b: norm_text(b) == '_NOTE_OFF') for t, pol in U.path_conditions(fn, st, stop_at=loop))
  n = 0
  for st in U.walk_stmts(loop):
    if not on_note_off(st):
      continue
    drops = []
    for c in ast.walk(st) if isinstance(st, (ast.Expr, ast.Assign, ast.Delete, ast.AugAssign)) else []:
      if isinstance(c, ast.Call) and isinstance(c.func, ast.Attribute) and c.func.attr in ('pop', 'popitem', 'clear') and \
         ((isinstance(c.func.value, ast.Name) and c.func.value.id in tracked) or
          (isinstance(c.func.value, ast.Subscript) and isinstance(c.func.value.value, ast.Name) and c.func.value.value.id in tracked and c.func.attr == 'clear')):
        drops.append(c)
    if isinstance(st, ast.Delete):
      drops += [t for t in st.targets if isinstance(t, ast.Subscript) and isinstance(t.value, ast.Name) and t.value.id in tracked]
    if isinstance(st, ast.Assign) and ((isinstance(st.value, (ast.List, ast.Tuple)) and not st.value.elts) or
                                       (isinstance(st.value, ast.Call) and dotted(st.value.func) in ('list', 'dict', 'set') and not st.value.args)):
      drops += [t for t in st.targets if isinstance(t, ast.Subscript) and isinstance(t.value, ast.Name) and t.value.id in tracked]
    # filtering the entry by a *field* of the ending note (its pitch) removes every note that shares the field value
    if isinstance(st, ast.Assign) and isinstance(st.value, (ast.ListComp, ast.GeneratorExp)) or (
        isinstance(st, ast.Assign) and isinstance(st.value, ast.Call) and st.value.args and isinstance(st.value.args[0], (ast.ListComp, ast.GeneratorExp))):
      comp = st.value if isinstance(st.value, (ast.ListComp, ast.GeneratorExp)) else st.value.args[0]
      if any(isinstance(t, ast.Subscript) and isinstance(t.value, ast.Name) and t.value.id in tracked for t in st.targets) and isinstance(comp.generators[0].target, ast.Name):
        el = comp.generators[0].target.id
        for f_ in comp.generators[0].ifs:
          for c in ast.walk(f_):
            if isinstance(c, ast.Compare) and len(c.ops) == 1:
              a_, b_ = c.left, c.comparators[0]
              if all(isinstance(x, ast.Attribute) for x in (a_, b_)) and {norm_text(a_.value), norm_text(b_.value)} == {el, ev} and a_.attr == b_.attr:
                n += 1
                ctx.ob('BRANCH/note-off-removes-one', fi, st, False, 'at a note end, the entry of %s is filtered by %s: every tracked note with the same %s stops being tracked, not only the '
                       'one that ends - note starts are processed before note ends at one instant, so a same-%s note starting exactly there is dropped with it and is not held by a pedal '
                       'pressed later' % (sorted(tracked)[0], norm_text(c), a_.attr, a_.attr), construct='a note end removes exactly that note', definite=True)
    for d in drops:
      n += 1
      ctx.ob('BRANCH/note-off-removes-one', fi, d, False, 'at a note end, %s drops the whole entry of %s: every note filed under that key stops being tracked, not only the one that '
             'ends - a same-pitch note starting at that very moment is then not held by a pedal pressed later' % (norm_text(d), sorted(tracked)[0]),
             construct='a note end removes exactly that note', definite=True)
  if not n:
    rem = [c for c in ast.walk(loop) if isinstance(c, ast.Call) and isinstance(c.func, ast.Attribute) and c.func.attr == 'remove' and c.args and norm_text(c.args[0]) == ev]
    if rem:
      ctx.ob('BRANCH/note-off-removes-one', fi, rem[0], True, 'a note end removes that note only', construct='a note end removes exactly that note', definite=True)


def _rank_alternatives(fi, expr, at, depth=0):
  """[(conds, rank name | None)]: the values the rank component of an event tuple can take, each with the conditions under which
  it is taken - a rank constant, a conditional expression, or a module-level helper applied to one argument (its returns with
  their path conditions, the parameter replaced by the argument)."""
  from sa import pathval
  expr = U.expand_locals(fi.node, expr, at=at) if depth == 0 else expr
  if isinstance(expr, ast.Name):
    return [([], expr.id if expr.id in RANKS else None)]
  if isinstance(expr, ast.IfExp):
    return [([(expr.test, True)] + c, r) for c, r in _rank_alternatives(fi, expr.body, at, depth + 1)] + \
           [([(expr.test, False)] + c, r) for c, r in _rank_alternatives(fi, expr.orelse, at, depth + 1)]
  if isinstance(expr, ast.Call) and len(expr.args) == 1 and not expr.keywords and depth < 3:
    g = fi.module.functions.get(dotted(expr.func) or '')
    if g is not None and len(g.node.args.args) == 1:
      env = {g.node.args.args[0].arg: expr.args[0]}
      out = []
      for r in U.walk_stmts(g.node, into_nested=False):
        if isinstance(r, ast.Return):
          conds = [(pathval.subst(U.expand_locals(g.node, t, at=r), env), p) for t, p in U.path_conditions(g.node, r)]
          for c, rk in _rank_alternatives(fi, r.value, r, depth + 1):
            out.append((conds + [(pathval.subst(t, env), p) for t, p in c], rk))
      return out
  return [([], None)]


def threshold_scenarios(ctx, fi, rule):
  """Location-independent: whichever way the pedal events are produced (two guarded appends, a conditional expression, a helper
  that classifies the value, a comprehension), a sustain-controller event with value 64, 65 or 127 must become a pedal-down
  event and one with 0 or 63 a pedal-up event.  The producers' guards are evaluated three-valued at those five values."""
  from sa import pitfalls, scenario
  fn = fi.node
  alts = []
  for t in ast.walk(fn):
    if not (isinstance(t, ast.Tuple) and len(t.elts) == 3 and isinstance(t.elts[2], ast.Name) and isinstance(t.ctx, ast.Load)):
      continue
    v = t.elts[2].id
    bound = False
    for n in ast.walk(fn):
      gens = [(n.target, n.iter)] if isinstance(n, ast.For) else [(g.target, g.iter) for g in getattr(n, 'generators', [])]
      if any(isinstance(tg, ast.Name) and tg.id == v and norm_text(it).endswith('.control_changes') for tg, it in gens) and any(x is t for x in ast.walk(n)):
        bound = True
    if not bound:
      continue
    outer = [(U.expand_locals(fn, c, at=t), p) for c, p in pitfalls.guards_at(fn, t)]
    # conditions that do not mention the control change say whether the sequence is processed at all, not how a value is classified
    outer = [(c, p) for c, p in outer if any(isinstance(x, ast.Name) and x.id == v for x in ast.walk(c))]
    for conds, rk in _rank_alternatives(fi, t.elts[1], t):
      alts.append((t, v, outer + conds, rk))
  if not alts:
    ctx.ob(rule, fi, fn, False, 'no pedal event producer found', unknown='cannot classify: no event tuple built from a control change was found')
    return
  for val, want in ((0, '_SUSTAIN_OFF'), (63, '_SUSTAIN_OFF'), (64, '_SUSTAIN_ON'), (65, '_SUSTAIN_ON'), (127, '_SUSTAIN_ON')):
    got, unk = [], []
    for t, v, conds, rk in alts:
      sub = {'%s.control_value' % v: nf.rat(U.E(repr(val))), '%s.control_number' % v: nf.rat(U.E('sustain_control_number'))}
      r = scenario.tv_all(conds, sub) if conds else True
      if r is None:
        unk.append(t)
      elif r:
        got.append((t, rk))
    cons = 'a sustain controller value of %d is a pedal-%s event' % (val, 'down' if want == '_SUSTAIN_ON' else 'up')
    if unk:
      why = 'cannot classify: the guards of %s cannot be evaluated at control_value == %d' % (norm_text(unk[0]), val)
      ctx.ob(rule, fi, unk[0], False, why, construct=cons, unknown=why)
    elif [rk for _t, rk in got] == [want]:
      ctx.ob(rule, fi, got[0][0], True, 'value %d produces exactly one event, of kind %s' % (val, want), construct=cons)
    elif any(rk is None for _t, rk in got):
      why = 'cannot classify: the kind of the event produced for control_value == %d is not a rank constant' % val
      ctx.ob(rule, fi, got[0][0], False, why, construct=cons, unknown=why)
    else:
      ctx.ob(rule, fi, got[0][0] if got else fn, False, 'a sustain controller event with value %d produces %s, not one %s event: %s' % (
          val, ('events of kind ' + ', '.join(rk for _t, rk in got)) if got else 'no event at all', want,
          'value 64 is the lowest pedal-down value (>= 64 is down)' if val == 64 else 'values below 64 release the pedal' if val < 64 else 'values of 64 and above press the pedal'),
             construct=cons, definite=True)


def restrike_paths(ctx, fi, rule):
  """Location-independent, path-wise: in the note-start branch, the loop over the instrument's active notes may keep a note
  untouched (append it to the surviving list without setting its end) only if its pitch differs from the new note's.  Every
  path through the loop body is read (sa.pathval); a path that keeps the note without ending it is evaluated under the
  scenarios "same pitch", "same pitch and the held note ends exactly here", "same pitch and it starts exactly here"."""
  from sa import pathval, scenario
  fn = fi.node
  n = 0
  for lp in ast.walk(fn):
    if not (isinstance(lp, ast.For) and isinstance(lp.target, ast.Name)):
      continue
    conds = U.path_conditions(fn, lp)
    if not any(p and isinstance(t, ast.Compare) and len(t.ops) == 1 and isinstance(t.ops[0], ast.Eq) and '_NOTE_ON' in (norm_text(t.left), norm_text(t.comparators[0])) for t, p in conds):
      continue
    v = lp.target.id
    if not any(isinstance(x, ast.Attribute) and x.attr == 'pitch' and norm_text(x.value) == v for x in ast.walk(lp)):
      continue
    ev = None
    for x in ast.walk(lp):
      if isinstance(x, ast.Attribute) and x.attr == 'pitch' and norm_text(x.value) != v:
        ev = norm_text(x.value)
    tnames = [norm_text(st.value) for st in U.walk_stmts(lp) if isinstance(st, ast.Assign) and norm_text(st.targets[0]) == '%s.end_time' % v]
    if ev is None or not tnames:
      continue
    T = tnames[0]
    n += 1
    cons = 're-strike: a held note of the same pitch is ended at the new onset'
    try:
      ps = pathval.paths(lp.body, effects=True)
    except pathval.PathError as e:
      why = 'cannot classify: the loop body is not a plain block (%s)' % e
      ctx.ob(rule, fi, lp, False, why, construct=cons, unknown=why)
      continue
    verdicts = []
    for pc, env, ended in ps:
      calls = env.get(pathval.CALLS)
      kept = calls is not None and any(isinstance(c.func, ast.Attribute) and c.func.attr == 'append' and c.args and norm_text(c.args[0]) == v for c in calls.elts)
      ended_note = ('%s.end_time' % v) in env
      if not kept or ended_note:
        continue
      for name, pairs in (('the same pitch', [('%s.pitch' % v, '%s.pitch' % ev)]),
                          ('the same pitch and an end exactly at the new onset', [('%s.pitch' % v, '%s.pitch' % ev), ('%s.end_time' % v, T)]),
                          ('the same pitch and a start exactly at the new onset', [('%s.pitch' % v, '%s.pitch' % ev), ('%s.start_time' % v, T)])):
        r = scenario.tv_all(pc, scenario.subst_of(pairs)) if pc else True
        verdicts.append((r, name, pc))
    bad = [(nm, pc) for r, nm, pc in verdicts if r is True]
    unk = [(nm, pc) for r, nm, pc in verdicts if r is None]
    if bad:
      nm, pc = bad[0]
      ctx.ob(rule, fi, lp, False, 'a held note with %s as the new note takes the path [%s], on which it stays in the active list with its end untouched: with the pedal down '
             'its own end is ignored, so it is held across the re-strike of its own pitch' % (nm, ' and '.join(('' if p else 'not ') + norm_text(t) for t, p in pc)),
             construct=cons, definite=True)
    elif unk:
      why = 'cannot classify: whether a note with %s can take the keeping path [%s] is not decided' % (unk[0][0], ' and '.join(('' if p else 'not ') + norm_text(t) for t, p in unk[0][1]))
      ctx.ob(rule, fi, lp, False, why, construct=cons, unknown=why)
    else:
      ctx.ob(rule, fi, lp, True, 'no path keeps a note of the same pitch without ending it (%d keeping paths read under three scenarios)' % (len(verdicts) // 3), construct=cons)
  if n == 0:
    why = 'cannot classify: no loop over held notes that compares pitches and sets an end time was found in the note-start branch'
    ctx.ob(rule, fi, fn, False, why, construct='re-strike: a held note of the same pitch is ended at the new onset', unknown=why)


def ranks(ctx, fi, R):
  fd = fold.Folder(ctx.P, ctx.S)
  vals = [fold.need(lambda n=n: fd.module_const(fi.module, n), n) for n in RANKS]
  ok = all(isinstance(v, int) for v in vals) and vals[0] < vals[1] < vals[2] < vals[3]
  ctx.ob('RANK/chain', fi.module, fi.module.assigns[RANKS[0]][0], ok, 'ranks fold to %s: SUSTAIN_ON < SUSTAIN_OFF < NOTE_ON < NOTE_OFF' % vals if ok else
         'ranks fold to %s: the required processing order SUSTAIN_ON < SUSTAIN_OFF < NOTE_ON < NOTE_OFF at equal times is broken' % dict(zip(RANKS, vals)),
         construct='_SUSTAIN_ON < _SUSTAIN_OFF < _NOTE_ON < _NOTE_OFF')
  srt = [s for s in U.walk_stmts(fi.node) if isinstance(s, ast.Expr) and isinstance(s.value, ast.Call) and isinstance(s.value.func, ast.Attribute) and
         s.value.func.attr == 'sort' and norm_text(s.value.func.value) == R.events]
  key = next((k.value for k in srt[0].value.keywords if k.arg == 'key'), None) if len(srt) == 1 else None
  pos = None
  if isinstance(key, ast.Call) and dotted(key.func) in ('operator.itemgetter', 'itemgetter'):
    pos = [U.const_value(a) for a in key.args]
  elif isinstance(key, ast.Lambda) and isinstance(key.body, ast.Tuple):
    p = key.args.args[0].arg
    pos = [U.const_value(e.slice) if isinstance(e, ast.Subscript) and isinstance(e.value, ast.Name) and e.value.id == p else None for e in key.body.elts]
  ok = pos == [0, 1]
  ctx.ob('RANK/sort-key', fi, srt[0] if srt else fi.node, ok, 'events are sorted by (time, rank)' if ok else
         'events are sorted by positions %s, not by (time, rank): ties at equal times are no longer processed in rank order' % pos, construct='events.sort(key=(time, rank))')
  # the sort precedes the consumer loop and nothing is appended in between
  loop = R.loop
  ok = bool(srt) and loop is not None and srt[0].lineno < loop.lineno and not any(
      isinstance(s, ast.Expr) and (R.events + '.') in norm_text(s) and srt[0].lineno < s.lineno < loop.lineno for s in fi.node.body)
  ctx.ob('RANK/sorted-before-use', fi, loop or fi.node, ok, 'the event list is sorted, then consumed' if ok else 'the consumer loop does not run over the freshly sorted event list',
         construct='sort dominates the consumer loop')


def layout(ctx, fi, R):
  fn = fi.node
  prods = []
  for n in ast.walk(fn):
    if isinstance(n, ast.Call) and isinstance(n.func, ast.Attribute) and norm_text(n.func.value) == R.events and n.func.attr in ('append', 'extend') and n.args:
      a = n.args[0]
      if isinstance(a, ast.ListComp):
        prods.append((n, a.elt, a))
      elif isinstance(a, ast.Tuple):
        prods.append((n, a, None))
  ctx.require(len(prods) >= 4, 'apply_sustain_control_changes: expected four event producers, found %d' % len(prods))
  want_time = {'_NOTE_ON': 'start_time', '_NOTE_OFF': 'end_time', '_SUSTAIN_ON': 'time', '_SUSTAIN_OFF': 'time'}
  seen = set()
  for call, tup, comp in prods:
    ok = isinstance(tup, ast.Tuple) and len(tup.elts) == 3 and isinstance(tup.elts[1], ast.Name) and tup.elts[1].id in RANKS and \
        isinstance(tup.elts[0], ast.Attribute) and norm_text(tup.elts[0].value) == norm_text(tup.elts[2]) and tup.elts[0].attr == want_time.get(tup.elts[1].id)
    if ok:
      seen.add(tup.elts[1].id)
    ctx.ob('LAYOUT/producer', fi, call, ok, '(%s of the object, %s, the object)' % (tup.elts[0].attr, tup.elts[1].id) if ok else
           'event tuple %s is not (its own time field, its rank, the object)' % norm_text(tup), construct=norm_text(tup))
    if comp is not None:
      v = comp.generators[0].target.id
      okd = any(norm_text(t) == 'not %s.is_drum' % v for t in comp.generators[0].ifs) and norm_text(comp.generators[0].iter).endswith('.notes')
      ctx.ob('DRUM/producer-filter', fi, call, okd, 'drum notes are excluded from the note events' if okd else 'this note-event producer does not exclude drum notes')
  ctx.ob('LAYOUT/all-ranks', fi, fn, seen == set(RANKS), 'all four event kinds are produced' if seen == set(RANKS) else 'event kinds produced: %s' % sorted(seen),
         construct='producers cover the four ranks')
  loop = R.loop
  # the consumer's second component is the one dispatched on, the third is the object whose fields are read
  used_type = any(isinstance(n, ast.Compare) and R.etype in (norm_text(n.left), norm_text(n.comparators[0])) for n in ast.walk(loop))
  used_obj = any(isinstance(n, ast.Attribute) and norm_text(n.value) == R.ev for n in ast.walk(loop))
  ok = used_type and used_obj
  ctx.ob('LAYOUT/consumer', fi, loop, ok, 'the consumer unpacks (time, rank, object) and dispatches on the rank' if ok else
         'the consumer does not dispatch on the second tuple component / read the third as the event object', construct='for (time, rank, object) in events')
  # threshold and controller filter
  cl = next((n for n in fn.body if isinstance(n, ast.For) and norm_text(n.iter).endswith('.control_changes')), None)
  ctx.require(cl is not None, 'apply_sustain_control_changes: control change loop not found')
  v = cl.target.id
  flt = cl.body[0]
  ok = isinstance(flt, ast.If) and isinstance(flt.body[-1], ast.Continue) and has(flt.test, '%s.control_number != sustain_control_number' % v)
  ctx.ob('THRESHOLD/controller', fi, flt, ok, 'only the sustain controller given by the parameter is considered' if ok else
         'the controller filter is not "control_number != sustain_control_number -> skip"')
  env_val = None
  for s in cl.body:
    if isinstance(s, ast.Assign) and isinstance(s.targets[0], ast.Name) and norm_text(s.value) == '%s.control_value' % v:
      env_val = s.value
      R['value'] = s.targets[0].id
  if 'value' not in R:
    R['value'] = '%s.control_value' % v
  ok = True
  ctx.ob('THRESHOLD/value', fi, cl, ok, 'the pedal position is the control value' if ok else 'the compared value is not the control value', construct='value = cc.control_value')
  on = off = None
  for s in U.walk_stmts(cl):
    if isinstance(s, ast.If):
      prod = [c for c in U.calls_in(ast.Module(body=s.body, type_ignores=[])) if isinstance(c.func, ast.Attribute) and c.func.attr == 'append' and c.args and isinstance(c.args[0], ast.Tuple)]
      for c in prod:
        r = c.args[0].elts[1].id if isinstance(c.args[0].elts[1], ast.Name) else None
        if r == '_SUSTAIN_ON':
          on = s.test
        if r == '_SUSTAIN_OFF':
          off = s.test
      if s.orelse and isinstance(s.orelse[0], ast.If):
        s2 = s.orelse[0]
        for c in [c for c in U.calls_in(ast.Module(body=s2.body, type_ignores=[])) if isinstance(c.func, ast.Attribute) and c.func.attr == 'append' and c.args and isinstance(c.args[0], ast.Tuple)]:
          r = c.args[0].elts[1].id if isinstance(c.args[0].elts[1], ast.Name) else None
          if r == '_SUSTAIN_OFF':
            off = s2.test
          if r == '_SUSTAIN_ON':
            on = s2.test
  ok = on is not None and has(on, '%s >= 64' % R.value)
  ctx.ob('THRESHOLD/down', fi, on or cl, ok, 'pedal down iff value >= 64' if ok else 'pedal-down guard is %s, not value >= 64' % (norm_text(on) if on is not None else None), construct='value >= 64 -> SUSTAIN_ON')
  ok = off is not None and has(off, '%s < 64' % R.value)
  ctx.ob('THRESHOLD/up', fi, off or cl, ok, 'pedal up iff value < 64 (complement of down)' if ok else 'pedal-up guard is %s, not the complement value < 64' % (norm_text(off) if off is not None else None), construct='value < 64 -> SUSTAIN_OFF')


def keyed(ctx, fi, R):
  fn = fi.node
  n = 0
  for sub in ast.walk(fn):
    if isinstance(sub, ast.Subscript) and isinstance(sub.value, ast.Name) and sub.value.id in (R.sus, R.act):
      n += 1
      ok = norm_text(sub.slice) == R.ev + '.instrument'
      ctx.ob('KEYED/instrument', fi, sub, ok, 'state is keyed by the current event\'s instrument' if ok else
             '%s is indexed by %s, not by the instrument of the current event: pedals and notes of different instruments interact' % (sub.value.id, norm_text(sub.slice)))
  ctx.require(n >= 8, 'apply_sustain_control_changes: per-instrument state accesses not found')
  for role, name in (('active-note lists', R.act), ('pedal flags', R.sus)):
    d = [s for s in fn.body if isinstance(s, ast.Assign) and norm_text(s.targets[0]) == name]
    ok = len(d) == 1
    ctx.ob('KEYED/state-dict', fi, d[0] if d else fn, ok, 'the %s live in one per-instrument default dictionary' % role if ok else 'the %s are re-bound' % role,
           construct='per-instrument dictionary of %s' % role)


def dispatch(ctx, fi, R):
  fn = fi.node
  loop = R.loop
  T, EV, SUS, ACT, SEQ = R.time, R.ev, R.sus, R.act, R.seq
  chain = []
  cur = loop.body[0] if loop.body and isinstance(loop.body[0], ast.If) else None
  last_else = None
  while cur is not None:
    chain.append(cur)
    if cur.orelse and len(cur.orelse) == 1 and isinstance(cur.orelse[0], ast.If):
      cur = cur.orelse[0]
    else:
      last_else = cur.orelse
      cur = None
  got = {}
  for c in chain:
    for r in RANKS:
      if has(c.test, '%s == %s' % (R.etype, r)):
        got[r] = c
  for r in RANKS:
    ctx.ob('DISPATCH/branch', fi, got.get(r) or loop, r in got, '%s has a branch' % r if r in got else 'no branch handles %s' % r, construct='event_type == %s' % r)
  ok = bool(last_else) and any(isinstance(x, ast.Raise) for x in last_else)
  ctx.ob('DISPATCH/else-raises', fi, loop, ok, 'an unknown event type raises' if ok else 'the dispatch has no raising else: unknown ranks are silently ignored', construct='else: raise')
  # the final loop does not depend on the dispatch: judged before the branch rules (which give up when a branch is missing)
  tail = [n for n in fn.body if isinstance(n, ast.For) and ('%s.values()' % ACT) in norm_text(n.iter)]

  def is_last_time(v):
    """the loop variable holding the event time (its value after the loop is the last event's), or the first component of
    the last element of the sorted event list (0 when there are no events)"""
    if norm_text(v) == T:
      return True
    x = U.expand_locals(fn, v, depth=1)      # one level: the event list itself is a mutable object, not a value to look through
    if isinstance(x, ast.IfExp) and norm_text(x.test) == R.events and U.const_value(x.orelse) == 0:
      x = x.body
    return norm_text(x) == '%s[-1][0]' % R.events
  ok = len(tail) == 1 and any(isinstance(x.targets[0], ast.Attribute) and x.targets[0].attr == 'end_time' and is_last_time(x.value)
                              for x in ast.walk(tail[0]) if isinstance(x, ast.Assign)) if tail else False
  # positively identified: the final loop over the active lists stores another value than the last event time into end_time
  other = [x for x in ast.walk(tail[0]) if isinstance(x, ast.Assign) and isinstance(x.targets[0], ast.Attribute) and x.targets[0].attr == 'end_time' and not is_last_time(x.value)] if len(tail) == 1 else []
  if not other:
    tl2 = [n for n in fn.body if isinstance(n, ast.For) and ACT in norm_text(n.iter)]
    other = [x for n in tl2 for x in ast.walk(n) if isinstance(x, ast.Assign) and isinstance(x.targets[0], ast.Attribute) and x.targets[0].attr == 'end_time' and not is_last_time(x.value)] if not ok else []
  ctx.ob('BRANCH/leftovers', fi, other[0] if other else (tail[0] if tail else fn), ok, 'notes still held at the end are closed at the last event time' if ok else
         ('notes still held at the end are closed at %s, not at the time of the last note/pedal event of the piece' % norm_text(other[0].value) if other else
          'notes still held at the end are not closed at the last event time'), construct='for active notes: end_time = time', definite=bool(other))
  if len(got) < 4:
    return
  b = got['_SUSTAIN_ON'].body
  ok = len(b) == 1 and norm_text(b[0]) == '%s[%s.instrument] = True' % (SUS, EV)
  ctx.ob('BRANCH/on', fi, b[0], ok, 'pedal down sets the flag' if ok else 'pedal down does more/less than setting the instrument\'s flag')
  b = got['_SUSTAIN_OFF'].body
  flag = [x for x in b if norm_text(x) == '%s[%s.instrument] = False' % (SUS, EV)]     # at the top level of the branch, wherever it stands
  ok = len(flag) == 1
  ctx.ob('BRANCH/off-flag', fi, flag[0] if flag else b[0], ok, 'pedal up clears the flag' if ok else 'pedal up does not clear the instrument\'s flag')
  inner = next((s for s in b if isinstance(s, ast.For)), None)
  ok = False
  if inner is not None and inner.body and isinstance(inner.body[0], ast.If):
    t = inner.body[0]
    v = inner.target.id
    ok = has(t.test, '%s.end_time < %s' % (v, T)) and any(norm_text(x) == '%s.end_time = %s' % (v, T) for x in t.body) and \
        any('append(%s)' % v in norm_text(x) for x in t.orelse)
  ctx.ob('BRANCH/off-extends', fi, inner or got['_SUSTAIN_OFF'], ok, 'notes that ended before the release are extended to it; notes still sounding stay active' if ok else
         'the release branch is not "end < time -> end = time, else keep active"', construct='if note.end_time < time: note.end_time = time else keep')
  reassign = any(isinstance(x, ast.Assign) and norm_text(x.targets[0]) == '%s[%s.instrument]' % (ACT, EV) and isinstance(x.value, ast.Name) for x in b)
  ctx.ob('BRANCH/off-drops-extended', fi, got['_SUSTAIN_OFF'], reassign, 'extended notes leave the active list' if reassign else 'extended notes are not removed from the active list at release')
  # positively identified: the release branch throws the instrument's whole active list away (empty list / pop / clear / del),
  # so a note that is still sounding is forgotten and cannot be held by a later press
  wipes = []
  for x in ast.walk(ast.Module(body=got['_SUSTAIN_OFF'].body, type_ignores=[])):
    if isinstance(x, ast.Assign) and norm_text(x.targets[0]).startswith(ACT + '[') and isinstance(x.value, (ast.List, ast.Tuple)) and not x.value.elts:
      wipes.append(x)
    if isinstance(x, ast.Call) and isinstance(x.func, ast.Attribute) and x.func.attr in ('pop', 'clear') and norm_text(x.func.value).startswith(ACT):
      wipes.append(x)
    if isinstance(x, ast.Delete) and any(norm_text(t).startswith(ACT + '[') for t in x.targets):
      wipes.append(x)
  if wipes:
    ctx.ob('BRANCH/off-keeps-sounding', fi, wipes[0], False, 'the release branch discards the whole active list of the instrument (%s): a note that is still sounding is no longer '
           'tracked and is not held by the next press' % norm_text(wipes[0])[:70], construct='release keeps the notes that are still sounding', definite=True)
  b = got['_NOTE_ON'].body
  g = b[0] if b and isinstance(b[0], ast.If) else None
  ok = g is not None and norm_text(g.test) == '%s[%s.instrument]' % (SUS, EV)
  inner = next((s for s in (g.body if g else []) if isinstance(s, ast.For)), None)
  if ok and inner is not None and inner.body and isinstance(inner.body[0], ast.If):
    t = inner.body[0]
    v = inner.target.id
    ok = has(t.test, '%s.pitch == %s.pitch' % (v, EV)) and any(norm_text(x) == '%s.end_time = %s' % (v, T) for x in t.body) and any('append(%s)' % v in norm_text(x) for x in t.orelse)
  else:
    ok = False
  ctx.ob('BRANCH/restrike', fi, g or got['_NOTE_ON'], ok, 'with the pedal down a new note ends held notes of the same pitch at its onset' if ok else
         'the re-strike rule is not "pedal down and same pitch -> end the held note at this onset"', construct='if sus_active: same pitch -> end_time = time')
  ok = bool(b) and norm_text(b[-1]) == '%s[%s.instrument].append(%s)' % (ACT, EV, EV) and any(b[-1] is s for s in got['_NOTE_ON'].body)
  ctx.ob('BRANCH/note-on-active', fi, b[-1] if b else got['_NOTE_ON'], ok, 'every started note becomes active' if ok else 'a started note is not unconditionally added to the active list')
  b = got['_NOTE_OFF'].body
  g = b[0] if b and isinstance(b[0], ast.If) else None
  ok = g is not None and norm_text(g.test) == '%s[%s.instrument]' % (SUS, EV) and all(isinstance(x, ast.Pass) for x in g.body) and \
      any('%s[%s.instrument].remove(%s)' % (ACT, EV, EV) in norm_text(x) for x in ast.walk(ast.Module(body=g.orelse, type_ignores=[])) if isinstance(x, ast.Expr))
  ctx.ob('BRANCH/note-off', fi, g or got['_NOTE_OFF'], ok, 'a note end removes the note from the active list only while the pedal is up' if ok else
         'note-off handling is not "pedal down -> keep; pedal up -> remove from active"', construct='NOTE_OFF: keep if pedal down else remove')
  ret = fn.body[-1]
  ok = isinstance(ret, ast.Return) and norm_text(ret.value) == SEQ
  cp = [s for s in fn.body if isinstance(s, ast.Assign) and norm_text(s.targets[0]) == SEQ and isinstance(s.value, ast.Call) and dotted(s.value.func) == 'copy.deepcopy']
  ctx.ob('BRANCH/returns-copy', fi, ret, ok and len(cp) == 1, 'the edited deep copy is returned' if ok and cp else 'the function does not return the deep copy it edited')


MUTANTS = [
    Mutant('held notes lower total_time again (the defect fixed in 0c8a8f3)', F, "      # Never shorten the sequence: a drum note (not an event here) may end\n      # after the last pitched note or pedal event.\n      if time > sequence.total_time:\n        sequence.total_time = time\n", "      sequence.total_time = time\n", rule='PAIR/'),
    Mutant('seed C14_c: quantized = the resolution oneof is set (an explicit 0 counts)', F, "  return (note_sequence.quantization_info.steps_per_quarter > 0 or\n          note_sequence.quantization_info.steps_per_second > 0)", "  return note_sequence.quantization_info.WhichOneof('resolution') is not None", rule='ESC/quantized-definition'),
    Mutant('note-on before sustain-off at equal times', F, '_SUSTAIN_ON = 0\n_SUSTAIN_OFF = 1\n_NOTE_ON = 2\n_NOTE_OFF = 3', '_SUSTAIN_ON = 0\n_SUSTAIN_OFF = 2\n_NOTE_ON = 1\n_NOTE_OFF = 3', rule='RANK/chain'),
    Mutant('note-off before note-on', F, '_NOTE_ON = 2\n_NOTE_OFF = 3', '_NOTE_ON = 3\n_NOTE_OFF = 2', rule='RANK/chain'),
    Mutant('sorted by time only', F, '  events.sort(key=operator.itemgetter(0, 1))', '  events.sort(key=operator.itemgetter(0))', rule='RANK/sort-key'),
    Mutant('threshold above 64', F, '    if value >= 64:\n      events.append((cc.time, _SUSTAIN_ON, cc))', '    if value > 64:\n      events.append((cc.time, _SUSTAIN_ON, cc))', rule='THRESHOLD/down'),
    Mutant('up threshold leaves a gap', F, '    elif value < 64:\n      events.append((cc.time, _SUSTAIN_OFF, cc))', '    elif value < 63:\n      events.append((cc.time, _SUSTAIN_OFF, cc))', rule='THRESHOLD/up'),
    Mutant('controller hard-coded', F, '    if cc.control_number != sustain_control_number:\n      continue', '    if cc.control_number != 64:\n      continue', rule='THRESHOLD/controller'),
    Mutant('pedal flag shared by all instruments', F, '      sus_active[event.instrument] = True', '      sus_active[0] = True', rule='KEYED/'),
    Mutant('active notes of instrument 0 at release', F, '      for note in active_notes[event.instrument]:\n        if note.end_time < time:', '      for note in active_notes[0]:\n        if note.end_time < time:', rule='KEYED/'),
    Mutant('drum note-offs produced', F, "  events.extend([(note.end_time, _NOTE_OFF, note) for note in sequence.notes\n                 if not note.is_drum])", "  events.extend([(note.end_time, _NOTE_OFF, note) for note in sequence.notes])", rule='DRUM/'),
    Mutant('note-on keyed by end time', F, '  events.extend([(note.start_time, _NOTE_ON, note) for note in sequence.notes', '  events.extend([(note.end_time, _NOTE_ON, note) for note in sequence.notes', rule='LAYOUT/producer'),
    Mutant('deepcopy removed', F, '  sequence = copy.deepcopy(note_sequence)\n\n  # Sort all note on/off', '  sequence = note_sequence\n\n  # Sort all note on/off', rule='OWN/'),
    Mutant('quantized input processed', F, "  if is_quantized_sequence(note_sequence):\n    raise QuantizationStatusError(\n        'Can only apply sustain to unquantized NoteSequence.')\n", '', rule='ESC/'),
    Mutant('release also extends sounding notes', F, '        if note.end_time < time:\n          # This note was being extended because of sustain.', '        if note.end_time <= time + 1:\n          # This note was being extended because of sustain.', rule='BRANCH/off-extends'),
    Mutant('re-strike ends every held note', F, '          if note.pitch == event.pitch:\n            note.end_time = time', '          if note.pitch >= 0:\n            note.end_time = time', rule='BRANCH/restrike'),
    Mutant('note-off removes even with pedal down', F, '      if sus_active[event.instrument]:\n        # Note continues until another note of the same pitch or sustain ends.\n        pass\n      else:',
           '      if False:\n        # Note continues until another note of the same pitch or sustain ends.\n        pass\n      else:', rule='BRANCH/note-off'),
    Mutant('unknown rank ignored', F, "    else:\n      raise AssertionError('Invalid event_type: %s' % event_type)", "    else:\n      pass", rule='DISPATCH/else'),
    Mutant('release extension without total_time', F, '          note.end_time = time\n          if time > sequence.total_time:\n            sequence.total_time = time', '          note.end_time = time', rule='PAIR/'),
    Mutant('leftovers not closed', F, '  for instrument in active_notes.values():\n    for note in instrument:\n      note.end_time = time\n      sequence.total_time = time\n', '', rule='BRANCH/leftovers'),
    # equivalent
    Mutant('locals renamed', F, 'sus_active', 'pedal_down', expect='silent', count=0),
    Mutant('active list renamed', F, 'active_notes', 'sounding', expect='silent', count=0),
    Mutant('ranks renamed values keeping order', F, '_SUSTAIN_ON = 0\n_SUSTAIN_OFF = 1\n_NOTE_ON = 2\n_NOTE_OFF = 3', '_SUSTAIN_ON = 10\n_SUSTAIN_OFF = 20\n_NOTE_ON = 30\n_NOTE_OFF = 40', expect='silent'),
    Mutant('sort key as lambda', F, '  events.sort(key=operator.itemgetter(0, 1))', '  events.sort(key=lambda e: (e[0], e[1]))', expect='silent'),
    Mutant('threshold flipped', F, '    if value >= 64:\n      events.append((cc.time, _SUSTAIN_ON, cc))', '    if 64 <= value:\n      events.append((cc.time, _SUSTAIN_ON, cc))', expect='silent'),
    Mutant('up guard as negation', F, '    elif value < 64:\n      events.append((cc.time, _SUSTAIN_OFF, cc))', '    elif not value >= 64:\n      events.append((cc.time, _SUSTAIN_OFF, cc))', expect='silent'),
]

RENAME_FUNCS = [(F, 'apply_sustain_control_changes')]

EXPLANATION += (' Location-independent additions: RANK/rank-in-key (wherever (time, rank, obj) tuples are sorted), BRANCH/note-off-removes-one, ESC/quantized-definition presence-vs-value form; ranks written as numbers are read as the constants they fold to.')
EXPLANATION += (' Round 6: ' + 'THRESHOLD/scenarios (the events produced for controller values 0, 63, 64, 65, 127, whatever produces them: guarded appends, a conditional expression, a helper function); BRANCH/restrike-paths (path-wise: no path keeps a note of the same pitch in the active list without ending it, under three scenarios).')
EXPLANATION += (' Round 7: ' + 'BRANCH/note-off-removes-one also locates a removal by a field of the ending note.')
EXPLANATION += (' Rounds 9-10: ' + 'PITFALL/dead-parameter on apply_sustain_control_changes; PAIR/end-total located as in C11.')
EXPLANATION += (' Round 11: ' + 'BRANCH/pedal-state-always-recorded; ORD/assumes-sorted shared from C12.')
EXPLANATION += (' Round 12: ' + 'PAIR/total-time-never-lowered.')
EXPLANATION += (' Round 14: ' + 'FILTER/pedal-by-controller-only; ESC/quantized-rejected located for a narrower predicate.')
