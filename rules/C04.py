"""C04 - ABC tunes parse to the pitches, durations, keys and repeats they notate (DESIGN.md §4 C04)."""
import ast
import re

from sa import fold, nf, rx, roles, astutil as U
from sa.roles import Canon
from sa.loader import norm_text, dotted, AnalysisError
from sa.selftest import Mutant

PROPERTY = 'C04'
F = 'note_seq/abc_parser.py'
LEVEL_TEXT = (
    'Table/regex agreement and dispatch exhaustiveness for the ABC parser, decided from the folded class-level tables and the '
    'regex ASTs: every tonic spelled in the module\'s own key table has a proto key (else a KeyError - not an ABCParseError - '
    'aborts the whole tunebook), each proto key equals the pitch class of its spelling, each SIG_TO_KEYS row equals the '
    'music-theory oracle\'s tonic for that signature and mode, the sharps/flats orders are the circle of fifths, the note table is '
    'the ABC numbering, every mode alternative of the key regex is dispatched to the proto mode of the same name; the 13 token '
    'regexes tried and the 13 dispatched are the same set and the six unsupported constructs raise their documented ABCParseError '
    'subclass; a tune is constructed inside the try whose handler catches ABCParseError, appends and does not re-raise, and every '
    'explicit raise in ABCTune is an ABCParseError subclass; the accidental precedence is explicit > bar > key with bar '
    'accidentals cleared exactly at bar lines. Pitch/onset/duration arithmetic over token sequences is not decided.')
LEVEL_NOTE = 'Trusted: constant folding of class-level tables; re._parser regex ASTs; the 30-line music-theory oracle (circle of fifths, letter pitch classes, mode degrees).'
TECHNIQUE = 'static analysis: constant-table folding + independent music-theory oracle, regex-AST group languages, dispatch exhaustiveness, exception-class containment over the class hierarchy'
DESIGN_REF = 'DESIGN.md section 4 (C04)'
EXPLANATION = ('TAB rules over SIG_TO_KEYS (105 entries), KEY_TO_SIG, KEY_TO_PROTO_KEY, SHARPS/FLATS_ORDER, ABC_NOTE_TO_MIDI; MODE dispatch '
               'exhaustiveness against the regex alternation; TOKEN dispatch set equality and documented error classes; CONTAIN rules for '
               'parse_abc_tunebook and the raise inventory of ABCTune; KEYERR armed subscripts of constant tables by regex-group domains; '
               'ACC accidental precedence and bar clearing.')
EXPLANATION += (' ' + "STATE/per-tune (sa/state.py): no attribute that the parser mutates in place through self is a mutable object bound once in the class body without a per-instance rebinding in __init__ (state would leak from one tune to the next). RHYTHM/*: the broken-rhythm boundary moves by len - len/2**n (rational normal form), later for '>' and earlier for '<', on both notes, after the equal-length check.")
TRUSTED = ['music-theory oracle', 're._parser']
NOT_DECIDED = ['pitch/onset/duration values over token sequences', 'repeat expansion order', 'key spellings outside the module\'s own table (e.g. K:G#) - outside the property\'s quantifier']
ASSUMPTIONS = []
# rules whose verdict does not depend on how the statements are arranged (semantic analyses); all other rules are shape rules:
# when one of those fails in a function that was restructured relative to reference/signatures.json the verdict is "cannot decide"
ROBUST = ('TAB', 'STATE')
FLOORS = {'TAB': 140, 'MODE': 8, 'TOKEN': 15, 'CONTAIN': 20, 'KEYERR': 3, 'ACC': 3, 'STATE': 2, 'RHYTHM': 3, 'UNIT': 2}

LETTER_PC = {'C': 0, 'D': 2, 'E': 4, 'F': 5, 'G': 7, 'A': 9, 'B': 11}
LETTERS = 'CDEFGAB'
SHARPS = 'FCGDAEB'
FLATS = 'BEADGCF'
MODE_SUFFIX = ['', 'm', 'mix', 'dor', 'phr', 'lyd', 'loc']
MODE_DEGREE = {'': 0, 'm': 5, 'mix': 4, 'dor': 1, 'phr': 2, 'lyd': 3, 'loc': 6}
MODE_ENUM = {'': 'MAJOR', 'm': 'MINOR', 'mix': 'MIXOLYDIAN', 'dor': 'DORIAN', 'phr': 'PHRYGIAN', 'lyd': 'LYDIAN', 'loc': 'LOCRIAN'}
UNSUPPORTED = {'CHORD_PATTERN': 'ChordError', 'BAR_AND_VARIANT_ENDINGS_PATTERN': 'VariantEndingError', 'TUPLET_PATTERN': 'TupletError'}


def spelled_pc(s):
  """Pitch class of a spelled note like 'F#', 'Bb', 'Cb' (oracle)."""
  pc = LETTER_PC[s[0].upper()]
  for ch in s[1:]:
    pc += 1 if ch == '#' else -1
  return pc % 12


def oracle_tonic(sig, mode):
  """Spelled tonic of the key with `sig` sharps (negative: flats) in `mode`."""
  major_letter = LETTERS[(4 * sig) % 7]       # up a fifth = 4 letters
  letter = LETTERS[(LETTERS.index(major_letter) + MODE_DEGREE[mode]) % 7]
  if sig > 0 and letter in SHARPS[:sig]:
    return letter + '#'
  if sig < 0 and letter in FLATS[:-sig]:
    return letter + 'b'
  return letter


def split_key(k):
  """'F#Mix' -> ('F#', 'mix')"""
  m = re.match(r'^([A-G][#b]?)(.*)$', k)
  if not m:
    return None
  return m.group(1), m.group(2).lower()


def tune_separation(ctx, rule):
  """Location-independent: "a tunebook splits into tunes at blank lines".  The line structure of the text must be read with
  str.splitlines() (which knows \\n, \\r\\n and \\r) and a separator is a line that is empty *after stripping*; cutting the text
  at a literal newline sequence misses separator lines that hold blanks or a tab and every tunebook with Windows line ends."""
  fi = ctx.func('abc_parser:parse_abc_tunebook')
  fn = fi.node
  cons = 'tunes are separated by lines that are empty after stripping'
  cuts = []
  for c in ast.walk(fn):
    if isinstance(c, ast.Call) and isinstance(c.func, ast.Attribute) and c.func.attr in ('split', 'rsplit', 'partition'):
      seps = [a for a in c.args if isinstance(a, ast.Constant) and isinstance(a.value, str) and '\n' in a.value]
      if seps:
        cuts.append((c, seps[0].value))
  if cuts:
    c, sep = cuts[0]
    ctx.ob(rule, fi, c, False, '%s cuts the text at the literal %r: a separator line that holds blanks or a tab, or any tunebook with \\r\\n line ends, no longer separates - '
           'neighbouring tunes are glued into one' % (norm_text(c)[:60], sep), construct=cons, definite=True)
    return
  lines = [c for c in ast.walk(fn) if isinstance(c, ast.Call) and isinstance(c.func, ast.Attribute) and c.func.attr == 'splitlines']
  strips = [c for c in ast.walk(fn) if isinstance(c, ast.Call) and isinstance(c.func, ast.Attribute) and c.func.attr == 'strip' and not c.args]
  if lines and strips:
    ctx.ob(rule, fi, lines[0], True, 'the text is read line by line (splitlines) and lines are stripped before the emptiness test', construct=cons)
  else:
    why = 'cannot classify: how parse_abc_tunebook finds the blank lines is not recognised'
    ctx.ob(rule, fi, fn, False, why, construct=cons, unknown=why)


def bare_tempo_unit(ctx, ci, rule):
  """Location-independent, path-wise: a tempo written as a bare number (Q:120) counts unit note lengths per minute - the unit note
  length *in force where the field stands* (an L: field in the body changes it).  On the paths of _add_tempo taken when no beat
  length was given, the stored qpm must read the current unit note length; reading an attribute that is only ever a copy of it
  taken elsewhere (a snapshot that other methods do not refresh when they change the unit) is the located deviation."""
  from sa import pathval, strscen
  m = ci.methods.get('_add_tempo')
  cons = 'a bare-number tempo is counted in the unit note length currently in force'
  if m is None or len(m.params()) < 3:
    why = 'cannot classify: ABCTune._add_tempo(tempo_unit, tempo_rate) not found'
    ctx.ob(rule, ci, ci.node, False, why, construct=cons, unknown=why)
    return
  unit = m.params()[1]
  CUR = 'self._current_unit_note_length'
  try:
    ps = pathval.paths(m.node.body, effects=True, opaque=True)
  except pathval.PathError as e:
    why = 'cannot classify: %s' % e
    ctx.ob(rule, m, m.node, False, why, construct=cons, unknown=why)
    return
  n = 0
  for conds, env, end in ps:
    if strscen.tv_all(conds, {unit: None}) is False:
      continue
    qpm = next((v for k, v in env.items() if k.endswith('.qpm')), None)
    calls = env.get(pathval.CALLS)
    if qpm is None and calls is not None:
      for c in calls.elts:
        for k in c.keywords:
          if k.arg == 'qpm':
            qpm = k.value
    if qpm is None:
      continue
    n += 1
    attrs = sorted(set(norm_text(x) for x in ast.walk(qpm) if isinstance(x, ast.Attribute) and isinstance(x.value, ast.Name) and x.value.id == 'self'))
    if CUR in attrs:
      ctx.ob(rule, m, m.node, True, 'without a beat length the qpm is computed from %s' % CUR, construct=cons)
      continue
    stale = None
    for a in attrs:
      nm = a.split('.', 1)[1]
      vals = [(mm, st.value) for mm in ci.methods.values() for st in U.walk_stmts(mm.node) if isinstance(st, ast.Assign) and any(norm_text(t) == a for t in st.targets)]
      copies = [mm for mm, v in vals if norm_text(v) == CUR]
      if copies and all(norm_text(v) == CUR or (isinstance(v, ast.Constant) and v.value is None) for _mm, v in vals):
        changers = [mm.name for mm in ci.methods.values() if mm not in copies and
                    any(isinstance(st, ast.Assign) and any(norm_text(t) == CUR for t in st.targets) for st in U.walk_stmts(mm.node)) and
                    not any(isinstance(st, ast.Assign) and any(norm_text(t) == a for t in st.targets) for st in U.walk_stmts(mm.node))]
        if changers:
          stale = (a, copies[0].name, changers)
    if stale:
      ctx.ob(rule, m, m.node, False, 'without a beat length the qpm is computed from %s, a copy of the unit note length taken in %s; %s change%s the unit note length afterwards '
             'without refreshing the copy, so a bare Q: after an L: change in the body is counted in the old unit' % (
                 stale[0], stale[1], ', '.join(stale[2]), 's' if len(stale[2]) == 1 else ''), construct=cons, definite=True)
    else:
      why = 'cannot classify: without a beat length the qpm %s does not read %s' % (norm_text(qpm)[:80], CUR)
      ctx.ob(rule, m, m.node, False, why, construct=cons, unknown=why)
  if n == 0:
    why = 'cannot classify: no path of _add_tempo stores a qpm when no beat length is given'
    ctx.ob(rule, m, m.node, False, why, construct=cons, unknown=why)


def current_qpm(ctx, ci, rule):
  """Location-independent: notes are timed with "the tempo in force", which in a tune is the Q: field read last.  ABCTune._qpm must
  therefore take the last element of the tempo list (fields are appended as they are read).  Choosing by time - max(..., key=time),
  sorted(...)[-1] - is not the same: two Q: fields can stand at the same moment (a header Q: and an inline [Q:] before the first
  note), max returns the *first* of equal keys, and the earlier mark would govern."""
  m = ci.methods.get('_qpm')
  cons = 'the tempo in force is the tempo field read last'
  if m is None:
    why = 'cannot classify: ABCTune._qpm not found'
    ctx.ob(rule, ci, ci.node, False, why, construct=cons, unknown=why)
    return
  rets = [r for r in ast.walk(m.node) if isinstance(r, ast.Return) and r.value is not None and isinstance(r.value, ast.Attribute) and r.value.attr == 'qpm']
  if not rets:
    why = 'cannot classify: _qpm returns no .qpm of a tempo'
    ctx.ob(rule, m, m.node, False, why, construct=cons, unknown=why)
    return
  for r in rets:
    src = U.expand_locals(m.node, r.value.value, at=r)
    if isinstance(src, ast.Subscript) and U.const_value(src.slice) == -1 and norm_text(src.value).endswith('.tempos'):
      ctx.ob(rule, m, r, True, 'the last tempo of the list, i.e. the field read last', construct=cons)
    elif isinstance(src, ast.Call) and dotted(src.func) in ('max', 'min') and any(k.arg == 'key' for k in src.keywords):
      ctx.ob(rule, m, r, False, '%s picks the tempo by a key: among tempo fields that stand at the same moment %s returns the first one, so the field read last does not govern the '
             'notes that follow it' % (norm_text(src)[:70], dotted(src.func)), construct=cons, definite=True)
    else:
      why = 'cannot classify: the current tempo is taken from %s' % norm_text(src)[:70]
      ctx.ob(rule, m, r, False, why, construct=cons, unknown=why)


def run(ctx):
  from sa import pitfalls
  pitfalls.apply(ctx, 'PITFALL', [fi_ for q_, fi_ in sorted(ctx.P.module('abc_parser').all_functions.items()) if '<locals>' not in q_], ['shadowed-literal-branch'], {
      'shadowed-literal-branch': 'a notation the parser has a branch for (M:C| is cut time, 2/2) is read by the branch of another one (M:C, 4/4)'})
  midi_range_inclusive(ctx)
  current_qpm(ctx, ctx.cls('abc_parser:ABCTune'), 'TEMPO/last-read-governs')
  tune_separation(ctx, 'TUNES/blank-line-separation')
  bare_tempo_unit(ctx, ctx.cls('abc_parser:ABCTune'), 'TEMPO/bare-unit-current')
  fd = fold.Folder(ctx.P, ctx.S)
  ci = ctx.cls('abc_parser:ABCTune')
  cc = fd.class_consts(ci)
  for name in ('SIG_TO_KEYS', 'KEY_TO_SIG', 'KEY_TO_PROTO_KEY', 'SHARPS_ORDER', 'FLATS_ORDER', 'ABC_NOTE_TO_MIDI', 'KEY_PATTERN', 'NOTE_PATTERN'):
    ctx.require(name in cc, 'ABCTune.%s could not be folded' % name)
  # location-independent rules first: an anchored rule that gives up later must not mask them
  zero_is_a_value(ctx, ci)
  from sa import state
  n = state.check_instance_state(ctx, ci, 'STATE/per-tune')
  ctx.require(n >= 2, 'ABCTune: fewer in-place-mutated attributes than confirmed by hand (%d)' % n)
  tables(ctx, ci, cc)
  modes(ctx, ci, cc)
  tokens(ctx, ci, cc)
  contain(ctx, ci)
  keyerrors(ctx, ci, cc)
  accidentals(ctx, ci)
  broken_rhythm(ctx, ci)
  unit_length(ctx, ci)


def _ret_pos(i, n):
  """finder: the Name at position i of the (single) n-tuple returned by the function"""
  def f(fn):
    out = []
    for r in ast.walk(fn):
      if isinstance(r, ast.Return) and isinstance(r.value, ast.Tuple) and len(r.value.elts) == n and isinstance(r.value.elts[i], ast.Name):
        if r.value.elts[i].id not in out:
          out.append(r.value.elts[i].id)
    return out
  return f


def canon_parse_key(ctx):
  fi = ctx.func('abc_parser:ABCTune.parse_key')
  return Canon(fi, roles.discover(fi, {
      'key_components': lambda fn: roles.assigned_where(fn, lambda v, st: 'groups()' in norm_text(v)),
      'mode': lambda fn: roles.assigned_where(fn, lambda v, st: '[:3]' in norm_text(v)),
      'sig': lambda fn: roles.assigned_where(fn, lambda v, st: isinstance(v, ast.Subscript) and norm_text(v.value).endswith('KEY_TO_SIG')),
      'accidentals': _ret_pos(0, 3), 'proto_key': _ret_pos(1, 3), 'proto_mode': _ret_pos(2, 3),
  }))


def canon_music_code(ctx):
  fi = ctx.func('abc_parser:ABCTune._parse_music_code')
  return Canon(fi, roles.discover(fi, {
      'match': lambda fn: roles.assigned_where(fn, lambda v, st: isinstance(v, ast.Call) and isinstance(v.func, ast.Attribute) and v.func.attr == 'match'),
      'note': lambda fn: roles.assigned_where(fn, lambda v, st: norm_text(v) == 'self._ns.notes.add()'),
      'note_name': lambda fn: roles.assigned_where(fn, lambda v, st: norm_text(v).endswith('.group(2).upper()')),
      'pitch_change': lambda fn: roles.assigned_where(fn, lambda v, st: isinstance(v, ast.Constant) and v.value == 0 and isinstance(st.targets[0], ast.Name) and
                                                      any(isinstance(a, ast.For) and '.group(1)' in norm_text(a.iter) for a in ast.walk(fn)
                                                          if any(isinstance(x, ast.AugAssign) and norm_text(x.target) == st.targets[0].id for x in ast.walk(a)))),
      'octave': lambda fn: roles.loop_target_where(fn, lambda it, n: '.group(3)' in norm_text(it)),
  }))


def _assign_node(ci, name):
  for st in ci.node.body:
    if isinstance(st, ast.Assign) and any(isinstance(t, ast.Name) and t.id == name for t in st.targets):
      return st
  return ci.node


def tables(ctx, ci, cc):
  s2k = cc['SIG_TO_KEYS']
  node = _assign_node(ci, 'SIG_TO_KEYS')
  ok = sorted(s2k) == list(range(-7, 8))
  ctx.ob('TAB/signatures', ci, node, ok, 'all 15 key signatures -7..7 have a row' if ok else 'SIG_TO_KEYS rows are %s, expected -7..7' % sorted(s2k), construct='SIG_TO_KEYS covers -7..7')
  for sig in sorted(s2k):
    row = s2k[sig]
    seen_modes = []
    for k in row:
      sp = split_key(k)
      if sp is None or sp[1] not in MODE_DEGREE:
        ctx.ob('TAB/sig-to-keys', ci, node, False, 'SIG_TO_KEYS[%d] entry %r is not <tonic><mode suffix>' % (sig, k), construct='SIG_TO_KEYS[%d]: %s' % (sig, k))
        continue
      tonic, mode = sp
      seen_modes.append(mode)
      want = oracle_tonic(sig, mode)
      ok = tonic == want
      ctx.ob('TAB/sig-to-keys', ci, node, ok, '%s: signature %d in mode %r has tonic %s' % (k, sig, mode or 'major', want) if ok else
             'SIG_TO_KEYS[%d] lists %r, but the %s key with %d %s has tonic %s' % (sig, k, MODE_ENUM[mode].lower(), abs(sig), 'sharps' if sig > 0 else 'flats', want),
             construct='SIG_TO_KEYS[%d]: %s' % (sig, k))
    ok = sorted(seen_modes) == sorted(MODE_SUFFIX)
    ctx.ob('TAB/sig-modes', ci, node, ok, 'signature %d lists all 7 modes' % sig if ok else 'signature %d lists modes %s' % (sig, seen_modes), construct='SIG_TO_KEYS[%d] has 7 modes' % sig)
  # KEY_TO_SIG is the inverse
  k2s = cc['KEY_TO_SIG']
  want = {}
  for sig, row in s2k.items():
    for k in row:
      want[k.lower()] = sig
  ok = k2s == want
  ctx.ob('TAB/key-to-sig', ci, _assign_node(ci, 'KEY_TO_SIG'), ok, 'KEY_TO_SIG is the lower-cased inverse of SIG_TO_KEYS (%d keys)' % len(k2s) if ok else
         'KEY_TO_SIG is not the lower-cased inverse of SIG_TO_KEYS (differs on %s)' % sorted(set(k2s.items()) ^ set(want.items()))[:6], construct='KEY_TO_SIG = inverse(SIG_TO_KEYS)')
  # proto keys
  k2p = cc['KEY_TO_PROTO_KEY']
  pnode = _assign_node(ci, 'KEY_TO_PROTO_KEY')
  for spelling, val in sorted(k2p.items()):
    sp = spelling[0].upper() + spelling[1:]
    ok = isinstance(val, int) and int(val) == spelled_pc(sp)
    ctx.ob('TAB/proto-key-value', ci, pnode, ok, '%s -> %r (pitch class %d)' % (spelling, val, spelled_pc(sp)) if ok else
           'KEY_TO_PROTO_KEY[%r] = %r, but %s is pitch class %d' % (spelling, val, sp, spelled_pc(sp)), construct='KEY_TO_PROTO_KEY[%r]' % spelling)
  tonics = sorted(set(split_key(k)[0].lower() for row in s2k.values() for k in row if split_key(k)))
  for t in tonics:
    ok = t in k2p
    ctx.ob('TAB/proto-key-covers', ci, pnode, ok, 'tonic %s of the key table has a proto key' % t if ok else
           'tonic %r is spelled in SIG_TO_KEYS but missing from KEY_TO_PROTO_KEY: parse_key raises KeyError (not ABCParseError) and the whole tunebook is lost' % t,
           construct='KEY_TO_PROTO_KEY covers tonic %r' % t)
  ok = cc['SHARPS_ORDER'] == SHARPS
  ctx.ob('TAB/sharps-order', ci, _assign_node(ci, 'SHARPS_ORDER'), ok, 'sharps are added in circle-of-fifths order' if ok else 'SHARPS_ORDER is %r, the order of sharps is %s' % (cc['SHARPS_ORDER'], SHARPS))
  ok = cc['FLATS_ORDER'] == FLATS
  ctx.ob('TAB/flats-order', ci, _assign_node(ci, 'FLATS_ORDER'), ok, 'flats are added in circle-of-fifths order' if ok else 'FLATS_ORDER is %r, the order of flats is %s' % (cc['FLATS_ORDER'], FLATS))
  n2m = cc['ABC_NOTE_TO_MIDI']
  nnode = _assign_node(ci, 'ABC_NOTE_TO_MIDI')
  for l in LETTERS:
    for name, base in ((l, 60), (l.lower(), 72)):
      want_v = base + LETTER_PC[l]
      ok = n2m.get(name) == want_v
      ctx.ob('TAB/note-to-midi', ci, nnode, ok, 'ABC %s = MIDI %d' % (name, want_v) if ok else 'ABC_NOTE_TO_MIDI[%r] = %r, ABC 2.1 assigns %d' % (name, n2m.get(name), want_v), construct='ABC_NOTE_TO_MIDI[%r]' % name)
  ok = len(n2m) == 14
  ctx.ob('TAB/note-to-midi', ci, nnode, ok, '14 note letters' if ok else 'ABC_NOTE_TO_MIDI has %d entries' % len(n2m), construct='ABC_NOTE_TO_MIDI size')
  # _sig_to_accidentals: +1 for the first sig sharps, -1 for the first |sig| flats
  fi = ctx.func('abc_parser:ABCTune._sig_to_accidentals')
  fi = Canon(fi, roles.discover(fi, {
      'accidentals': lambda fn: [r.value.id for r in ast.walk(fn) if isinstance(r, ast.Return) and isinstance(r.value, ast.Name)],
      'i': lambda fn: sorted(set(n.target.id for n in ast.walk(fn) if isinstance(n, ast.For) and isinstance(n.target, ast.Name))),
  }))
  body = fi.node
  stores = [(norm_text(s.targets[0]), U.const_value(s.value)) for s in U.walk_stmts(body) if isinstance(s, ast.Assign) and isinstance(s.targets[0], ast.Subscript)]
  ok = ('accidentals[ABCTune.SHARPS_ORDER[i]]', 1) in stores and ('accidentals[ABCTune.FLATS_ORDER[i]]', -1) in stores
  rng = sorted(norm_text(n.iter) for n in ast.walk(body) if isinstance(n, ast.For))
  ok = ok and rng == ['range(abs(sig))', 'range(sig)']
  ctx.ob('TAB/sig-to-accidentals', fi, body, ok, 'a signature sharpens/flattens the first |sig| letters of the respective order' if ok else
         '_sig_to_accidentals does not map sig to +1 on SHARPS_ORDER[:sig] / -1 on FLATS_ORDER[:-sig]')


def modes(ctx, ci, cc):
  pat = cc['KEY_PATTERN']
  ctx.require(isinstance(pat, fold.Regex), 'KEY_PATTERN did not fold to a compiled regex')
  ic = bool(pat.flags & re.IGNORECASE)
  tree = rx.parse(pat.pattern, pat.flags)
  g3 = rx.find_group(tree, 3)
  ctx.require(g3 is not None, 'KEY_PATTERN has no third (mode) group')
  lang = rx.language(g3, False, finite_prefix=True)
  ctx.require(lang is not None, 'mode alternation of KEY_PATTERN is not a finite language')
  alts = sorted(set(a.lower() for a in lang if a))
  fi = canon_parse_key(ctx)
  fn = fi.node
  # folding: first three letters, min/aeo -> m, maj/ion -> ''
  def fold_mode(a):
    m = a[:3].lower()
    if m in ('min', 'aeo'):
      return 'm'
    if m in ('maj', 'ion'):
      return ''
    return m
  folds = [s for s in U.walk_stmts(fn) if isinstance(s, ast.If) and isinstance(s.test, ast.Compare) and isinstance(s.test.ops[0], ast.In) and norm_text(s.test.left) == 'mode']
  got = {}
  for s in folds:
    cur = s
    while cur is not None:
      try:
        vals = ast.literal_eval(cur.test.comparators[0])
      except Exception:
        vals = ()
      tgt = [x for x in cur.body if isinstance(x, ast.Assign) and norm_text(x.targets[0]) == 'mode']
      if tgt and isinstance(tgt[0].value, ast.Constant):
        for v in vals:
          got[v] = tgt[0].value.value
      cur = cur.orelse[0] if cur.orelse and isinstance(cur.orelse[0], ast.If) else None
  ok = got == {'min': 'm', 'aeo': 'm', 'maj': '', 'ion': ''}
  ctx.ob('MODE/fold', fi, folds[0] if folds else fn, ok, 'min/aeo fold to m and maj/ion to major' if ok else 'mode abbreviation folding is %s' % got, construct='min|aeo -> m, maj|ion -> ""')
  trunc = [s for s in U.walk_stmts(fn) if isinstance(s, ast.Assign) and norm_text(s.targets[0]) == 'mode' and '[:3]' in norm_text(s.value) and '.lower()' in norm_text(s.value)]
  ctx.ob('MODE/truncate', fi, trunc[0] if trunc else fn, bool(trunc), 'the mode is reduced to its first three letters, lower-cased' if trunc else 'the mode is not reduced to three lower-case letters before dispatch')
  # dispatch chain
  chain = {}
  else_raises = False
  for s in U.walk_stmts(fn):
    if isinstance(s, ast.If) and isinstance(s.test, ast.Compare) and norm_text(s.test.left) == 'mode' and isinstance(s.test.ops[0], ast.Eq) and isinstance(s.test.comparators[0], ast.Constant):
      tgt = [x for x in s.body if isinstance(x, ast.Assign) and norm_text(x.targets[0]) == 'proto_mode']
      if tgt:
        chain[s.test.comparators[0].value] = (norm_text(tgt[0].value).split('.')[-1], s)
      if s.orelse and not (len(s.orelse) == 1 and isinstance(s.orelse[0], ast.If)):
        else_raises = any(isinstance(x, ast.Raise) for x in s.orelse)
  for a in alts:
    m = fold_mode(a)
    ok = m in chain
    ctx.ob('MODE/dispatch', fi, chain[m][1] if ok else fn, ok, 'regex alternative %r is dispatched as mode %r' % (a, m) if ok else
           'KEY_PATTERN accepts mode %r but parse_key has no branch for %r' % (a, m), construct='mode alternative %r' % a)
  for m in MODE_SUFFIX:
    ok = m in chain and chain[m][0] == MODE_ENUM[m]
    ctx.ob('MODE/enum', fi, chain[m][1] if m in chain else fn, ok, 'mode %r -> %s' % (m, MODE_ENUM[m]) if ok else
           'mode suffix %r of the key table is mapped to %s, expected %s' % (m, chain[m][0] if m in chain else 'nothing', MODE_ENUM[m]), construct='mode %r -> %s' % (m, MODE_ENUM[m]))
  ctx.ob('MODE/else-raises', fi, fn, else_raises, 'an unknown mode raises ABCParseError' if else_raises else 'an unknown mode falls through without an error')
  # signature and proto key come from the tables via the same tonic spelling
  subs = {}
  for s in U.walk_stmts(fn):
    if isinstance(s, ast.Assign) and isinstance(s.value, ast.Subscript) and norm_text(s.value.value) in ('ABCTune.KEY_TO_SIG', 'ABCTune.KEY_TO_PROTO_KEY'):
      subs[norm_text(s.value.value)] = norm_text(s.value.slice)
  ok = subs.get('ABCTune.KEY_TO_SIG') == "''.join(key_components[0:2] + [mode]).lower()" and subs.get('ABCTune.KEY_TO_PROTO_KEY') == "''.join(key_components[0:2]).lower()"
  ctx.ob('MODE/lookups', fi, fn, ok, 'signature is looked up by tonic+mode, proto key by tonic (both lower-cased)' if ok else 'key table lookups use %s' % subs, construct='KEY_TO_SIG[tonic+mode], KEY_TO_PROTO_KEY[tonic]')
  # location-independent: an accidental written in the K: field names the accidental of that note ("^f": f is sharp), it does not
  # sharpen or flatten whatever the signature already says: the per-note entry is *assigned*, never incremented
  rel = [s for s in U.walk_stmts(fn) if isinstance(s, ast.AugAssign) and isinstance(s.target, ast.Subscript) and norm_text(s.target.value) == 'accidentals']
  for s in rel:
    ctx.ob('MODE/accidental-absolute', fi, s, False, '%s changes the accidental of a note *relative* to the key signature: "K:G ^f" then makes f a double sharp, "K:F _b" a double '
           'flat (ABC 2.1: the accidentals after the mode name are set explicitly)' % norm_text(s), construct='K: accidentals are set, not added', definite=True)
  if not rel:
    sets = [s for s in U.walk_stmts(fn) if isinstance(s, ast.Assign) and isinstance(s.targets[0], ast.Subscript) and norm_text(s.targets[0].value) == 'accidentals']
    if sets:
      ctx.ob('MODE/accidental-absolute', fi, sets[0], True, 'explicit accidentals of the K: field are assigned', construct='K: accidentals are set, not added', definite=True)
  exp = [s for s in U.walk_stmts(fn) if isinstance(s, ast.Assign) and norm_text(s.targets[0]) == 'accidentals']
  texts = sorted(norm_text(s.value) for s in exp)
  ok = texts == ['ABCTune._sig_to_accidentals(0)', 'ABCTune._sig_to_accidentals(sig)']
  ctx.ob('MODE/explicit', fi, exp[0] if exp else fn, ok, 'exp keys start from no accidentals, others from the signature' if ok else 'base accidentals are %s' % texts, construct='accidentals from sig, or none for exp')


def tokens(ctx, ci, cc):
  fi = canon_music_code(ctx)
  fn = fi.node
  tried = None
  for n in ast.walk(fn):
    if isinstance(n, ast.For) and isinstance(n.iter, ast.List) and all(isinstance(e, ast.Attribute) for e in n.iter.elts):
      tried = [e.attr for e in n.iter.elts]
  ctx.require(tried is not None, '_parse_music_code: the list of token regexes was not found')
  dispatched = {}
  for n in ast.walk(fn):
    sides = U.eq_sides(n, lambda a: norm_text(a) == 'match.re', lambda b: isinstance(b, ast.Attribute))
    if sides:
      dispatched.setdefault(sides[1].attr, n)
  for name in tried:
    ok = name in dispatched and name in cc
    ctx.ob('TOKEN/dispatched', fi, dispatched.get(name, fn), ok, '%s is tried and dispatched' % name if ok else
           'token regex %s is tried but %s' % (name, 'has no dispatch branch' if name not in dispatched else 'is not a foldable class constant'), construct='token %s' % name)
  for name in dispatched:
    if name not in tried:
      ctx.ob('TOKEN/dispatched', fi, dispatched[name], False, 'a branch dispatches on %s, which is never tried' % name, construct='token %s' % name)
  # unsupported constructs raise their documented class
  mi = fi.module
  base = ctx.cls('abc_parser:ABCParseError')
  for pat, cls in UNSUPPORTED.items():
    br = None
    for s in U.walk_stmts(fn):
      if isinstance(s, ast.If) and U.eq_sides(s.test, lambda a: norm_text(a) == 'match.re', lambda b: norm_text(b).endswith('.' + pat)):
        br = s
    ok = br is not None and len(br.body) == 1 and isinstance(br.body[0], ast.Raise) and isinstance(br.body[0].exc, ast.Call) and dotted(br.body[0].exc.func) == cls
    ctx.ob('TOKEN/unsupported', fi, br or fn, ok, '%s raises %s' % (pat, cls) if ok else 'the %s construct does not raise %s' % (pat, cls), construct='%s -> %s' % (pat, cls))
    c = mi.classes.get(cls)
    ok = c is not None and base in ctx.P.mro(c)
    ctx.ob('TOKEN/unsupported', fi, c.node if c else fn, ok, '%s is an ABCParseError' % cls if ok else '%s is not a subclass of ABCParseError' % cls, construct='%s <: ABCParseError' % cls)
  inv = [s for s in U.walk_stmts(fn) if isinstance(s, ast.If) and norm_text(s.test) == 'not match']
  ok = False
  if inv:
    r = [x for x in ast.walk(inv[0]) if isinstance(x, ast.Raise)]
    ok = len(r) == 1 and isinstance(r[0].exc, ast.Call) and dotted(r[0].exc.func) == 'InvalidCharacterError' and \
        any(isinstance(t, ast.If) and 'isspace()' in norm_text(t.test) for t in inv[0].body)
  ctx.ob('TOKEN/unsupported', fi, inv[0] if inv else fn, ok, 'an unmatched non-space character raises InvalidCharacterError' if ok else 'an unmatched character does not raise InvalidCharacterError')
  pf = ctx.func('abc_parser:ABCTune._parse_information_field')
  for field, cls in (('P', 'PartError'), ('V', 'MultiVoiceError')):
    br = None
    for s in U.walk_stmts(pf.node):
      if isinstance(s, ast.If) and isinstance(s.test, ast.Compare) and norm_text(s.test.left) == 'field_name' and isinstance(s.test.comparators[0], ast.Constant) and s.test.comparators[0].value == field:
        br = s
    ok = br is not None and any(isinstance(x, ast.Raise) and isinstance(x.exc, ast.Call) and dotted(x.exc.func) == cls for x in br.body)
    ctx.ob('TOKEN/unsupported', pf, br or pf.node, ok, 'field %s: raises %s' % (field, cls) if ok else 'information field %s: does not raise %s' % (field, cls), construct='%s: -> %s' % (field, cls))
    c = mi.classes.get(cls)
    ok = c is not None and base in ctx.P.mro(c)
    ctx.ob('TOKEN/unsupported', pf, c.node if c else pf.node, ok, '%s is an ABCParseError' % cls if ok else '%s is not a subclass of ABCParseError' % cls, construct='%s <: ABCParseError' % cls)
  c = mi.classes.get('InvalidCharacterError')
  ok = c is not None and base in ctx.P.mro(c)
  ctx.ob('TOKEN/unsupported', fi, c.node if c else fn, ok, 'InvalidCharacterError is an ABCParseError' if ok else 'InvalidCharacterError is not a subclass of ABCParseError', construct='InvalidCharacterError <: ABCParseError')


def contain(ctx, ci):
  fi = ctx.func('abc_parser:parse_abc_tunebook')
  fi = Canon(fi, roles.discover(fi, {'tunes': _ret_pos(0, 2), 'exceptions': _ret_pos(1, 2)}))
  fn = fi.node
  base = ctx.cls('abc_parser:ABCParseError')
  tr = [n for n in ast.walk(fn) if isinstance(n, ast.Try)]
  ctx.require(len(tr) == 1, 'parse_abc_tunebook: expected one try statement')
  t = tr[0]
  ctor_in = any(isinstance(c, ast.Call) and dotted(c.func) == 'ABCTune' for s in t.body for c in ast.walk(s))
  ctor_all = [c for c in U.calls_in(fn) if dotted(c.func) == 'ABCTune']
  ok = ctor_in and len(ctor_all) == 1
  ctx.ob('CONTAIN/ctor-in-try', fi, t, ok, 'each tune is parsed inside the try' if ok else 'ABCTune is constructed outside the per-tune try')
  hs = t.handlers
  ok = len(hs) >= 1 and any(dotted(h.type) == 'ABCParseError' for h in hs if h.type is not None)
  ctx.ob('CONTAIN/handler-class', fi, hs[0] if hs else t, ok, 'the handler catches ABCParseError (all parser errors)' if ok else
         'the per-tune handler catches %s, not the base class ABCParseError: other parse errors abort the tunebook' % [norm_text(h.type) if h.type else 'everything' for h in hs])
  for h in hs:
    app = any(isinstance(c.func, ast.Attribute) and c.func.attr == 'append' and norm_text(c.func.value) == 'exceptions' for c in U.calls_in(h))
    rer = any(isinstance(x, ast.Raise) for x in ast.walk(h))
    ctx.ob('CONTAIN/handler-body', fi, h, app and not rer, 'the error is appended to the returned list and not re-raised' if app and not rer else
           'the handler %s' % ('re-raises' if rer else 'does not record the exception'))
  stores = [s for s in U.walk_stmts(fn) if isinstance(s, ast.Assign) and isinstance(s.targets[0], ast.Subscript) and norm_text(s.targets[0].value) == 'tunes']
  ok = len(stores) == 1 and any(stores[0] is s for s in t.orelse)
  ctx.ob('CONTAIN/result-in-else', fi, stores[0] if stores else t, ok, 'a tune is stored only when it parsed' if ok else 'tunes[...] is not written exclusively in the else branch of the per-tune try')
  loop = next((n for n in fn.body if isinstance(n, ast.For) and any(x is t for x in ast.walk(n))), None)
  ok = loop is not None and not any(isinstance(x, (ast.Break, ast.Return)) for x in ast.walk(loop))
  ctx.ob('CONTAIN/no-early-exit', fi, loop or fn, ok, 'a failing tune does not end the loop over tunes' if ok else 'the loop over tunes can be left early')
  # every explicit raise inside ABCTune is an ABCParseError subclass
  mi = fi.module
  n = 0
  for m in ci.methods.values():
    for r in ast.walk(m.node):
      if isinstance(r, ast.Raise):
        n += 1
        cls = (dotted(r.exc.func) if isinstance(r.exc, ast.Call) else dotted(r.exc)) if r.exc is not None else None
        c = mi.classes.get(cls) if cls else None
        ok = c is not None and base in ctx.P.mro(c)
        ctx.ob('CONTAIN/raise-class', m, r, ok, 'raises %s (an ABCParseError)' % cls if ok else
               'raises %s, which the per-tune handler does not catch: one bad tune aborts the whole tunebook' % (cls or 're-raise'))
  ctx.require(n >= 20, 'only %d explicit raise sites found in ABCTune' % n)


def keyerrors(ctx, ci, cc):
  """Armed implicit raisers: subscripts of folded constant tables by regex groups."""
  fi = canon_music_code(ctx)
  n2m = cc['ABC_NOTE_TO_MIDI']
  pat = cc['NOTE_PATTERN']
  tree = rx.parse(pat.pattern, pat.flags)
  g2 = rx.find_group(tree, 2)
  lang = rx.language(g2) if g2 is not None else None
  sub = [n for n in ast.walk(fi.node) if isinstance(n, ast.Subscript) and norm_text(n.value) == 'ABCTune.ABC_NOTE_TO_MIDI']
  ok = lang is not None and lang <= set(n2m) and len(sub) >= 1 and all(norm_text(s.slice) == 'match.group(2)' for s in sub)
  ctx.ob('KEYERR/note-table', fi, sub[0] if sub else fi.node, ok, 'every letter matched by NOTE_PATTERN group 2 (%d) is a key of ABC_NOTE_TO_MIDI' % len(lang or ()) if ok else
         'NOTE_PATTERN group 2 can match %s, which ABC_NOTE_TO_MIDI lacks: KeyError escapes the tune' % sorted((lang or set()) - set(n2m)), construct='ABC_NOTE_TO_MIDI[match.group(2)]')
  dv = cc.get('DECORATION_TO_VELOCITY', {})
  init = ctx.func('abc_parser:ABCTune.__init__')
  sub = [n for n in ast.walk(init.node) if isinstance(n, ast.Subscript) and norm_text(n.value) == 'ABCTune.DECORATION_TO_VELOCITY']
  ok = all(isinstance(s.slice, ast.Constant) and s.slice.value in dv for s in sub) and len(sub) >= 1
  ctx.ob('KEYERR/decoration-table', init, sub[0] if sub else init.node, ok, 'the default dynamic is a key of DECORATION_TO_VELOCITY' if ok else 'the default dynamic is not in DECORATION_TO_VELOCITY')
  # KEY_TO_SIG / KEY_TO_PROTO_KEY by the spellings of the module's own table (the property's quantifier)
  k2s, k2p, s2k = cc['KEY_TO_SIG'], cc['KEY_TO_PROTO_KEY'], cc['SIG_TO_KEYS']
  missing_sig = [k for row in s2k.values() for k in row if k.lower() not in k2s]
  ctx.ob('KEYERR/key-to-sig', ci, _assign_node(ci, 'KEY_TO_SIG'), not missing_sig, 'every key of the table resolves to a signature' if not missing_sig else
         'keys %s of the table have no KEY_TO_SIG entry' % missing_sig, construct='KEY_TO_SIG total on the key table')
  kp = cc['KEY_PATTERN']
  tree = rx.parse(kp.pattern, kp.flags)
  l1 = rx.language(rx.find_group(tree, 1), True)
  l2 = rx.language(rx.find_group(tree, 2), True)
  dom = set((a + b).lower() for a in (l1 or ()) for b in (l2 or ()))
  table_tonics = set(split_key(k)[0].lower() for row in s2k.values() for k in row if split_key(k))
  ctx.note('KEY_PATTERN can match %d tonic spellings; the module\'s key table uses %d of them; the other %d (e.g. %s) are outside the property\'s quantifier and raise KeyError' % (
      len(dom), len(table_tonics), len(dom - table_tonics), sorted(dom - table_tonics)[:4]))
  ok = table_tonics <= dom
  ctx.ob('KEYERR/pattern-covers-table', ci, _assign_node(ci, 'KEY_PATTERN'), ok, 'KEY_PATTERN can spell every tonic of the key table' if ok else
         'KEY_PATTERN cannot match tonics %s of the key table' % sorted(table_tonics - dom), construct='KEY_PATTERN tonic groups cover the key table')
  # other potential implicit raisers are counted, not reported (open-world mode)
  cnt = 0
  for m in ci.methods.values():
    for n in ast.walk(m.node):
      if isinstance(n, ast.Subscript) and isinstance(n.ctx, ast.Load):
        cnt += 1
      if isinstance(n, ast.Call) and dotted(n.func) in ('int', 'Fraction'):
        cnt += 1
  ctx.unanalysed.append('%d subscript / int() / Fraction() sites in ABCTune are potential implicit raisers that this open-world analysis does not decide' % cnt)


def midi_range_inclusive(ctx, rule='PITCH/midi-range-inclusive'):
  """A note is rejected for its pitch exactly when the pitch lies outside 0..127: the guard of every raise that compares a value with
  MIN_MIDI_PITCH / MAX_MIDI_PITCH is evaluated for that value = 0, 127 (must pass) and -1, 128 (must raise)."""
  from sa import scenario, pathval
  fi = ctx.func('abc_parser:ABCTune._parse_music_code')
  n = 0
  for st in U.walk_stmts(fi.node):
    if not (isinstance(st, ast.If) and any(isinstance(x, ast.Raise) for x in st.body)):
      continue
    tx = st.test
    atoms = set(norm_text(a) for a in ast.walk(tx) if isinstance(a, (ast.Name, ast.Attribute)) and isinstance(getattr(a, 'ctx', None), ast.Load))
    if not any(a.split('.')[-1] in ('MIN_MIDI_PITCH', 'MAX_MIDI_PITCH') for a in atoms):
      continue
    subj = sorted(a for a in atoms if a.split('.')[-1] not in ('MIN_MIDI_PITCH', 'MAX_MIDI_PITCH') and a not in ('constants', 'range') and
                  not any(b != a and b.startswith(a + '.') for b in atoms))
    n += 1
    cons = 'a pitch is refused exactly outside 0..127 (%s)' % norm_text(st.test)[:50]
    if len(subj) != 1:
      ctx.note('midi range subject candidates: %s' % subj)
      why = 'cannot classify: the value compared with the MIDI pitch range in `%s` is not a single name' % norm_text(st.test)[:60]
      ctx.ob(rule, fi, st, False, why, construct=cons, unknown=why)
      continue
    # module constants are folded in the module's own context (MIN_MIDI_PITCH has another value in pianoroll_lib)
    fdr = fold.Folder(ctx.P, ctx.S)
    consts_ = {}
    for a_ in ast.walk(tx):
      if isinstance(a_, (ast.Name, ast.Attribute)) and norm_text(a_).split('.')[-1] in ('MIN_MIDI_PITCH', 'MAX_MIDI_PITCH'):
        try:
          k_ = fdr.expr(fi.module, a_, {})
        except Exception:      # pylint: disable=broad-except
          k_ = None
        if isinstance(k_, int):
          consts_[norm_text(a_)] = ast.Constant(value=k_)
    for v, want in ((0, False), (127, False), (-1, True), (128, True)):
      got = scenario.fold_numeric(pathval.subst(tx, dict(consts_, **{subj[0]: ast.Constant(value=v)})), {})
      if got is None:
        why = 'cannot classify: `%s` cannot be evaluated for %s = %d' % (norm_text(st.test)[:60], subj[0], v)
        ctx.ob(rule, fi, st, False, why, construct=cons + ' @ %d' % v, unknown=why)
      else:
        ok = bool(got) == want
        ctx.ob(rule, fi, st, ok, 'pitch %d is %s' % (v, 'refused' if want else 'accepted') if ok else
               'the test `%s` %s pitch %d: %s' % (norm_text(st.test)[:60], 'refuses' if got else 'accepts', v,
                                                    'a note on MIDI pitch %d is valid (0..127 inclusive) and its tune is dropped with ABCParseError' % v if got else 'a pitch outside 0..127 is stored into the sequence'),
               construct=cons + ' @ %d' % v, definite=True)
  if n == 0:
    why = 'cannot classify: no raise guarded by a comparison with MIN_MIDI_PITCH / MAX_MIDI_PITCH in ABCTune._parse_music_code'
    ctx.ob(rule, fi, fi.node, False, why, construct='a pitch is refused exactly outside 0..127', unknown=why)


def zero_is_a_value(ctx, ci):
  """A natural sign stores the pitch change 0 for its letter, and 0 must override the key signature for the rest of the bar.
  So a value read from the bar-accidental table must never be used for its truth value (`x or y`, `if x`, `not x`): that
  would treat the stored natural as "nothing stored".  Location-independent: every method of ABCTune is scanned."""
  n = 0
  for m in ci.methods.values():
    pm = U.parents(m.node)
    for node in ast.walk(m.node):
      read = None
      if isinstance(node, ast.Call) and isinstance(node.func, ast.Attribute) and node.func.attr == 'get' and norm_text(node.func.value).endswith('._bar_accidentals'):
        read = node
      elif isinstance(node, ast.Subscript) and isinstance(node.ctx, ast.Load) and norm_text(node.value).endswith('._bar_accidentals'):
        read = node
      if read is None:
        continue
      n += 1
      par = pm.get(id(read))
      truthy = (isinstance(par, ast.BoolOp) and read in par.values[:-1] if isinstance(par, ast.BoolOp) and isinstance(par.op, ast.Or) else False) or \
          (isinstance(par, ast.BoolOp) and isinstance(par.op, ast.And)) or \
          (isinstance(par, (ast.If, ast.While, ast.IfExp)) and par.test is read) or \
          (isinstance(par, ast.UnaryOp) and isinstance(par.op, ast.Not))
      ctx.ob('ACC/zero-is-a-value', m, read, not truthy, 'the stored pitch change is used as a number' if not truthy else
             'the pitch change read from the bar-accidental table (%s) is tested for truth: a natural (stored as 0) falls through to the key signature' % norm_text(par)[:80],
             construct='bar accidental %s not used as a truth value' % norm_text(read), definite=True)
  ctx.require(n >= 1, 'no read of the bar-accidental table found in ABCTune')


def accidentals(ctx, ci):
  fi = canon_music_code(ctx)
  fn = fi.node
  br = None
  for s in U.walk_stmts(fn):
    if isinstance(s, ast.If) and norm_text(s.test) == 'match.group(1)' and any(norm_text(x).startswith('self._bar_accidentals[') for x in ast.walk(s) if isinstance(x, ast.Subscript)):
      br = s
  ctx.require(br is not None, '_parse_music_code: accidental handling not found')
  second = br.orelse[0] if br.orelse and isinstance(br.orelse[0], ast.If) else None
  ok = second is not None and norm_text(second.test) == 'note_name in self._bar_accidentals' and \
      [norm_text(x) for x in second.body] == ['note.pitch += self._bar_accidentals[note_name]'] and \
      [norm_text(x) for x in second.orelse] == ['note.pitch += self._accidentals[note_name]']
  ctx.ob('ACC/precedence', fi, br, ok, 'explicit accidental, else bar accidental, else key accidental' if ok else
         'accidental sources are not consulted in the order explicit > bar > key')
  rec = any(norm_text(x) == 'self._bar_accidentals[note_name] = pitch_change' for x in br.body)
  app = any(norm_text(x) == 'note.pitch += pitch_change' for x in br.body)
  ctx.ob('ACC/explicit-recorded', fi, br, rec and app, 'an explicit accidental is applied and remembered for the rest of the bar' if rec and app else
         'an explicit accidental is not both applied and recorded for the bar')
  clears = [c for c in U.calls_in(fn) if norm_text(c.func) == 'self._bar_accidentals.clear']
  ok = len(clears) == 1
  if ok:
    tests = [norm_text(t) for (t, pol) in U.enclosing_tests(fn, U.parent(fn, clears[0])) if pol]
    ok = any('BAR_AND_REPEAT_SYMBOLS_PATTERN' in t for t in tests[:1])
  # location-independent: *every* bar symbol ends the scope of the bar's accidentals - the clearing may depend on which pattern
  # matched, never on what the bar symbol looks like (its colons / brackets, i.e. the groups of the match)
  def _reads_groups(x):
    return any(isinstance(y, ast.Call) and isinstance(y.func, ast.Attribute) and y.func.attr in ('group', 'groups') for y in ast.walk(x))
  group_names = set()       # locals that hold (parts of) the groups of the match, also through tuple unpacking and derived values
  changed_ = True
  while changed_:
    changed_ = False
    for st2 in U.walk_stmts(fn):
      if isinstance(st2, ast.Assign) and (_reads_groups(st2.value) or any(isinstance(y, ast.Name) and y.id in group_names for y in ast.walk(st2.value))):
        for t2 in st2.targets:
          for y in ast.walk(t2):
            if isinstance(y, ast.Name) and y.id not in group_names:
              group_names.add(y.id)
              changed_ = True
  for c_ in clears:
    st_ = U.parent(fn, c_)
    cs_ = [(U.expand_locals(fn, t, at=st_), pol) for t, pol in U.path_conditions(fn, st_)]
    shape = [(t, pol) for t, pol in cs_ if _reads_groups(t) or any(isinstance(y, ast.Name) and y.id in group_names for y in ast.walk(t))]
    ctx.ob('ACC/bar-clears-every-bar', fi, c_, not shape, 'the clearing does not depend on the shape of the bar symbol' if not shape else
           'bar accidentals are cleared only when %s: a bar line that carries repeat colons or brackets (:|, |:, ::, |], [|) no longer ends the scope of the accidentals written in the bar before, '
           'so a later note of that letter is still altered' % ' and '.join(('' if pol else 'not ') + norm_text(t) for t, pol in shape)[:160],
           construct='every bar symbol clears the bar accidentals', definite=True)
  ctx.ob('ACC/bar-clears', fi, clears[0] if clears else fn, ok, 'bar accidentals are cleared exactly at bar lines' if ok else
         'bar accidentals are not cleared exactly in the bar-line branch')
  upper = any(isinstance(s, ast.Assign) and norm_text(s.targets[0]) == 'note_name' and norm_text(s.value) == 'match.group(2).upper()' for s in U.walk_stmts(fn))
  ctx.ob('ACC/octave-independent', fi, fn, upper, 'accidentals are keyed by the upper-cased letter (apply in every octave)' if upper else 'accidentals are not keyed by the upper-cased note letter')
  # octave marks
  octs = {}
  for s in U.walk_stmts(fn):
    if isinstance(s, ast.If) and isinstance(s.test, ast.Compare) and norm_text(s.test.left) == 'octave' and isinstance(s.test.comparators[0], ast.Constant):
      for x in s.body:
        if isinstance(x, ast.AugAssign) and norm_text(x.target) == 'note.pitch':
          octs[s.test.comparators[0].value] = (type(x.op).__name__, U.const_value(x.value))
  ok = octs == {"'": ('Add', 12), ',': ('Sub', 12)}
  ctx.ob('ACC/octaves', fi, fn, ok, "' raises and , lowers by 12" if ok else 'octave marks map to %s' % octs, construct="octave marks ' -> +12, , -> -12")


# ------------------------------------------------------------------ broken rhythm (ABC 2.1, 4.4)
def broken_rhythm(ctx, ci):
  """'>' * n: the second note keeps 1/2**n of its length and the first gains the rest; '<' * n mirrored.
  So the boundary between the two (equal) notes moves by  len - len / 2**n, later for '>', earlier for '<'."""
  m = ci.methods.get('_apply_broken_rhythm')
  ctx.require(m is not None, 'ABCTune._apply_broken_rhythm not found')
  sym = m.params()[1]
  rhythm_paths(ctx, m, sym)
  lens = roles.assigned_where(m.node, lambda v, st: isinstance(v, ast.BinOp) and isinstance(v.op, ast.Sub) and norm_text(v.left).endswith('.end_time') and
                              norm_text(v.right).endswith('.start_time') and norm_text(v.left).split('.')[0] == norm_text(v.right).split('.')[0])
  ctx.require(len(lens) == 2, '_apply_broken_rhythm: the two note lengths were not found')
  n1 = norm_text([st for st in U.walk_stmts(m.node) if isinstance(st, ast.Assign) and norm_text(st.targets[0]) == lens[0]][0].value.left).split('.')[0]
  n2 = norm_text([st for st in U.walk_stmts(m.node) if isinstance(st, ast.Assign) and norm_text(st.targets[0]) == lens[1]][0].value.left).split('.')[0]
  # which of the two is the earlier note is decided by how it is fetched (notes[-2] before notes[-1]), not by statement order
  pos = {}
  for st in U.walk_stmts(m.node):
    if isinstance(st, ast.Assign) and isinstance(st.targets[0], ast.Name) and isinstance(st.value, ast.Subscript) and isinstance(U.const_value(st.value.slice), int):
      pos[st.targets[0].id] = U.const_value(st.value.slice)
  if n1 in pos and n2 in pos and pos[n1] > pos[n2]:
    n1, n2 = n2, n1
  # equal-length precondition
  eq = [s for s in U.walk_stmts(m.node) if isinstance(s, ast.If) and any(isinstance(x, ast.Raise) for x in s.body) and
        U.eq_sides(s.test, lambda a: norm_text(a) == lens[0], lambda b: norm_text(b) == lens[1], ops=(ast.NotEq,))]
  ctx.ob('RHYTHM/equal-lengths', m, eq[0] if eq else m.node, bool(eq), 'notes of different lengths are rejected' if eq else
         'broken rhythm is applied to notes of different lengths without an error (the shift below assumes equal lengths)')
  # the moves: which variable is added/subtracted
  moves = {}
  for s in U.walk_stmts(m.node):
    if isinstance(s, ast.AugAssign) and isinstance(s.op, (ast.Add, ast.Sub)) and isinstance(s.value, ast.Name):
      tests = [t for (t, pol) in U.enclosing_tests(m.node, s) if pol]
      which = None
      for t in tests:
        sd = U.eq_sides(t, lambda a: isinstance(a, ast.Subscript) and norm_text(a.value) == sym and U.const_value(a.slice) == 0,
                        lambda b: isinstance(b, ast.Constant) and b.value in ('<', '>'))
        if sd:
          which = sd[1].value
      if which:
        moves.setdefault(which, []).append((norm_text(s.target), 'Add' if isinstance(s.op, ast.Add) else 'Sub', s.value.id, s))
  adj = set(x[2] for v in moves.values() for x in v)
  ok = len(adj) == 1 and sorted((t, o) for (t, o, _a, _s) in moves.get('>', [])) == sorted([(n1 + '.end_time', 'Add'), (n2 + '.start_time', 'Add')]) and \
      sorted((t, o) for (t, o, _a, _s) in moves.get('<', [])) == sorted([(n1 + '.end_time', 'Sub'), (n2 + '.start_time', 'Sub')])
  ctx.ob('RHYTHM/direction', m, m.node, ok, "'>' moves the boundary between the two notes later, '<' earlier, by the same amount on both notes" if ok else
         "the boundary between the two notes is not moved later for '>' and earlier for '<' on both notes: %s" % {k: [(t, o) for (t, o, _a, _s) in v] for k, v in moves.items()},
         construct='broken rhythm direction')
  if len(adj) == 1:
    a = adj.pop()
    st = [s for s in U.walk_stmts(m.node) if isinstance(s, ast.Assign) and norm_text(s.targets[0]) == a]
    ok = False
    got = None
    if len(st) == 1:
      try:
        got = nf.rat(st[0].value)
        ok = any(got.equals(nf.rat(U.E('%s - %s / (2 ** len(%s))' % (ln, ln, sym)))) for ln in lens)      # the two lengths were checked equal
      except nf.NFError:
        ok = False
    ctx.ob('RHYTHM/shift', m, st[0] if st else m.node, ok, 'the boundary moves by len - len / 2**n (dotted / double dotted / triple dotted first note)' if ok else
           'the boundary moves by %s, not by len - len / 2**n: ABC 2.1 (4.4) makes the shortened note 1/2**n of its length (> 1.5+0.5, >> 1.75+0.25, >>> 1.875+0.125)' % (
               norm_text(st[0].value) if st else '?'), construct='broken rhythm shift = len - len / 2**n')


# ------------------------------------------------------------------ default unit note length (ABC 2.1, 3.1.7 L:)
def unit_length(ctx, ci):
  """No L: field: meter < 0.75 -> 1/16, meter >= 0.75 -> 1/8, free meter -> 1/8.  The meter is touched only
  through one comparison with a constant, so the three orderings (below, equal, above) decide the rule."""
  m = ci.methods.get('_set_unit_note_length_from_header')
  ctx.require(m is not None, 'ABCTune._set_unit_note_length_from_header not found')
  ratio = roles.assigned_where(m.node, lambda v, st: isinstance(v, ast.BinOp) and isinstance(v.op, ast.Div) and norm_text(v.left).endswith('.numerator') and
                               norm_text(v.right).endswith('.denominator'))
  ctx.require(len(ratio) == 1, '_set_unit_note_length_from_header: meter ratio not found')
  r = ratio[0]

  def length_of(block):
    for st in block:
      if isinstance(st, ast.Assign) and norm_text(st.targets[0]).endswith('._current_unit_note_length') and isinstance(st.value, ast.Call) and \
          (dotted(st.value.func) or '').endswith('Fraction') and len(st.value.args) == 2:
        a, b = U.const_value(st.value.args[0]), U.const_value(st.value.args[1])
        if isinstance(a, int) and isinstance(b, int) and b:
          return (a, b)
    return None

  br = [st for st in U.walk_stmts(m.node) if isinstance(st, ast.If) and isinstance(st.test, ast.Compare) and len(st.test.ops) == 1 and
        r in (norm_text(st.test.left), norm_text(st.test.comparators[0]))]
  ctx.require(len(br) == 1, '_set_unit_note_length_from_header: expected one comparison of the meter with a constant, found %d' % len(br))
  t = br[0].test
  other = t.comparators[0] if norm_text(t.left) == r else t.left
  k = U.const_value(other)
  ctx.require(isinstance(k, (int, float)), '_set_unit_note_length_from_header: the meter is not compared with a constant')
  import operator
  ops = {ast.Lt: operator.lt, ast.LtE: operator.le, ast.Gt: operator.gt, ast.GtE: operator.ge, ast.Eq: operator.eq, ast.NotEq: operator.ne}
  f = ops.get(type(t.ops[0]))
  ctx.require(f is not None, '_set_unit_note_length_from_header: unexpected comparison operator')
  got = {}
  for label, val in (('below', k - 0.25), ('equal', k), ('above', k + 0.25)):
    taken = f(val, k) if norm_text(t.left) == r else f(k, val)
    got[label] = length_of(br[0].body if taken else br[0].orelse)
  want = {'below': (1, 16), 'equal': (1, 8), 'above': (1, 8)}
  ok = k == 0.75 and got == want
  ctx.ob('UNIT/default-length', m, br[0], ok, 'meter < 3/4 -> L:1/16, meter >= 3/4 -> L:1/8' if ok else
         'default unit note length by meter (threshold %r): %s; ABC 2.1 says below 0.75 -> 1/16, 0.75 and above -> 1/8' % (k, got), construct='default L: from M:')
  free = [st for st in U.walk_stmts(m.node) if isinstance(st, ast.If) and norm_text(st.test).replace(' ', '') in ('notself._ns.time_signatures',)]
  okf = len(free) == 1 and length_of(free[0].body) == (1, 8)
  ctx.ob('UNIT/free-meter', m, free[0] if free else m.node, okf, 'free meter -> L:1/8' if okf else 'free meter does not default to L:1/8', construct='default L: for free meter')


def rhythm_paths(ctx, m, sym):
  """Location-independent: every path through _apply_broken_rhythm is followed by substitution (sa.pathval); on the paths taken for
  '<' and for '>' the values left in <first note>.end_time and <second note>.start_time are compared, as rational normal forms,
  with the ABC rule: with L the common length and P = 2 ** len(symbol), '>' leaves the second note L/P long and gives the rest
  to the first (the boundary moves later by L - L/P), '<' is the mirror image.  The comparison is made under the equalities the
  function itself establishes or the notation implies (equal lengths; the second note starts where the first ends): normal forms
  that differ under them differ for every ordinary pair of adjacent notes."""
  from sa import pathval
  E = U.E
  fn = m.node
  # the two notes by how they are fetched: notes[-2] is the first, notes[-1] the second
  pos = {}
  for st in fn.body:
    if isinstance(st, ast.Assign) and isinstance(st.targets[0], ast.Name) and isinstance(st.value, ast.Subscript) and U.const_value(st.value.slice) in (-1, -2):
      pos[U.const_value(st.value.slice)] = st.targets[0].id
  if set(pos) != {-1, -2}:
    return
  a, b = pos[-2], pos[-1]
  body = [st for st in fn.body if not (isinstance(st, ast.If) and any(isinstance(x, ast.Raise) for x in st.body) and not st.orelse) and
          not (isinstance(st, ast.Assign) and isinstance(st.targets[0], ast.Name) and st.targets[0].id in (a, b))]
  try:
    ps = pathval.paths(body, {})
  except pathval.PathError:
    return
  S1, E1, S2, E2 = (ast.Name(id=x, ctx=ast.Load()) for x in ('S1', 'E1', 'S2', 'E2'))
  env = {'%s.start_time' % a: E('S1'), '%s.end_time' % a: E('S1 + L'), '%s.start_time' % b: E('S1 + L'), '%s.end_time' % b: E('S1 + L + L'),
         '2 ** len(%s)' % sym: E('P')}

  def R(x):
    class Sub(ast.NodeTransformer):
      def generic_visit(self, node):
        if isinstance(node, ast.expr) and norm_text(node) in env:
          return env[norm_text(node)]
        return super().generic_visit(node)

      def visit(self, node):
        if isinstance(node, ast.expr) and norm_text(node) in env:
          return env[norm_text(node)]
        return super().visit(node)
    import copy
    return nf.rat(Sub().visit(copy.deepcopy(x)))
  want = {'>': ('S1 + L + L - L / P'), '<': ('S1 + L / P')}
  for conds, out, end in ps:
    if end != 'fall':
      continue
    which = None
    for t, pol in conds:
      sd = U.eq_sides(t, lambda x: norm_text(x) == '%s[0]' % sym, lambda y: isinstance(y, ast.Constant) and y.value in ('<', '>'))
      if sd and pol:
        which = sd[1].value
    if which is None:
      continue
    for loc, label in (('%s.end_time' % a, 'the end of the first note'), ('%s.start_time' % b, 'the start of the second note')):
      if loc not in out:
        ctx.ob('RHYTHM/boundary', m, fn, False, "for '%s' %s is not moved" % (which, label), construct="broken rhythm '%s': %s" % (which, label), definite=True)
        continue
      try:
        d = R(out[loc]) - nf.rat(E(want[which]))
      except nf.NFError:
        continue
      ok = d.is_zero()
      ctx.ob('RHYTHM/boundary', m, fn, ok, "for '%s' %s is where the ABC rule puts it" % (which, label) if ok else
             "for '%s' %s becomes %s; with L the common length and P = 2**len(symbol) the rule puts it at %s (difference %r): right for a single '%s' at most" % (
                 which, label, norm_text(out[loc]), want[which].replace('S1', 'start'), d, which), construct="broken rhythm '%s': %s" % (which, label), definite=True)


MUTANTS = [
    Mutant('seed C04_e: a meter of exactly 3/4 gets L:1/16', F, "      if ratio < 0.75:\n        self._current_unit_note_length = Fraction(1, 16)\n      else:\n        self._current_unit_note_length = Fraction(1, 8)",
           "      if ratio > 0.75:\n        self._current_unit_note_length = Fraction(1, 8)\n      else:\n        self._current_unit_note_length = Fraction(1, 16)", rule='UNIT/default-length'),
    Mutant('branches swapped with the test negated (harmless)', F, "      if ratio < 0.75:\n        self._current_unit_note_length = Fraction(1, 16)\n      else:\n        self._current_unit_note_length = Fraction(1, 8)",
           "      if ratio >= 0.75:\n        self._current_unit_note_length = Fraction(1, 8)\n      else:\n        self._current_unit_note_length = Fraction(1, 16)", expect='silent'),
    Mutant('broken rhythm shift len/2**n again (the defect fixed in af186e9)', F, "    time_adj = note1_len - note1_len / (2 ** len(broken_rhythm))", "    time_adj = note1_len / (2 ** len(broken_rhythm))", rule='RHYTHM/shift'),
    Mutant("'<' lengthens the first note", F, "    if broken_rhythm[0] == '<':\n      note1.end_time -= time_adj\n      note2.start_time -= time_adj", "    if broken_rhythm[0] == '<':\n      note1.end_time += time_adj\n      note2.start_time += time_adj", rule='RHYTHM/direction'),
    Mutant('shift written as a product (harmless)', F, "    time_adj = note1_len - note1_len / (2 ** len(broken_rhythm))", "    time_adj = note1_len * (1 - 1 / (2 ** len(broken_rhythm)))", expect='silent'),
    Mutant('seed C04_b: bar accidentals become a class-level dict shared by all tunes', F, "  FLATS_ORDER = 'BEADGCF'\n", "  FLATS_ORDER = 'BEADGCF'\n  _bar_accidentals = {}\n", rule='STATE/per-tune',
           also=[(F, "    self._bar_accidentals = {}\n", "")]),
    Mutant('class-level default None with the per-tune dict still made in __init__ (harmless)', F, "  FLATS_ORDER = 'BEADGCF'\n", "  FLATS_ORDER = 'BEADGCF'\n  _bar_accidentals = None\n", expect='silent'),
    Mutant('row deleted from the proto key table', F, "      'ab': music_pb2.NoteSequence.KeySignature.A_FLAT,\n", '', rule='TAB/proto-key-covers'),
    Mutant('F# mapped to G', F, "      'f#': music_pb2.NoteSequence.KeySignature.F_SHARP,", "      'f#': music_pb2.NoteSequence.KeySignature.G,", rule='TAB/proto-key-value'),
    Mutant('two tonics swapped in the 3-sharp row', F, "      3: ['A', 'F#m', 'EMix', 'BDor', 'C#Phr', 'DLyd', 'G#Loc'],", "      3: ['A', 'F#m', 'BMix', 'EDor', 'C#Phr', 'DLyd', 'G#Loc'],", rule='TAB/sig-to-keys'),
    Mutant('Bb major filed under 3 flats', F, "      -2: ['Bb', 'Gm',", "      -2: ['Eb', 'Gm',", rule='TAB/'),
    Mutant('lydian parsed as dorian', F, "    elif mode == 'lyd':\n      proto_mode = music_pb2.NoteSequence.KeySignature.LYDIAN", "    elif mode == 'lyd':\n      proto_mode = music_pb2.NoteSequence.KeySignature.DORIAN", rule='MODE/enum'),
    Mutant('locrian branch removed', F, "    elif mode == 'loc':\n      proto_mode = music_pb2.NoteSequence.KeySignature.LOCRIAN\n", '', rule='MODE/'),
    Mutant('ionian not folded to major', F, "    elif mode in ('maj', 'ion'):", "    elif mode in ('maj',):", rule='MODE/'),
    Mutant('sharps order wrong', F, "  SHARPS_ORDER = 'FCGDAEB'", "  SHARPS_ORDER = 'FCGDEAB'", rule='TAB/sharps-order'),
    Mutant('lower-case c an octave too high', F, "      'c': 72,", "      'c': 84,", rule='TAB/note-to-midi'),
    Mutant('handler catches repeat errors only', F, '    except ABCParseError as e:\n      exceptions.append(e)', '    except RepeatParseError as e:\n      exceptions.append(e)', rule='CONTAIN/handler-class'),
    Mutant('handler re-raises', F, '    except ABCParseError as e:\n      exceptions.append(e)', '    except ABCParseError as e:\n      exceptions.append(e)\n      raise', rule='CONTAIN/handler-body'),
    Mutant('tuplets raise ValueError', F, "        raise TupletError('Tuplets are not supported.')", "        raise ValueError('Tuplets are not supported.')", rule=None),
    Mutant('TupletError detached from the hierarchy', F, 'class TupletError(ABCParseError):', 'class TupletError(Exception):', rule=None),
    Mutant('tune constructed before the try', F, '    try:\n      # The header sets default values for each tune, so prepend it to every\n      # tune that is being parsed.\n      abc_tune = ABCTune(header + tune)',
           '    abc_tune = ABCTune(header + tune)\n    try:\n      pass', rule='CONTAIN/ctor-in-try'),
    Mutant('decoration pattern no longer tried', F, '          ABCTune.DECORATION_PATTERN,\n          ABCTune.SLUR_PATTERN,', '          ABCTune.SLUR_PATTERN,', rule='TOKEN/dispatched'),
    Mutant('key accidentals win over bar accidentals', F, '        elif note_name in self._bar_accidentals:\n          note.pitch += self._bar_accidentals[note_name]\n        else:',
           '        elif note_name not in self._accidentals and note_name in self._bar_accidentals:\n          note.pitch += self._bar_accidentals[note_name]\n        else:', rule='ACC/precedence'),
    Mutant('bar accidentals never cleared', F, '          self._bar_accidentals.clear()\n', '          pass\n', rule='ACC/bar-clears'),
    Mutant('octave comma raises', F, "            elif octave == ',':\n              note.pitch -= 12", "            elif octave == ',':\n              note.pitch += 12", rule='ACC/octaves'),
    Mutant('parts silently ignored', F, "      raise PartError('ABC parts are not yet supported.')", '      pass', rule='TOKEN/unsupported'),
    Mutant('note letter H accepted', F, "      r'(__|_|=|\\^|\\^\\^)?([A-Ga-g])([\\',]*)(\\d*/*\\d*)')", "      r'(__|_|=|\\^|\\^\\^)?([A-Ha-h])([\\',]*)(\\d*/*\\d*)')", rule='KEYERR/note-table'),
    # equivalent
    Mutant('table rows reordered', F, "      'c': music_pb2.NoteSequence.KeySignature.C,\n      'c#': music_pb2.NoteSequence.KeySignature.C_SHARP,", "      'c#': music_pb2.NoteSequence.KeySignature.C_SHARP,\n      'c': music_pb2.NoteSequence.KeySignature.C,", expect='silent'),
    Mutant('handler catches the base Exception too', F, '    except ABCParseError as e:\n      exceptions.append(e)', '    except ABCParseError as err:\n      exceptions.append(err)', expect='silent'),
    Mutant('flats order built from the sharps order', F, "  FLATS_ORDER = 'BEADGCF'", "  FLATS_ORDER = SHARPS_ORDER[::-1]", expect='silent'),
]

RENAME_FUNCS = [(F, 'ABCTune._apply_broken_rhythm'), (F, 'parse_abc_tunebook'), (F, 'ABCTune.parse_key'), (F, 'ABCTune._parse_music_code'), (F, 'ABCTune._sig_to_accidentals'),
                (F, 'ABCTune._parse_information_field'), (F, 'ABCTune.__init__')]

EXPLANATION += (' Location-independent additions: RHYTHM/boundary (path-wise values of both note boundaries compared in rational normal form with the ABC rule), MODE/accidental-absolute (K: accidentals assigned, not incremented).')
EXPLANATION += (' Round 6: ' + 'TUNES/blank-line-separation (no cut at a literal newline sequence; lines come from splitlines and are stripped before the emptiness test); TEMPO/bare-unit-current (path-wise: without a beat length the qpm reads the current unit note length, not a snapshot attribute other methods do not refresh).')
EXPLANATION += (' Round 7: ' + 'ACC/bar-clears-every-bar (the clearing never depends on the groups of the bar-symbol match); TEMPO/last-read-governs (_qpm is the last element of the tempo list, not max(..., key=time)).')
EXPLANATION += (' Rounds 9-10: ' + 'PITFALL/shadowed-literal-branch over abc_parser (string scenarios on if/elif chains that dispatch on a text).')
EXPLANATION += (' Round 11: ' + 'PITCH/midi-range-inclusive (the pitch rejection guard evaluated at -1, 0, 127, 128).')
