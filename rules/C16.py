"""C16 - decoding arbitrary bytes as MIDI fails only with MIDIConversionError (DESIGN.md §3.3, §4 C16)."""
import ast

from sa import esc, pmfacts, astutil as U
from sa.esc import BOUNDED, UNBOUNDED
from sa.loader import norm_text, dotted
from sa.selftest import Mutant

PROPERTY = 'C16'
F = 'note_seq/midi_io.py'
LEVEL_TEXT = (
    'Closed-world exception-escape analysis of note-seq\'s own MIDI reader: the third-party parser is constructed inside a '
    'handler that catches everything and re-raises MIDIConversionError; every statement after it is checked by a small '
    'type-and-effect system to be of a non-raising form (typed attribute loads on pretty_midi / protobuf objects, add(), '
    'float/str/bool/enum stores, int32 stores whose source is bounded by the MIDI field widths, division/modulo by non-zero '
    'constants, tuple unpacking of known arity, list append) or to sit inside a handler that converts to MIDIConversionError; '
    'explicit raises are of the allowed class only. Sound for note-seq\'s code under the stated type facts; what pretty_midi/mido '
    'themselves raise or return for arbitrary bytes is outside (it is caught by the bare except). Well-formedness: the total_time '
    'max-reduction and the note collection share one loop and condition, and pitch/velocity/times are copied without arithmetic.')
LEVEL_NOTE = ('Trusted: pretty_midi attribute types and MIDI field widths (attribute names and constructor signatures are re-read from the '
              'installed package on every run); protobuf raises only ValueError/TypeError on scalar stores; get_tempo_changes is a pure getter (checked in source).')
TECHNIQUE = 'static analysis: closed-world exception-escape (type-and-effect) analysis of the reader, handler matching by class, pairing rules'
DESIGN_REF = 'DESIGN.md sections 3.3 and 4 (C16)'
EXPLANATION = (
    'ESC/closed-world over midi_to_note_sequence (and its three thin wrappers): one obligation per statement/expression form and '
    'per protobuf store; reported sites are those that may raise something other than MIDIConversionError. CTOR: the PrettyMIDI '
    'constructor is inside a catch-all handler that raises the allowed class. PAIR: total_time vs. note emission. COPY: field-for-field '
    'copies without arithmetic. PMFACTS: assumed pretty_midi attributes exist in the installed source.')
EXPLANATION += (' ' + 'The escape analysis recognises comprehensions over typed lists and the total builtins (max/min with default, len, abs, any/all); PAIR/total-time accepts the if-form and the max() form of the running maximum in the collecting loop.')
TRUSTED = ['MIDI field widths: numerator/controller/value/pitch/velocity/program one data byte, pitch bend 14 bit, resolution 16 bit, key_number 0..23; denominator = 2**byte is unbounded',
           'pretty_midi attribute names (verified against the installed source each run)']
NOT_DECIDED = ['what pretty_midi / mido raise or return for arbitrary bytes (caught wholesale)', 'non-negativity of times delivered by pretty_midi']
ASSUMPTIONS = ['a PrettyMIDI object passed in directly by the caller is well-typed']
# rules whose verdict does not depend on how the statements are arranged (semantic analyses); all other rules are shape rules:
# when one of those fails in a function that was restructured relative to reference/signatures.json the verdict is "cannot decide"
ROBUST = ('ESC/wrapper', 'ESC/exception-class', 'CTOR', 'PMFACTS')
FLOORS = {'ESC': 40, 'CTOR': 2, 'PAIR': 2, 'COPY': 10, 'PMFACTS': 7}

ALLOWED = {'MIDIConversionError'}

ATTR_TYPES = {
    'PM': {'resolution': BOUNDED, 'time_signature_changes': ('list', 'TS'), 'key_signature_changes': ('list', 'KS'),
           'instruments': ('list', 'INST')},
    'TS': {'numerator': BOUNDED, 'denominator': UNBOUNDED, 'time': 'float'},
    'KS': {'key_number': BOUNDED, 'time': 'float'},
    'INST': {'program': BOUNDED, 'is_drum': 'bool', 'name': 'str', 'notes': ('list', 'NOTE'), 'pitch_bends': ('list', 'PB'),
             'control_changes': ('list', 'CC')},
    'NOTE': {'velocity': BOUNDED, 'pitch': BOUNDED, 'start': 'float', 'end': 'float'},
    'PB': {'pitch': BOUNDED, 'time': 'float'},
    'CC': {'number': BOUNDED, 'value': BOUNDED, 'time': 'float'},
}
PM_CLASS = {'PM': 'PrettyMIDI', 'TS': 'TimeSignature', 'KS': 'KeySignature', 'INST': 'Instrument', 'NOTE': 'Note', 'PB': 'PitchBend', 'CC': 'ControlChange'}


def _zip(an, node, argt):
  return ('zip', argt)


def _enumerate(an, node, argt):
  return ('enumerate', argt[0] if argt else 'unknown')


CALL_TYPES = {
    'modules': ('pretty_midi', 'music_pb2', 'io', 'sys', 'constants'),
    'isinstance': 'bool',
    'isinstance:pretty_midi.PrettyMIDI': 'PM',
    'zip': _zip,
    'enumerate': _enumerate,
    'music_pb2.NoteSequence': ('msg', 'NoteSequence'),
    'PM.get_tempo_changes': ('tuple', ['ndarray', 'ndarray']),
    'sys.exc_info': ('tuple', ['exc', 'exc', 'exc']),
}


def resolution_positive(ctx, fi, pm, rule):
  """Location-independent: "every event time is non-negative".  Event times are ticks x seconds-per-tick, and seconds-per-tick is
  60 / (tempo x resolution): a negative resolution makes every time after the first tempo change negative.  Whether the
  third-party loader can hand over a negative resolution is read from the installed sources (sa.pmfacts: mido unpacks the
  header's division as a signed short, so an SMPTE division arrives negative; PrettyMIDI stores it unchecked).  If it can, no
  return of midi_to_note_sequence may be reachable with midi.resolution == -1 (three-valued evaluation of the path conditions)."""
  from sa import scenario
  can, why = pm.division_can_be_negative()
  cons = 'a non-positive resolution (SMPTE division) is rejected with MIDIConversionError'
  if can is None:
    ctx.ob(rule, fi, fi.node, False, why, construct=cons, unknown='cannot classify: ' + why)
    return
  if can is False:
    ctx.ob(rule, fi, fi.node, True, 'the installed loader cannot produce a negative resolution (%s)' % why, construct=cons)
    return
  fn = fi.node
  obj = None
  for st in U.walk_stmts(fn):
    if isinstance(st, ast.Assign) and isinstance(st.value, ast.Attribute) and st.value.attr == 'resolution':
      obj = norm_text(st.value)
  for n in ast.walk(fn):
    if obj is None and isinstance(n, ast.Attribute) and n.attr == 'resolution':
      obj = norm_text(n)
  rets = [r for r in U.walk_stmts(fn, into_nested=False) if isinstance(r, ast.Return)]
  if obj is None or not rets:
    whyu = 'cannot classify: midi_to_note_sequence does not read .resolution / has no return'
    ctx.ob(rule, fi, fn, False, whyu, construct=cons, unknown=whyu)
    return
  # the object may come out of a module-level helper that already refuses a non-positive resolution: then every return of the
  # helper that hands back a freshly decoded object (not the caller's own PrettyMIDI instance) must be unreachable with
  # <returned>.resolution == -1
  holder = obj.rsplit('.', 1)[0]
  src = None
  for st in U.walk_stmts(fn, into_nested=False):
    if isinstance(st, ast.Assign) and len(st.targets) == 1 and norm_text(st.targets[0]) == holder and isinstance(st.value, ast.Call):
      src = fi.module.functions.get(dotted(st.value.func) or '')
  if src is not None:
    hrets = [r for r in U.walk_stmts(src.node, into_nested=False) if isinstance(r, ast.Return) and r.value is not None]
    verdicts = []
    for r in hrets:
      conds = [(U.expand_locals(src.node, t, at=r), p) for t, p in U.path_conditions(src.node, r)]
      if any(p and isinstance(t, ast.Call) and dotted(t.func) == 'isinstance' for t, p in conds):
        continue          # the caller's own object is handed back: not the byte-string path the property speaks of
      rv = norm_text(r.value)
      rvx = norm_text(U.expand_locals(src.node, r.value, at=r))
      verdicts.append(scenario.tv_all(conds, scenario.subst_of([(rv + '.resolution', '-1'), (rvx + '.resolution', '-1')])) if conds else True)
    if verdicts and all(v is False for v in verdicts):
      ctx.ob(rule, src, src.node, True, '%s never returns a decoded object with resolution -1' % src.qualname, construct=cons)
      return
  for r in rets:
    conds = [(U.expand_locals(fn, t, at=r), p) for t, p in U.path_conditions(fn, r)]
    objx = norm_text(U.expand_locals(fn, U.E(obj), at=r))      # the same object as the expanded conditions spell it
    # only the conditions that read the resolution say anything about it
    conds = [(t, p) for t, p in conds if any(norm_text(x) in (obj, objx) for x in ast.walk(t))]
    res = scenario.tv_all(conds, scenario.subst_of([(obj, '-1'), (objx, '-1')])) if conds else True
    if res is False:
      ctx.ob(rule, fi, r, True, 'the return is unreachable with %s == -1' % obj, construct=cons)
    elif any(any(norm_text(x) in (obj, objx) for x in ast.walk(t)) for t, _p in conds) and res is None:
      whyu = 'cannot classify: the conditions on %s before the return cannot be evaluated at -1' % obj
      ctx.ob(rule, fi, r, False, whyu, construct=cons, unknown=whyu)
    else:
      ctx.ob(rule, fi, r, False, '%s; midi_to_note_sequence returns a NoteSequence built from it without testing %s: a file with an SMPTE division and a tempo change comes '
             'back with negative tempo times and a negative ticks_per_quarter instead of MIDIConversionError' % (why, obj), construct=cons, definite=True)


def handlers_cannot_raise_another_class(ctx, rule='ESC/handler-decodes-bytes'):
  """Location-independent: what an `except` arm does before it raises MIDIConversionError runs outside every try of its own function -
  an exception raised *there* leaves as itself.  The input is arbitrary bytes, so `<bytes>.decode()` without an `errors=` argument (to
  quote the first bytes of the input in the message, say) raises UnicodeDecodeError for input that is not valid text.  Every handler
  of midi_io (helpers included) is read; a strict `.decode(...)` in a handler that is not itself inside a try body is the violation."""
  mi = ctx.P.module('midi_io')
  n = 0
  for q, fi in sorted(mi.all_functions.items()):
    pm_ = U.parents(fi.node)
    for h in ast.walk(fi.node):
      if not isinstance(h, ast.ExceptHandler):
        continue
      n += 1
      bad = []
      for c in ast.walk(ast.Module(body=h.body, type_ignores=[])):
        if isinstance(c, ast.Call) and isinstance(c.func, ast.Attribute) and c.func.attr == 'decode' and len(c.args) < 2 and not any(k.arg == 'errors' for k in c.keywords):
          # is the call inside a try body nested in the handler?
          cur, inner = pm_.get(id(c)), False
          while cur is not None and cur is not h:
            if isinstance(cur, ast.Try):
              inner = True
            cur = pm_.get(id(cur))
          if not inner:
            bad.append(c)
      cons = '%s: the handler at line %d raises nothing but the conversion error' % (q, h.lineno)
      ctx.ob(rule, fi, bad[0] if bad else h, not bad, 'no strict bytes.decode() in the handler' if not bad else
             '`%s` in the except arm decodes input bytes strictly: for data that is not valid text (first bytes \\x80..., \\xff\\xfe) it raises UnicodeDecodeError, which leaves %s instead of '
             'MIDIConversionError' % (norm_text(bad[0])[:50], q), construct=cons, definite=True)
  ctx.require(n >= 1, 'midi_io: no except handler found')


def run(ctx):
  handlers_cannot_raise_another_class(ctx)
  pm = pmfacts.PMFacts()
  for t, tab in ATTR_TYPES.items():
    cls = PM_CLASS[t]
    have = pm.attrs[cls] | pm.methods[cls]
    for a in tab:
      ok = a in have
      ctx.ob('PMFACTS/attribute', ctx.P.module('midi_io'), 'pretty_midi.%s.%s' % (cls, a), ok,
             'installed pretty_midi.%s defines %s' % (cls, a) if ok else 'installed pretty_midi.%s has no attribute %s: the type facts are stale' % (cls, a),
             construct='pretty_midi.%s.%s' % (cls, a))
  ok = pm.get_tempo_changes_is_pure()
  ctx.ob('PMFACTS/pure-getter', ctx.P.module('midi_io'), 'PrettyMIDI.get_tempo_changes', ok, 'get_tempo_changes neither raises explicitly nor writes self' if ok else
         'PrettyMIDI.get_tempo_changes is not a pure getter in the installed version', construct='PrettyMIDI.get_tempo_changes is pure')

  fi = ctx.func('midi_io:midi_to_note_sequence')
  resolution_positive(ctx, fi, pm, 'WELLFORMED/resolution-positive')
  ctor(ctx, fi)
  call_types = dict(CALL_TYPES)
  an = esc.ClosedWorld(ctx, fi, ALLOWED, ATTR_TYPES, ctx.S, {'midi_data': 'bytes'}, call_types)
  # the guarded constructor: calls inside the catch-all handler are discharged by it
  call_types['pretty_midi.PrettyMIDI'] = 'PM'
  call_types['io.BytesIO'] = 'unknown'
  issues = an.run()
  seen = set()
  for i in issues:
    k = (i.node.lineno, i.why)
    if k in seen:
      continue
    seen.add(k)
    # a typed finding (a recognised form that can raise a specific class outside a converting handler) is a positive result of the
    # analysis, wherever the statement stands; class 'Any' only says that the form is outside what the checker recognises
    ctx.ob('ESC/may-escape', fi, i.node, False, '%s (class %s) - only MIDIConversionError may leave midi_to_note_sequence' % (i.why, i.exc),
           definite=i.positive, unknown=(None if i.positive else i.why))
  ctx.ob('ESC/closed-world', fi, fi.node, not issues,
         '%d statement/expression forms and %d protobuf stores examined: none can raise anything but MIDIConversionError' % (an.checked, an.stores) if not issues else
         '%d sites may let another exception escape' % len(seen), construct='midi_to_note_sequence: closed-world escape analysis')
  ctx.count('esc_forms_checked', an.checked)
  ctx.count('esc_stores_checked', an.stores)
  # one obligation per store / raise / call for the evidence
  for n in ast.walk(fi.node):
    if isinstance(n, ast.Raise):
      cls = (dotted(n.exc.func) if isinstance(n.exc, ast.Call) else dotted(n.exc)) if n.exc is not None else None
      ok = cls is not None and cls.split('.')[-1] in ALLOWED
      if ok:
        ctx.ob('ESC/raise-class', fi, n, True, 'explicit raise of %s' % cls)
    if isinstance(n, ast.Assign) and isinstance(n.targets[0], ast.Attribute) and not any(i.node is n.targets[0] for i in issues):
      ctx.ob('ESC/store', fi, n, True, 'store cannot raise, or its ValueError is converted')
  pairing(ctx, fi)
  wrappers(ctx)
  exc_class(ctx)


def ctor(ctx, fi):
  calls = [c for c in U.calls_in(fi.node) if dotted(c.func) == 'pretty_midi.PrettyMIDI']
  ctx.require(len(calls) == 1, 'midi_to_note_sequence: expected exactly one PrettyMIDI construction, found %d' % len(calls))
  c = calls[0]
  tr = next((a for a in U.ancestors(fi.node, c) if isinstance(a, ast.Try)), None)
  ok = tr is not None and any(x is c for s in tr.body for x in ast.walk(s))
  catch_all = ok and any(h.type is None or (dotted(h.type) or '') in ('Exception', 'BaseException') for h in tr.handlers)
  # exception translation by a context manager of the module (a class with an __exit__ that raises): what it catches and what it
  # raises is decided by its arguments at run time, which this rule does not model
  via_with = None
  if not catch_all:
    for a in U.ancestors(fi.node, c):
      if isinstance(a, ast.With):
        for it in a.items:
          ce = it.context_expr
          cls = fi.module.classes.get(ce.func.id) if isinstance(ce, ast.Call) and isinstance(ce.func, ast.Name) else None
          ex = next((m for m in (cls.node.body if cls is not None else []) if isinstance(m, ast.FunctionDef) and m.name == '__exit__'), None)
          if ex is not None and any(isinstance(x, ast.Raise) for x in ast.walk(ex)):
            via_with = 'cannot classify: the PrettyMIDI constructor runs inside `with %s(...)`, whose __exit__ translates exceptions' % ce.func.id
  ctx.ob('CTOR/guarded', fi, c, bool(catch_all), 'the third-party parser runs inside a catch-all handler' if catch_all else
         'the PrettyMIDI constructor is not inside a handler that catches every exception: parser errors escape as-is', unknown=via_with)
  conv = False
  if catch_all:
    for h in tr.handlers:
      if h.type is None or (dotted(h.type) or '') in ('Exception', 'BaseException'):
        rs = [x for x in h.body if isinstance(x, ast.Raise)]
        conv = len(rs) == 1 and rs[0].exc is not None and isinstance(rs[0].exc, ast.Call) and U.raised_class(fi.module, rs[0].exc)[0] in ALLOWED and h.body[-1] is rs[0]
  ctx.ob('CTOR/converted', fi, tr or c, conv, 'the handler re-raises MIDIConversionError' if conv else
         'the catch-all handler does not end by raising MIDIConversionError (it swallows or re-raises the original)', unknown=via_with)


def total_monotone(ctx, fi):
  """Wherever midi_to_note_sequence assigns total_time inside a loop, the assignment must be a running maximum (guarded by
  `value > total_time`, or max(total_time, ...)): a plain assignment in a loop is overwritten by later iterations, so notes
  seen earlier can end after total_time.  Location-independent: decided for every such assignment, however the loops are arranged."""
  fn = fi.node
  n = 0
  for st in U.walk_stmts(fn):
    if not (isinstance(st, ast.Assign) and len(st.targets) == 1 and isinstance(st.targets[0], ast.Attribute) and st.targets[0].attr == 'total_time'):
      continue
    n += 1
    ttxt = norm_text(st.targets[0])
    vtxt = norm_text(st.value)
    loops = U.enclosing_loops(fn, st)
    tests = U.enclosing_tests(fn, st, stop_at=loops[-1] if loops else None)
    guarded = any(U.is_gt_guard(tp, vtxt, ttxt) for tp in tests) or \
        any(pol and isinstance(t, ast.BoolOp) and isinstance(t.op, ast.Or) and any(U.is_gt_guard((p_, True), vtxt, ttxt) for p_ in t.values) for (t, pol) in tests)
    viamax = isinstance(st.value, ast.Call) and dotted(st.value.func) == 'max' and any(norm_text(a) == ttxt for a in st.value.args)
    ok = guarded or viamax or not loops
    # the value itself: `max(notes, key=K).end` is the largest end only if K orders by end first
    from sa import grouping
    for a in ast.walk(U.expand_locals(fn, st.value, at=st)):
      if isinstance(a, ast.Attribute) and a.attr == 'end' and isinstance(a.value, ast.Call) and dotted(a.value.func) == 'max':
        kf = grouping.key_fields(next((k.value for k in a.value.keywords if k.arg == 'key'), None), fn)
        if kf is not None:
          okk = kf[0] == 'end'
          ctx.ob('PAIR/total-is-max-end', fi, st, okk, 'the note chosen by max(...) is one with the largest end' if okk else
                 'total_time takes the end of the note that is largest by %s: a note that starts earlier but is released later ends after total_time' % (tuple(kf),),
                 construct='total_time from max(notes, key=...).end', definite=True)
    ctx.ob('PAIR/total-monotone', fi, st, ok, 'total_time is only ever raised (running maximum)' if ok else
           'total_time is assigned %s inside a loop without being compared with its current value: a later iteration lowers it below the end of a note seen earlier' % vtxt,
           construct='total_time assignment is a running maximum: %s' % norm_text(st)[:80], definite=True)
  ctx.require(n >= 1, 'midi_to_note_sequence never assigns total_time')


def pairing(ctx, fi):
  total_monotone(ctx, fi)
  fn = fi.node
  loop = None
  for n in ast.walk(fn):
    if isinstance(n, ast.For) and norm_text(n.iter).endswith('.notes') and not norm_text(n.iter).startswith('sequence'):
      loop = n
  ctx.require(loop is not None, 'midi_to_note_sequence: note collection loop not found')
  v = loop.target.id
  red = [s for s in loop.body if isinstance(s, ast.If) and any(norm_text(t).endswith('.total_time') for x in s.body for t, _v, _o in U.store_targets(x))]
  app = [s for s in loop.body if isinstance(s, ast.Expr) and isinstance(s.value, ast.Call) and isinstance(s.value.func, ast.Attribute) and s.value.func.attr == 'append']
  ok = len(red) == 1 and len(app) == 1
  # equivalent idiom: <seq>.total_time = max(<seq>.total_time, <note>.end), unconditionally in the collecting loop
  mx = [s for s in loop.body if isinstance(s, ast.Assign) and len(s.targets) == 1 and norm_text(s.targets[0]).endswith('.total_time') and isinstance(s.value, ast.Call) and
        dotted(s.value.func) == 'max' and not s.value.keywords and sorted(norm_text(a) for a in s.value.args) == sorted([norm_text(s.targets[0]), '%s.end' % v])]
  if not red and len(mx) == 1 and len(app) == 1:
    red = mx
    ok = True
  elif ok:
    parts = red[0].test.values if isinstance(red[0].test, ast.BoolOp) and isinstance(red[0].test.op, ast.Or) else [red[0].test]
    gt = any(U.compare_full(p) is not None and U.compare_full(p)[1] == '<' and U.compare_full(p)[0].endswith('.total_time') and U.compare_full(p)[2] == '%s.end' % v for p in parts)
    st = red[0].body[0]
    ok = gt and isinstance(st, ast.Assign) and norm_text(st.value) == '%s.end' % v
  ctx.ob('PAIR/total-time', fi, red[0] if red else loop, ok, 'total_time is the max of the collected note ends, in the collecting loop and unconditionally' if ok else
         'total_time is not max-reduced over exactly the notes that are collected', construct='collect note <-> total_time = max(end)')
  lst = norm_text(app[0].value.func.value) if app else None
  emit = next((n for n in fn.body if isinstance(n, ast.For) and norm_text(n.iter) == lst), None)
  ok = emit is not None and not any(isinstance(x, (ast.Continue, ast.Break, ast.If)) for x in ast.walk(emit))
  ctx.ob('PAIR/all-emitted', fi, emit or fn, ok, 'every collected note is emitted' if ok else 'the emission loop skips some collected notes (their end may exceed nothing, but they are lost)',
         construct='every collected note emitted')
  # field-for-field copies
  copies = {
      'start_time': 'start', 'end_time': 'end', 'pitch': 'pitch', 'velocity': 'velocity', 'bend': 'pitch', 'control_number': 'number',
      'control_value': 'value', 'numerator': 'numerator', 'denominator': 'denominator', 'qpm': None, 'instrument': None, 'program': None, 'is_drum': None, 'time': None,
  }
  for st in U.walk_stmts(fn):
    if isinstance(st, ast.Assign) and isinstance(st.targets[0], ast.Attribute) and st.targets[0].attr in copies:
      a = st.targets[0].attr
      v = st.value
      plain = isinstance(v, (ast.Name, ast.Attribute))
      ok = plain and (copies[a] is None or (isinstance(v, ast.Attribute) and v.attr == copies[a]))
      ctx.ob('COPY/field', fi, st, ok, '%s is copied from %s without arithmetic' % (a, norm_text(v)) if ok else
             '%s is computed as %s instead of being copied from the parsed event%s' % (a, norm_text(v), ' (.%s)' % copies[a] if copies[a] else ''))


def exc_class(ctx):
  """Raising MIDIConversionError(...) is the conversion point of every handler: constructing it must not be able to raise.
  The class therefore defines no constructor / formatting hooks of its own (it inherits Exception's)."""
  mi = ctx.P.module('midi_io')
  ci = mi.classes.get('MIDIConversionError')
  ctx.require(ci is not None, 'midi_io.MIDIConversionError not found')
  hooks = sorted(n for n in ci.methods if n in ('__init__', '__new__', '__str__', '__repr__', '__reduce__', '__getattr__', '__setattr__'))
  bases = [dotted(b) for b in ci.node.bases]
  ok = not hooks and bases == ['Exception']
  ctx.ob('ESC/exception-class', ci, ci.methods[hooks[0]].node if hooks else ci.node, ok,
         'MIDIConversionError is a plain Exception subclass: constructing it cannot raise' if ok else
         'MIDIConversionError defines %s (bases %s): code that runs while the error is being constructed can raise another exception out of the handler' % (hooks or 'no hooks', bases),
         construct='MIDIConversionError has no constructor hooks')


def wrappers(ctx):
  for name, target in (('midi_file_to_note_sequence', 'midi_to_note_sequence'), ('midi_to_sequence_proto', 'midi_to_note_sequence'),
                       ('midi_file_to_sequence_proto', 'midi_file_to_note_sequence')):
    fi = ctx.func('midi_io:' + name)
    calls = [dotted(c.func) for c in U.calls_in(fi.node)]
    # the file object is whatever name the `with open(...) as <name>` binds
    fobj = [it.optional_vars.id for w_ in ast.walk(fi.node) if isinstance(w_, ast.With) for it in w_.items
            if isinstance(it.optional_vars, ast.Name) and isinstance(it.context_expr, ast.Call) and dotted(it.context_expr.func) == 'open']
    # a module-level helper that only opens, reads and closes a file is the same file access moved into a function
    def _file_reader(nm):
      h = fi.module.functions.get(nm)
      if h is None or any(isinstance(x, ast.Raise) for x in ast.walk(h.node)):
        return False
      hc = [dotted(c.func) or '' for c in U.calls_in(h.node)]
      return bool(hc) and all(c in ('open', 'io.open') or c.endswith('.read') or c.endswith('.close') for c in hc)
    # reading a file: open / read / close on the file object, spooling it into an in-memory buffer (io.BytesIO, shutil.copyfileobj, getvalue) -
    # the exceptions these can raise are those of file access, which the property leaves to the caller
    def _file_access(c):
      if c is None:
        return False
      return c in ('open', 'io.open', 'io.BytesIO', 'shutil.copyfileobj') or (c.split('.')[-1] in ('read', 'close', 'getvalue', 'readinto', 'seek', 'append') and '.' in c)
    # the blocks read are put together with b''.join(...): a call on a bytes literal, which cannot fail on a list of bytes
    def _joins_bytes(call):
      return isinstance(call.func, ast.Attribute) and call.func.attr == 'join' and isinstance(call.func.value, ast.Constant) and isinstance(call.func.value.value, bytes)
    calls = [dotted(c.func) if not _joins_bytes(c) else 'open' for c in U.calls_in(fi.node)]
    extra = [c for c in calls if c != target and not _file_access(c) and not _file_reader(c)]
    raises = [n for n in ast.walk(fi.node) if isinstance(n, ast.Raise)]
    ok = target in calls and not extra and not raises
    ctx.ob('ESC/wrapper', fi, fi.node, ok, '%s only reads the file and delegates to %s' % (name, target) if ok else
           '%s does more than delegate to %s (%s): additional exception sources' % (name, target, extra or 'raise'), construct='%s delegates to %s' % (name, target))


MUTANTS = [
    Mutant('F28 reverted: a non-positive resolution (SMPTE division) is accepted', F, "  if midi.resolution <= 0:\n    raise MIDIConversionError(\n        'Unsupported time division (resolution %d)' % midi.resolution)\n", '', rule='WELLFORMED/'),
    Mutant('resolution guard tests != 0 only', F, "  if midi.resolution <= 0:\n    raise MIDIConversionError(", "  if midi.resolution == 0:\n    raise MIDIConversionError(", rule='WELLFORMED/'),
    Mutant('resolution guard written as not > 0 (harmless)', F, "  if midi.resolution <= 0:\n    raise MIDIConversionError(", "  if not midi.resolution > 0:\n    raise MIDIConversionError(", expect='silent'),

    Mutant('seed C16_e: the error records the cause message in a constructor that can raise IndexError', F, "class MIDIConversionError(Exception):\n  pass\n",
           "class MIDIConversionError(Exception):\n\n  def __init__(self, *args):\n    super().__init__(*args)\n    cause = sys.exc_info()[1]\n    self.reason = cause.args[0] if cause is not None else None\n", rule='ESC/exception-class'),
    Mutant('the error class gets a docstring (harmless)', F, "class MIDIConversionError(Exception):\n  pass\n", 'class MIDIConversionError(Exception):\n  \"\"\"Raised when MIDI data cannot be converted.\"\"\"\n', expect='silent'),
    Mutant('seed C16_b: total_time overwritten per instrument by max(..., default=...)', F, "    for midi_note in midi_instrument.notes:\n      if not sequence.total_time or midi_note.end > sequence.total_time:\n        sequence.total_time = midi_note.end\n",
           "    sequence.total_time = max((midi_note.end for midi_note in midi_instrument.notes), default=sequence.total_time)\n    for midi_note in midi_instrument.notes:\n", rule='PAIR/'),
    Mutant('running maximum written with max() (harmless)', F, "      if not sequence.total_time or midi_note.end > sequence.total_time:\n        sequence.total_time = midi_note.end\n",
           "      sequence.total_time = max(sequence.total_time, midi_note.end)\n", expect='silent'),
    Mutant('denominator store outside its handler', F, "    try:\n      # Denominator can be too large for int32.\n      time_signature.denominator = midi_time.denominator\n    except ValueError:\n      raise MIDIConversionError('Invalid time signature denominator %d' %\n                                midi_time.denominator)\n",
           "    time_signature.denominator = midi_time.denominator\n", rule='ESC/may-escape'),
    Mutant('constructor guarded for ValueError only', F, "      midi = pretty_midi.PrettyMIDI(io.BytesIO(midi_data))\n    except:\n", "      midi = pretty_midi.PrettyMIDI(io.BytesIO(midi_data))\n    except ValueError:\n", rule='CTOR/'),
    Mutant('invalid mode raises KeyError', F, "      raise MIDIConversionError('Invalid midi_mode %i' % midi_mode)", "      raise KeyError('Invalid midi_mode %i' % midi_mode)", rule='ESC/may-escape'),
    Mutant('handler re-raises the original', F, "    except:\n      raise MIDIConversionError('Midi decoding error %s: %s' %\n                                (sys.exc_info()[0], sys.exc_info()[1]))", "    except:\n      raise", rule='CTOR/converted'),
    Mutant('denominator handler catches TypeError', F, "    except ValueError:\n      raise MIDIConversionError('Invalid time signature denominator %d' %", "    except TypeError:\n      raise MIDIConversionError('Invalid time signature denominator %d' %", rule='ESC/may-escape'),
    Mutant('first tempo read by index', F, "  tempo_times, tempo_qpms = midi.get_tempo_changes()\n", "  tempo_times, tempo_qpms = midi.get_tempo_changes()\n  sequence.tempos.add().qpm = tempo_qpms[0]\n", rule='ESC/may-escape'),
    Mutant('ticks scaled by resolution', F, "  sequence.ticks_per_quarter = midi.resolution\n", "  sequence.ticks_per_quarter = 220 * 220 // midi.resolution\n", rule='ESC/may-escape'),
    Mutant('numerator squared', F, "    time_signature.numerator = midi_time.numerator\n", "    time_signature.numerator = midi_time.numerator ** midi_time.numerator\n", rule='ESC/may-escape'),
    Mutant('instrument name looked up in a table', F, "      instrument_info.name = midi_instrument.name\n", "      instrument_info.name = {'': 'piano'}[midi_instrument.name]\n", rule='ESC/may-escape'),
    Mutant('asserts well-formed notes', F, "    note.end_time = midi_note.end\n", "    note.end_time = midi_note.end\n    assert note.end_time >= note.start_time\n", rule='ESC/may-escape'),
    Mutant('total_time only from the first instrument', F, "      if not sequence.total_time or midi_note.end > sequence.total_time:\n        sequence.total_time = midi_note.end",
           "      if not num_instrument and (not sequence.total_time or midi_note.end > sequence.total_time):\n        sequence.total_time = midi_note.end", rule='PAIR/total-time'),
    Mutant('velocity rescaled', F, "    note.velocity = midi_note.velocity\n", "    note.velocity = midi_note.velocity * 2\n", rule=None),
    Mutant('wrapper validates the extension', F, "  with open(midi_file, 'rb') as f:\n    midi_as_string = f.read()\n    return midi_to_note_sequence(midi_as_string)",
           "  if not midi_file.endswith('.mid'):\n    raise ValueError('not a MIDI file')\n  with open(midi_file, 'rb') as f:\n    midi_as_string = f.read()\n    return midi_to_note_sequence(midi_as_string)", rule='ESC/wrapper'),
    # equivalent
    Mutant('handler catches Exception', F, "      midi = pretty_midi.PrettyMIDI(io.BytesIO(midi_data))\n    except:\n", "      midi = pretty_midi.PrettyMIDI(io.BytesIO(midi_data))\n    except Exception:\n", expect='silent'),
    Mutant('denominator handler catches both', F, "    except ValueError:\n      raise MIDIConversionError('Invalid time signature denominator %d' %", "    except (ValueError, TypeError):\n      raise MIDIConversionError('Invalid time signature denominator %d' %", expect='silent'),
    Mutant('mode computed first', F, "    key_signature.key = midi_key.key_number % 12\n    midi_mode = midi_key.key_number // 12\n", "    midi_mode = midi_key.key_number // 12\n    key_signature.key = midi_key.key_number % 12\n", expect='silent'),
]

RENAME_FUNCS = [(F, 'midi_to_note_sequence')]

EXPLANATION += (' Escape analysis: positive findings (unbounded integer into an int32 field without a range guard - guards against constants within int32 narrow, sys.maxsize does not; raise of another class) are definite, forms outside the fragment are undecided; add(field=...) keywords are type-checked like stores. PAIR/total-is-max-end.')
EXPLANATION += (' Round 6: ' + "WELLFORMED/resolution-positive: if the installed loader can hand over a negative resolution (mido's header format and PrettyMIDI.__init__ are read on every run), no return of midi_to_note_sequence is reachable with resolution -1 (finding F28).")
EXPLANATION += (' Round 7: ' + 'WELLFORMED/resolution-positive follows the helper that produces the decoded object and reads only the conditions on the resolution (divmod pairs and membership in literal tables are folded).')
EXPLANATION += (' Rounds 9-10: ' + 'the escape engine models str.encode / bytes.decode (literal codec and handler; clean, possibly-surrogate and UTF-8 text types): a possibly-surrogate string stored into a string field raises UnicodeEncodeError; exception translation by a context-manager class is cannot-classify.')
EXPLANATION += (' Round 12: ' + 'in-memory buffering of the file is file access (ESC/wrapper).')
EXPLANATION += (' Round 13: ' + "block-wise reading (append, b''.join) is file access.")
EXPLANATION += (' Round 14: ' + 'ESC/handler-decodes-bytes (a strict bytes.decode() in an except arm).')
