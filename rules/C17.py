"""C17 - event sequences keep length, step range and indexing consistent under any edits (DESIGN.md §4 C17)."""
import ast
import importlib

from sa import inv, iface, nf, roles, astutil as U
from sa.roles import Canon
from sa.loader import norm_text, dotted
from sa.selftest import Mutant

PROPERTY = 'C17'
EL = 'note_seq/events_lib.py'
ML = 'note_seq/melodies_lib.py'
CL = 'note_seq/chords_lib.py'
DL = 'note_seq/drums_lib.py'
LS = 'note_seq/lead_sheets_lib.py'
PL = 'note_seq/performance_lib.py'
PR = 'note_seq/pianoroll_lib.py'
LEVEL_TEXT = (
    'Class-invariant analysis: for SimpleEventSequence, Melody, DrumTrack and ChordProgression every mutator, constructor and extractor '
    'is abstractly interpreted in a linear domain over len(events), start_step and end_step (path enumeration, method summaries through '
    'the MRO, invariant-preserving loops); assuming end_step - start_step = len(events) on entry it holds on every exit, normal or '
    'raising. Negated or decremented slice bounds on the event list must be provably non-negative; the offset of a slice must come from '
    'a normalised start; every concrete EventSequence implements the eight interface members with compatible signatures; LeadSheet '
    'applies each edit to both of its sequences; Python-2 leftovers (itertools.izip, __getslice__ without slice support in '
    '__getitem__) are flagged; the step-based Performance family counts and emits only TIME_SHIFT steps. The lock-step equivalence '
    'with a list model over all histories and Melody\'s event range under arbitrary transposition are not decided.')
LEVEL_NOTE = 'Trusted: Python list semantics of append/extend/del/slice-assign as modelled in sa/inv.py; abc.ABCMeta is not effective on Python 3 (class attribute __metaclass__), which is why interface conformance is checked statically.'
TECHNIQUE = 'static analysis: abstract interpretation in a linear-equality domain with method summaries (class invariant), sign reasoning on slice bounds from path conditions, interface conformance over the class hierarchy, paired-delegation and stdlib-API existence checks'
DESIGN_REF = 'DESIGN.md sections 3.5, 3.8 and 4 (C17)'
EXPLANATION = ('INV per class x method x path; IDX slice-bound sign sites; SLICE offset normalisation; IFACE over EventSequence; PAIRED LeadSheet delegation; '
               'API stdlib attribute existence and __getslice__; STEPS rules for the performance family and PianorollSequence.set_length.')
EXPLANATION += (' ' + 'RETAIN/override-store: an override of set_length may store into the event list only at index old_len (= len(self) taken before delegating) under old_len < steps and not from_left, i.e. only into the first padded slot on the right.')
TRUSTED = ['list semantics as modelled', 'hasattr on standard-library modules of the checker\'s interpreter (same Python as the repository\'s)']
NOT_DECIDED = ['lock-step equivalence with a list model over all operation histories', 'Melody events staying in -2..127 under arbitrary transposition (values)']
ASSUMPTIONS = ['callers of ChordProgression.from_quantized_sequence pass start_step <= end_step']
# rules whose verdict does not depend on how the statements are arranged (semantic analyses); all other rules are shape rules:
# when one of those fails in a function that was restructured relative to reference/signatures.json the verdict is "cannot decide"
ROBUST = ('IDX', 'IFACE', 'API')
FLOORS = {'INV': 25, 'IDX': 1, 'SLICE': 1, 'IFACE': 50, 'PAIRED': 4, 'API': 10, 'STEPS': 8, 'RETAIN': 1, 'RANGE': 2}

FAMILY = ['events_lib:SimpleEventSequence', 'melodies_lib:Melody', 'drums_lib:DrumTrack', 'chords_lib:ChordProgression']
ESTABLISHERS = {'__init__', '_reset', '_from_event_list', 'from_event_list'}


def E(t):
  return U.E(t)


def run(ctx):
  none_defaults_tested_by_identity(ctx)      # location-independent: before the anchored rules, which may give up
  invariant(ctx)
  slices(ctx)
  interface(ctx)
  leadsheet(ctx)
  api(ctx)
  steps_family(ctx)
  retained_side(ctx)
  melody_range(ctx)
  pitfall_sites(ctx)
  deep_copies(ctx)
  slice_offset_grid(ctx)


def none_defaults_tested_by_identity(ctx, rule='NONE/default-tested-by-identity'):
  """Location-independent: a parameter that defaults to None and carries a step offset (`*_step`) or an event sequence
  (`melody`, `chords`) has valid values that are falsy - step 0, a sequence of zero events (the sequence classes define
  __len__).  "Was it given" must therefore be asked with `is None` / `is not None`.  A truth test of such a parameter (`if melody:`,
  `x if start_step else y`) or `param or fallback` with a fallback other than the falsy value itself takes the not-given path for
  step 0 / an empty sequence: the offset or the resolution of the result is replaced by a default."""
  def tracked(name):
    # (`events` is not tracked: not given and given-but-empty both mean "no events", so `list(events) if events else []` is harmless)
    return name.endswith('_step') or name == 'step' or name in ('melody', 'chords', 'chord_progression', 'drum_track')
  n = 0
  for mod in ('events_lib', 'melodies_lib', 'chords_lib', 'drums_lib', 'lead_sheets_lib'):
    mi = ctx.P.module(mod)
    for q, fi in sorted(mi.all_functions.items()):
      fn = fi.node
      a = fn.args
      pos = a.posonlyargs + a.args
      dflt = dict(zip([x.arg for x in pos[len(pos) - len(a.defaults):]], a.defaults))
      dflt.update(dict((x.arg, d) for x, d in zip(a.kwonlyargs, a.kw_defaults) if d is not None))
      params = set(k for k, d in dflt.items() if isinstance(d, ast.Constant) and d.value is None and tracked(k))
      if not params:
        continue
      rebound = set(t.id for st in U.walk_stmts(fn) if isinstance(st, (ast.Assign, ast.AugAssign)) for t0 in (st.targets if isinstance(st, ast.Assign) else [st.target]) for t in ast.walk(t0) if isinstance(t, ast.Name))
      params -= rebound
      bad = []
      for x in ast.walk(fn):
        tests = []
        if isinstance(x, (ast.If, ast.While, ast.IfExp)):
          tests.append(x.test)
        elif isinstance(x, ast.BoolOp) and isinstance(x.op, ast.Or) and isinstance(x.values[0], ast.Name) and x.values[0].id in params:
          fb = x.values[1]
          falsy = (isinstance(fb, ast.Constant) and not fb.value) or (isinstance(fb, (ast.List, ast.Tuple, ast.Dict)) and not (fb.elts if not isinstance(fb, ast.Dict) else fb.keys))
          if not falsy:
            bad.append((x, x.values[0].id, '`%s`' % norm_text(x)[:60]))
        for t in tests:
          if isinstance(t, ast.UnaryOp) and isinstance(t.op, ast.Not):
            t = t.operand
          if isinstance(t, ast.Name) and t.id in params:
            bad.append((t, t.id, 'the truth test `%s`' % norm_text(t)))
      n += 1
      cons = '%s asks "was it given" of its None-defaulted %s with `is None`' % (fi.qualname if hasattr(fi, 'qualname') else q, ', '.join(sorted(params)))
      ctx.ob(rule, fi, bad[0][0] if bad else fn, not bad, 'no truth test of %s' % ', '.join(sorted(params)) if not bad else
             '%s treats a given-but-falsy %s (step 0, or a sequence with no events) like one that was not given: the result takes the default offset / resolution instead of the one it was '
             'constructed with' % (bad[0][2], bad[0][1]), construct=cons, definite=True)
  if n == 0:
    why = 'cannot classify: no None-defaulted step / sequence parameter found in the event-sequence modules'
    ctx.ob(rule, ctx.P.module('events_lib'), ctx.P.module('events_lib').tree, False, why, construct='None defaults are tested with `is None`', unknown=why)


def slice_offset_grid(ctx):
  """Location-independent, finite grid: a slice of an event sequence "carries the step offset of the elements it contains": the
  start step of seq[a:b:c] is start_step + (index of the first selected element), which is what slice.indices(len)[0] gives.
  If __getitem__ computes that offset itself (in a helper or inline), the computation is read path by path (sa.pathval) and
  folded for starts None, -8, -4, -3, -1, 0, 1, 3, 8, steps None, 1, 2 and lengths 0, 1, 3, and compared with
  slice(start, None, step).indices(length)[0] - Python's own normalisation, computed by the checker."""
  from sa import pathval, scenario
  ci = ctx.cls('events_lib:SimpleEventSequence')
  gi = ci.methods['__getitem__']
  cons = 'the offset of a slice is the index of its first element (slice.indices(len)[0])'
  kw = None
  for c in U.calls_in(gi.node):
    for k in c.keywords:
      if k.arg == 'start_step':
        kw = (c, U.expand_locals(gi.node, k.value, at=c))
  if kw is None:
    why = 'cannot classify: __getitem__ builds no sequence with a start_step'
    ctx.ob('SLICE/offset-grid', gi, gi.node, False, why, construct=cons, unknown=why)
    return
  call, val = kw
  off = None
  if isinstance(val, ast.BinOp) and isinstance(val.op, ast.Add):
    for a, b in ((val.left, val.right), (val.right, val.left)):
      if norm_text(a) in ('self.start_step', 'self._start_step'):
        off = b
  if off is None:
    why = 'cannot classify: the start step of a slice is %s' % norm_text(val)[:60]
    ctx.ob('SLICE/offset-grid', gi, call, False, why, construct=cons, unknown=why)
    return
  if isinstance(off, ast.Subscript) and U.const_value(off.slice) == 0 and isinstance(off.value, ast.Call) and isinstance(off.value.func, ast.Attribute) and off.value.func.attr == 'indices':
    ctx.ob('SLICE/offset-grid', gi, call, True, 'the offset is slice.indices(len)[0]', construct=cons)
    return
  key = gi.params()[1]
  alts = [([], off)]
  if isinstance(off, ast.Call) and isinstance(off.func, ast.Attribute) and norm_text(off.func.value) == 'self' and off.func.attr in ci.methods and len(off.args) == 1:
    h = ci.methods[off.func.attr]
    try:
      alts = [(c_, e_[pathval.RETURN]) for c_, e_, end in pathval.paths(h.node.body, {h.params()[1]: off.args[0]}, opaque=True) if end == 'return' and pathval.RETURN in e_]
    except pathval.PathError as e:
      why = 'cannot classify: %s' % e
      ctx.ob('SLICE/offset-grid', gi, call, False, why, construct=cons, unknown=why)
      return
  flat = []
  for c_, v_ in alts:
    if isinstance(v_, ast.IfExp):
      flat.append((c_ + [(v_.test, True)], v_.body))
      flat.append((c_ + [(v_.test, False)], v_.orelse))
    else:
      flat.append((c_, v_))
  bad = None
  n = 0
  for length in (0, 1, 3):
    for start in (None, -8, -4, -3, -1, 0, 1, 3, 8):
      for step in (None, 1, 2):
        env = {'%s.start' % key: ast.Constant(value=start), '%s.step' % key: ast.Constant(value=step), '%s.stop' % key: ast.Constant(value=None),
               'len(self._events)': ast.Constant(value=length), 'len(self)': ast.Constant(value=length)}
        got = []
        for c_, v_ in flat:
          taken = True
          for t, p in c_:       # in order: a later condition is only evaluated on the path that reaches it
            x = scenario.fold_numeric(pathval.subst(t, env), {})
            if x is None:
              taken = None
              break
            if bool(x) != p:
              taken = False
              break
          if taken is None:
            got = None
            break
          if taken:
            got.append(scenario.fold_numeric(pathval.subst(v_, env), {}))
        if got is None or len(got) != 1 or got[0] is None:
          why = 'cannot classify: the slice offset cannot be folded for start %r, step %r, length %d' % (start, step, length)
          ctx.ob('SLICE/offset-grid', gi, call, False, why, construct=cons, unknown=why)
          return
        want = slice(start, None, step).indices(length)[0]
        n += 1
        if got[0] != want and bad is None:
          bad = (start, step, length, got[0], want)
  if bad:
    start, step, length, g, w = bad
    ctx.ob('SLICE/offset-grid', gi, call, False, 'for a sequence of %d events, seq[%s::%s] selects from index %d on, but its start step is moved by %s: the slice holds the events from index %d '
           'with the step offset of another position, so indexing by step and end_step are wrong' % (length, start, step if step is not None else '', w, g, w), construct=cons, definite=True)
  else:
    ctx.ob('SLICE/offset-grid', gi, call, True, 'the hand-written offset agrees with slice.indices(len)[0] on %d (start, step, length) combinations' % n, construct=cons)


def deep_copies(ctx):
  """Location-independent: a deep copy shares nothing mutable with its source.  In every __deepcopy__ of the event-sequence
  classes, a member of self may be handed to the new object through copy.deepcopy (or a fresh list), never through copy.copy or
  as it is: a shallow copy of an event sequence has its own start / end step but the *same* event list, so a later edit of one
  object changes the other's events and leaves its length and step range inconsistent."""
  for rel in (EL, ML, CL, DL, LS, PL, PR):
    mi = ctx.P.module(rel[len('note_seq/'):-3])
    for q, fi in sorted(mi.all_functions.items()):
      if not q.endswith('.__deepcopy__'):
        continue
      cons = '%s copies every mutable member deeply' % q
      shallow = [c for c in U.calls_in(fi.node) if dotted(c.func) in ('copy.copy', 'copy') and c.args and norm_text(c.args[0]).startswith('self.')]
      bare = []
      for c in U.calls_in(fi.node):
        if dotted(c.func) in ('copy.deepcopy', 'deepcopy', 'list', 'tuple', 'copy.copy', 'copy'):
          continue      # the copying call itself
        for a in list(c.args) + [k.value for k in c.keywords]:
          if isinstance(a, ast.Attribute) and norm_text(a) in ('self._events', 'self._melody', 'self._chords'):
            bare.append(a)
      if shallow or bare:
        x = (shallow or bare)[0]
        ctx.ob('COPY/deepcopy-is-deep', fi, x, False, '%s hands %s to the copy %s: the copy and its source share one event list, so an in-place edit of either (append, set_length, truncation) '
               'changes the other, whose length no longer matches its step range' % (q, norm_text(x.args[0]) if shallow else norm_text(x), 'through copy.copy' if shallow else 'as it is'),
               construct=cons, definite=True)
      else:
        ctx.ob('COPY/deepcopy-is-deep', fi, fi.node, True, 'members are copied with copy.deepcopy', construct=cons)


def pitfall_sites(ctx):
  """Every method of every event-sequence class (the family, LeadSheet, PianorollSequence, the performance classes):
  slices counted from the end and "previous element" indexes must not reach their wrap-around value."""
  from sa import pitfalls
  scope = []
  for rel in (EL, ML, CL, DL, LS, PL, PR):
    mi = ctx.P.module(rel[len('note_seq/'):-3])
    for q, fi in sorted(mi.all_functions.items()):
      if fi.cls is not None and '.' in q:
        scope.append(fi)
  pitfalls.apply(ctx, 'PITFALL', scope, ['neg-zero-slice', 'previous-wraps'], {
      'neg-zero-slice': 'the events that remain are not the prefix / suffix the list model keeps, so len, end_step and indexing disagree with it',
      'previous-wraps': 'the first event is paired with the last one'})
  pitfalls.apply(ctx, 'PITFALL', scope, ['reslice-indices'], {
      'reslice-indices': 'a slice of an event sequence then does not hold the events the same slice of the event list holds'})
  # the methods whose job is to add steps: nothing that is already in the sequence may be lost on the way
  growers = [fi for fi in scope if fi.name in ('_append_steps', 'append')]
  ctx.require(len(growers) >= 2, 'the step-appending methods (_append_steps, append) were not found')
  pitfalls.apply(ctx, 'PITFALL', growers, ['dropped-pop'], {
      'dropped-pop': 'set_length(n) with n larger than the present length pads the sequence: every event it holds must still be there afterwards'})


def _method_closure(ctx, ci, m, depth=3):
  """The methods (of the class and its bases) that the analysis of m walks into: self.x(...), super().x(...), and
  every definition of the same name along the mro."""
  seen = []
  todo = [(m, 0)]
  mro = ctx.P.mro(ci)
  while todo:
    f, d = todo.pop()
    if any(f is x for x in seen) or d > depth:
      continue
    seen.append(f)
    names = {f.name}
    for c in ast.walk(f.node):
      if isinstance(c, ast.Call) and isinstance(c.func, ast.Attribute):
        v = c.func.value
        if (isinstance(v, ast.Name) and v.id == 'self') or (isinstance(v, ast.Call) and dotted(v.func) == 'super'):
          names.add(c.func.attr)
      elif isinstance(c, ast.Subscript) and isinstance(c.value, ast.Name) and c.value.id == 'self':
        names.add('__getitem__')
    for k in mro:
      for nme in names:
        if nme in k.methods and not any(k.methods[nme] is x for x in seen):
          todo.append((k.methods[nme], d + 1))
  return [x for x in seen if x is not m]


# ------------------------------------------------------------------ S1 / S2
def invariant(ctx):
  idx_seen = set()
  for cq in FAMILY:
    ci = ctx.cls(cq)
    an = inv.Analyzer(ctx.P, ci)
    names = set()
    for c in ctx.P.mro(ci):
      for n, m in c.methods.items():
        if an.modifies(m):
          names.add(n)
    ctx.require(len(names) >= 6, '%s: only %d state-changing methods found' % (cq, len(names)))
    for n in sorted(names):
      m = an.resolve(n)
      st = inv.State(inv.atom('L0'), inv.atom('S0'), inv.atom('S0') + inv.atom('L0'))
      paths = an.run_method(m, st)
      ctx.count('inv_paths', len(paths))
      bad = []
      probs = []
      judged = {}
      for p in paths:
        d = p.state.E - p.state.S - p.state.L
        if not d.is_zero():
          if allowed_path(ctx, ci, m, p):
            continue
          bad.append((p, d))
        judged[p.exit] = judged.get(p.exit, 0) + 1
        for x in p.state.problems:
          if x not in probs:
            probs.append(x)
      owner = m
      deps = _method_closure(ctx, ci, m)
      for (p, d) in bad[:3]:
        # a path that the interpreter followed to its end without meeting anything it does not model, on which the defect
        # end - start - len is a non-zero expression, and which branches at most once (the interpreter does not correlate the
        # conditions of several branches, so a longer path may be infeasible - ChordProgression.from_quantized_sequence has
        # such a path, discharged by `allowed_path` on the arrangement it was confirmed on) is a proof that the invariant
        # breaks: decided however the method is laid out
        ctx.ob('INV/%s' % ci.qualname, owner, p.node if p.node is not None else m.node, False, depends=deps,
               # ... or the defect is non-zero on *every* path that leaves the method normally: whichever of them is feasible breaks the invariant
               definite=not p.state.problems and not probs and (len(p.state.conds) <= 1 or (p.exit != 'raise' and sum(1 for q, _d in bad if q.exit == p.exit) == judged.get(p.exit) and
                                                                                                   not _has_fresh_symbol(d))), why=
               'on a path ending in %s, %s.%s leaves end_step - start_step - len(events) = %r (len=%r, start=%r, end=%r): length and step range disagree' % (
                   p.exit, ci.qualname, n, d, p.state.L, p.state.S, p.state.E), construct='%s.%s keeps end_step - start_step == len (%s exit)' % (ci.qualname, n, p.exit))
      for (node, why) in probs[:3]:
        ctx.ob('INV/%s' % ci.qualname, owner, node, False, '%s.%s: %s' % (ci.qualname, n, why), construct='%s.%s: %s' % (ci.qualname, n, why[:80]), depends=deps,
               unknown='the interpreter met something it does not model (%s)' % why)
      if not bad and not probs:
        ctx.ob('INV/%s' % ci.qualname, owner, m.node, True, '%d paths of %s.%s (resolved to %s) keep end_step - start_step == len(events)' % (len(paths), ci.qualname, n, m.qualname),
               construct='%s.%s keeps end_step - start_step == len' % (ci.qualname, n))
    for (m, node, ok, why) in an.idx_sites:
      k = (m.fq, norm_text(node), ok)
      if k in idx_seen:
        continue
      idx_seen.add(k)
      ctx.ob('IDX/slice-bound', m, node, ok, why)


def _has_fresh_symbol(d):
  """The defect mentions a length / value the interpreter made up a name for (L_3, V_7): it is "not known to be zero", not "known to be
  non-zero"."""
  import re as _re
  return bool(_re.search(r'\b[A-Z]_\d+\b', repr(d)))


def allowed_path(ctx, ci, m, p):
  """ChordProgression.from_quantized_sequence: the final _add_chord is always
  executed, because prev_step only ever receives steps that passed the
  `>= end_step -> break` test.  The structural precondition is re-checked."""
  if m.qualname != 'ChordProgression.from_quantized_sequence' or p.exit != 'return':
    return False
  fn = m.node
  loop = next((n for n in fn.body if isinstance(n, ast.For)), None)
  if loop is None or not loop.body or not isinstance(loop.body[0], ast.If):
    return False
  first = loop.body[0]
  c = nf.compare_nf(first.test)
  brk = isinstance(first.body[-1], ast.Break)
  if c is None or not brk:
    return False
  v = loop.target.id if isinstance(loop.target, ast.Name) else None
  want = nf.compare_nf(E('%s.quantized_step >= end_step' % v))
  if not nf.compare_equal(c, want):
    return False
  # the variable tested by the final if
  tail = [s for s in fn.body if isinstance(s, ast.If) and any('_add_chord' in norm_text(x) for x in s.body)]
  if len(tail) != 1 or not isinstance(tail[0].test, ast.BoolOp) or not isinstance(tail[0].test.op, ast.Or):
    return False
  names = [n.id for n in ast.walk(tail[0].test) if isinstance(n, ast.Name) and n.id != 'end_step']
  if len(set(names)) != 1:
    return False
  prev = names[0]
  parts = [norm_text(x) for x in tail[0].test.values]
  if sorted(parts) != sorted(['%s is None' % prev, '%s < end_step' % prev]):
    return False
  for s in U.walk_stmts(fn):
    for tgt, val, op in U.store_targets(s):
      if isinstance(tgt, ast.Name) and tgt.id == prev:
        if not (isinstance(val, ast.Constant) and val.value is None) and norm_text(val) != '%s.quantized_step' % v:
          return False
        if norm_text(val) == '%s.quantized_step' % v and not any(x is s for x in ast.walk(loop)):
          return False
  # only the paths that *skip* the final _add_chord are infeasible; a path through it is judged like any other
  if not any(t is tail[0].test and pol is False for t, pol in p.state.conds):
    return False
  ctx.note('allow-listed path: ChordProgression.from_quantized_sequence without the final _add_chord is infeasible (prev_step < end_step by the break guard)')
  return True


# ------------------------------------------------------------------ S3
def slices(ctx):
  fi = ctx.func('events_lib:SimpleEventSequence.__getitem__')
  fn = fi.node
  key = fi.params()[1]
  calls = [c for c in U.calls_in(fn) if norm_text(c.func) == 'type(self)']
  ctx.require(len(calls) == 1, 'SimpleEventSequence.__getitem__: slice construction not found')
  kw = {k.arg: k.value for k in calls[0].keywords}
  ss = kw.get('start_step')
  ok = False
  why = 'start_step of the slice is %s' % (norm_text(ss) if ss is not None else None)
  if isinstance(ss, ast.BinOp) and isinstance(ss.op, ast.Add):
    parts = [ss.left, ss.right]
    base = [p for p in parts if norm_text(p) in ('self.start_step', 'self._start_step')]
    off = [p for p in parts if p not in base]
    if len(base) == 1 and len(off) == 1:
      o = off[0]
      src = o
      if isinstance(o, ast.Name):
        defs = [s for s in U.walk_stmts(fn) if isinstance(s, ast.Assign) and norm_text(s.targets[0]) == o.id]
        src = defs[-1].value if defs else o
        if defs and isinstance(defs[-1].targets[0], ast.Name) is False:
          src = o
      t = norm_text(src)
      raw = ('%s.start' % key) in t and '.indices(' not in t
      normalised = ('%s.indices(' % key) in t or any(isinstance(s, ast.Assign) and isinstance(s.targets[0], ast.Tuple) and any(norm_text(e) == norm_text(o) for e in s.targets[0].elts) and
                                                     ('%s.indices(' % key) in norm_text(s.value) for s in U.walk_stmts(fn))
      ok = normalised and not raw
      if raw:
        why = 'the raw slice start (%s) is added to start_step: it may be None, negative (counts from the end) or beyond the length' % t
  ctx.ob('SLICE/offset-normalised', fi, calls[0], ok, 'the slice offset is the normalised start (slice.indices)' if ok else why, construct='slice start_step = self.start_step + normalised start')
  ev = kw.get('events')
  ok = ev is not None and isinstance(ev, ast.Name)
  if ok:
    d = [s for s in U.walk_stmts(fn) if isinstance(s, ast.Assign) and norm_text(s.targets[0]) == ev.id]
    ok = len(d) == 1 and norm_text(d[0].value) in ('self._events.__getitem__(%s)' % key, 'self._events[%s]' % key)
  ctx.ob('SLICE/elements', fi, calls[0], ok, 'the slice holds exactly the sliced events' if ok else 'the slice is not built from self._events[key]', construct='slice events = self._events[key]')
  for name in ('steps_per_bar', 'steps_per_quarter', 'pad_event'):
    ok = name in kw
    ctx.ob('SLICE/carries', fi, calls[0], ok, 'the slice keeps %s' % name if ok else 'the slice drops %s' % name, construct='slice keeps %s' % name)


# ------------------------------------------------------------------ S4
def interface(ctx):
  base = ctx.cls('events_lib:EventSequence')
  subs = iface.check_interface(ctx, base, 'IFACE/event-sequence')
  ctx.require(len(subs) >= 7, 'only %d concrete EventSequence implementations found' % len(subs))


def _unrolled_receivers(ci, m, method):
  """Receivers of `.<method>(...)` calls in m in execution order; a `for t in <tuple>` / `zip(<tuple>, ...)` loop whose iterable
  resolves to a literal tuple (directly, or through a property of the class that returns one) is unrolled.  None if unresolved."""
  def tuple_of(e):
    if isinstance(e, (ast.Tuple, ast.List)):
      return list(e.elts)
    if isinstance(e, ast.Attribute) and isinstance(e.value, ast.Name) and e.value.id == 'self' and e.attr in ci.methods:
      rets = [s for s in U.walk_stmts(ci.methods[e.attr].node) if isinstance(s, ast.Return)]
      if len(rets) == 1 and isinstance(rets[0].value, (ast.Tuple, ast.List)):
        return list(rets[0].value.elts)
    return None
  out = []
  for st in m.node.body:
    if isinstance(st, ast.For):
      it, tg = st.iter, st.target
      elems = None
      if isinstance(it, ast.Call) and dotted(it.func) == 'zip' and it.args and isinstance(tg, ast.Tuple) and len(tg.elts) == len(it.args):
        cols = [tuple_of(a) for a in it.args]
        if cols[0] is not None:
          elems, var = cols[0], (tg.elts[0].id if isinstance(tg.elts[0], ast.Name) else None)
      else:
        elems, var = tuple_of(it), (tg.id if isinstance(tg, ast.Name) else None)
      calls = [c for c in U.calls_in(st) if isinstance(c.func, ast.Attribute) and c.func.attr == method]
      if calls:
        if elems is None or var is None or not all(isinstance(c.func.value, ast.Name) and c.func.value.id == var for c in calls):
          return None
        out.extend(norm_text(e) for e in elems)
    else:
      out.extend(norm_text(c.func.value) for c in U.calls_in(st) if isinstance(c.func, ast.Attribute) and c.func.attr == method)
  return out


def leadsheet_append_order(ctx, ci):
  """Location-independent (validate before mutating): Melody.append rejects an out-of-range event with ValueError, while
  ChordProgression.append accepts anything.  LeadSheet.append must therefore hand the melody event over *first*: if the chord is
  appended before the melody event is refused, a caught rejection leaves the chords one step longer than the melody, every later
  pair is misaligned and slicing / copying raises MelodyChordsMismatchError."""
  m = ci.methods.get('append')
  if m is None:
    return
  mel = ctx.cls('melodies_lib:Melody').methods.get('append')
  if mel is None or not any(isinstance(x, ast.Raise) for x in ast.walk(mel.node)):
    return          # the melody side no longer validates: the order does not matter
  recv = _unrolled_receivers(ci, m, 'append')
  if recv is None or 'self._melody' not in recv or 'self._chords' not in recv:
    return
  ok = recv.index('self._melody') < recv.index('self._chords')
  ctx.ob('PAIRED/append-validates-first', m, m.node, ok, 'the melody event (which may be refused) is appended before the chord' if ok else
         'LeadSheet.append appends to %s: the chord is stored before Melody.append has had the chance to refuse the melody event, so a rejected append leaves melody and chords '
         'with different lengths' % ', then '.join(recv), construct='LeadSheet.append: melody first', definite=True)


def _expand_props(ci, expr, depth=4):
  """`expr` with every self.<property> replaced by what the property returns (single-return properties of the class, through the
  MRO as indexed) and len(self) by what __len__ returns."""
  import copy

  class T(ast.NodeTransformer):
    def visit_Attribute(self, node):
      self.generic_visit(node)
      if isinstance(node.value, ast.Name) and node.value.id == 'self' and isinstance(node.ctx, ast.Load):
        m = ci.methods.get(node.attr)
        if m is not None and (m.is_property() if callable(m.is_property) else m.is_property):
          rets = [r for r in ast.walk(m.node) if isinstance(r, ast.Return)]
          if len(rets) == 1 and rets[0].value is not None:
            return copy.deepcopy(U.expand_locals(m.node, rets[0].value, at=rets[0]))
      return node

    def visit_Call(self, node):
      self.generic_visit(node)
      if dotted(node.func) == 'len' and len(node.args) == 1 and isinstance(node.args[0], ast.Name) and node.args[0].id == 'self':
        m = ci.methods.get('__len__')
        rets = [r for r in ast.walk(m.node) if isinstance(r, ast.Return)] if m is not None else []
        if len(rets) == 1:
          return copy.deepcopy(rets[0].value)
      return node
  cur = copy.deepcopy(expr)
  for _ in range(depth):
    nxt = T().visit(copy.deepcopy(cur))
    if norm_text(nxt) == norm_text(cur):
      break
    cur = nxt
  return cur


def paired_on_every_exit(ctx, m, name, rule, mode='length'):
  """Location-independent must-pass-through over the normal exits of LeadSheet.<name>.
  mode 'length' (C17: append, set_length, increase_resolution change the length): an exit reached with one sequence edited
  and the other not leaves melody and chords with different lengths - located, whatever the guard.  An exit with neither
  edited is a no-op and keeps them in step.
  mode 'transpose' (C10): an exit that skips a delegate is judged by a scenario: if its guard is definitely taken for an
  amount for which the skipped operation changes the sequence (a whole octave still moves every melody pitch), the deviation
  is located; otherwise the verdict is "cannot classify"."""
  from sa import scenario
  miss = {}
  for recv, what in (('self._melody', 'melody'), ('self._chords', 'chords')):
    target = '%s.%s' % (recv, name)
    miss[what] = U.exits_missing_call(m.node, lambda c, target=target: norm_text(c.func) == target)
  for what, other in (('melody', 'chords'), ('chords', 'melody')):
    target = 'self._%s.%s' % (what, name)
    cons = 'LeadSheet.%s: %s on every exit' % (name, target)
    if not miss[what]:
      ctx.ob(rule, m, m.node, True, 'every normal exit of LeadSheet.%s has passed %s' % (name, target), construct=cons)
      continue
    for ex in miss[what]:
      line = getattr(ex, 'lineno', 0) if isinstance(ex, ast.stmt) and not isinstance(ex, ast.FunctionDef) else getattr(m.node, 'end_lineno', 0)
      node = ex if isinstance(ex, ast.stmt) and not isinstance(ex, ast.FunctionDef) else m.node
      if mode == 'length':
        lone = not any(ex is x for x in miss[other])
        if lone:
          ctx.ob(rule, m, node, False, 'LeadSheet.%s can end (line %d) after self._%s.%s has run but without %s: the two sequences then differ in length, and every later '
                 'pairwise access is misaligned or raises' % (name, line, other, name, target), construct=cons, definite=True)
        else:
          ctx.ob(rule, m, node, True, 'the exit at line %d edits neither sequence' % line, construct=cons + ' (exit at line %d edits neither)' % line)
        continue
      verdict, why = None, 'cannot classify: LeadSheet.%s can return (line %d) without calling %s; whether the %s needs no edit there is not known' % (name, line, target, what)
      if isinstance(ex, ast.Return) and len(m.params()) > 1:
        amount = m.params()[1]
        conds = [(U.expand_locals(m.node, t, at=ex), p) for t, p in U.path_conditions(m.node, ex)]
        for val in (12, -12, 24, 1):
          if conds and scenario.tv_all(conds, {amount: nf.rat(E(repr(val)))}) is True and (what == 'melody' or val % 12):
            verdict = val
            break
        if verdict is not None:
          why = ('LeadSheet.transpose returns at line %d without calling %s when %s == %d (its guard %s is taken): %s, so the lead sheet is no longer transposed as a whole') % (
              line, target, amount, verdict, ' and '.join(('' if p else 'not ') + norm_text(t) for t, p in conds),
              'Melody.transpose moves every pitch by the amount and folds it into [min_note, max_note) whatever the amount is' if what == 'melody'
              else 'the chords are transposed by the amount modulo 12, which is not zero here')
      ctx.ob(rule, m, node, False, why, construct=cons, definite=verdict is not None, unknown=None if verdict is not None else why)


def leadsheet(ctx):
  ci = ctx.cls('lead_sheets_lib:LeadSheet')
  leadsheet_append_order(ctx, ci)
  pairs = {'append': None, 'set_length': None, 'increase_resolution': None, 'transpose': None}
  for name in pairs:
    m = ci.methods.get(name)
    ctx.require(m is not None, 'LeadSheet.%s not found' % name)
    mel = [c for c in U.calls_in(m.node) if norm_text(c.func) == 'self._melody.%s' % name]
    chd = [c for c in U.calls_in(m.node) if norm_text(c.func) == 'self._chords.%s' % name]
    ok = len(mel) == 1 and len(chd) == 1
    why = 'both the melody and the chords receive %s' % name
    if ok and name in ('set_length', 'increase_resolution'):
      a1 = [norm_text(a) for a in mel[0].args] + sorted('%s=%s' % (k.arg, norm_text(k.value)) for k in mel[0].keywords)
      a2 = [norm_text(a) for a in chd[0].args] + sorted('%s=%s' % (k.arg, norm_text(k.value)) for k in chd[0].keywords)
      ok = a1 == a2
      if not ok:
        why = 'the melody gets %s(%s) but the chords get %s(%s)' % (name, ', '.join(a1), name, ', '.join(a2))
    elif ok and name == 'transpose':
      ok = norm_text(mel[0].args[0]) == norm_text(chd[0].args[0])
    elif not ok:
      why = 'LeadSheet.%s does not apply the operation to both the melody and the chords (melody calls: %d, chord calls: %d): they fall out of step' % (name, len(mel), len(chd))
    ctx.ob('PAIRED/lead-sheet', m, m.node, ok, why, construct='LeadSheet.%s delegates to both sequences' % name)
    if name != 'transpose':
      paired_on_every_exit(ctx, m, name, 'PAIRED/every-exit')
  sl = ci.methods.get('set_length')
  params = sl.params()
  used = all(any(isinstance(n, ast.Name) and n.id == p for n in ast.walk(sl.node) if isinstance(n, ast.Name) and isinstance(n.ctx, ast.Load)) for p in params[1:])
  ctx.ob('PAIRED/lead-sheet', sl, sl.node, used, 'every parameter of set_length is forwarded' if used else 'a parameter of LeadSheet.set_length is accepted but ignored', construct='LeadSheet.set_length forwards its parameters')
  ln = ci.methods.get('__len__')
  ok = ln is not None and any(norm_text(r.value) == 'len(self._melody)' for r in ast.walk(ln.node) if isinstance(r, ast.Return))
  ctx.ob('PAIRED/lead-sheet', ln or ci, (ln or ci).node, ok, 'len is the melody length (both sequences have equal length by construction)' if ok else 'LeadSheet.__len__ is not the common length')
  init = ci.methods.get('_from_melody_and_chords') or ci.methods['__init__']
  g = [s for m in (ci.methods.get('_from_melody_and_chords'), ci.methods['__init__']) if m is not None for s in m.node.body
       if isinstance(s, ast.If) and any(isinstance(x, ast.Raise) for x in s.body) and 'len(' in norm_text(s.test)]
  t = norm_text(g[0].test) if g else ''
  fields = set()
  for c in (g[0].test.values if g and isinstance(g[0].test, ast.BoolOp) and isinstance(g[0].test.op, ast.Or) else []):
    sd = U.eq_sides(c, lambda a: True, ops=(ast.NotEq,))
    if sd:
      pair = sorted(norm_text(x) for x in sd)
      for f in ('len(%s)', '%s.start_step', '%s.end_step', '%s.steps_per_bar', '%s.steps_per_quarter'):
        if pair == sorted([f % 'melody', f % 'chords']):
          fields.add(f)
  ok = len(fields) == 5
  ctx.ob('PAIRED/lead-sheet', init, g[0] if g else init.node, ok, 'melody and chords must agree in length, range and resolution' if ok else 'the constructor does not reject mismatched melody/chords')


# ------------------------------------------------------------------ S5
STDLIB = ('itertools', 'collections', 'copy', 'math', 'operator', 'abc', 'functools', 'bisect', 're', 'fractions', 'numbers', 'io', 'os', 'sys', 'random', 'heapq')
MODULES = ['events_lib', 'melodies_lib', 'drums_lib', 'chords_lib', 'lead_sheets_lib', 'pianoroll_lib', 'performance_lib']


def api(ctx):
  n = 0
  for mn in MODULES:
    mi = ctx.P.module(mn)
    std = {local: imp[1] for local, imp in mi.imports.items() if imp[0] == 'module' and imp[1] in STDLIB}
    for node in ast.walk(mi.tree):
      if isinstance(node, ast.Attribute) and isinstance(node.value, ast.Name) and node.value.id in std:
        modname = std[node.value.id]
        try:
          mod = importlib.import_module(modname)
        except Exception:
          continue
        n += 1
        ok = hasattr(mod, node.attr)
        owner = mi
        for f in mi.all_functions.values():
          if f.node.lineno <= node.lineno <= getattr(f.node, 'end_lineno', f.node.lineno):
            owner = f
        ctx.ob('API/stdlib-attribute', owner, node, ok, '%s.%s exists' % (modname, node.attr) if ok else
               '%s.%s does not exist in this Python: AttributeError as soon as the expression is evaluated (Python 2 leftover)' % (modname, node.attr))
    for ci in mi.all_classes.values():
      if '__getslice__' in ci.methods:
        gi = ci.methods.get('__getitem__')
        ok = gi is not None and any(isinstance(c, ast.Call) and dotted(c.func) == 'isinstance' and len(c.args) == 2 and norm_text(c.args[1]) == 'slice' for c in ast.walk(gi.node))
        ctx.ob('API/getslice', ci, ci.methods['__getslice__'].node, ok, '__getitem__ handles slices itself (__getslice__ is never called on Python 3)' if ok else
               '%s relies on __getslice__, which Python 3 never calls: slicing goes to __getitem__, which does not handle slice objects' % ci.qualname, construct='%s slicing' % ci.qualname)
  ctx.require(n >= 10, 'only %d standard-library attribute references found' % n)


def step_types(ctx, bp, ns):
  """Location-independent: whichever way num_steps selects the events it adds up (==, !=, in, not in, a named set), the selected
  event types - evaluated over the finite set of PerformanceEvent type constants - must be exactly {TIME_SHIFT}."""
  pe = ctx.cls('performance_lib:PerformanceEvent')
  universe = dict((k, U.const_value(v)) for k, v in pe.attrs.items() if k.isupper() and isinstance(U.const_value(v), int) and not k.startswith('_'))
  ctx.require('TIME_SHIFT' in universe and len(universe) >= 4, 'PerformanceEvent type constants not found')

  def type_set(node):
    if isinstance(node, ast.Attribute) and node.attr in universe and norm_text(node.value).endswith('PerformanceEvent'):
      return {node.attr}
    if isinstance(node, (ast.Tuple, ast.List, ast.Set)):
      out = set()
      for e in node.elts:
        t = type_set(e)
        if t is None:
          return None
        out |= t
      return out
    if isinstance(node, ast.Call) and dotted(node.func) in ('frozenset', 'set', 'tuple', 'list') and len(node.args) == 1:
      return type_set(node.args[0])
    if isinstance(node, ast.Attribute) and isinstance(node.value, ast.Name) and node.value.id == 'self' and node.attr in bp.attrs:
      return type_set(bp.attrs[node.attr])
    if isinstance(node, ast.Name) and len(ns.module.assigns.get(node.id, [])) == 1:
      return type_set(ns.module.assigns[node.id][0])
    return None
  tests = [c for c in ast.walk(ns.node) if isinstance(c, ast.Compare) and len(c.ops) == 1 and
           any(isinstance(x, ast.Attribute) and x.attr == 'event_type' for x in (c.left, c.comparators[0]))]
  if len(tests) != 1:
    return
  c = tests[0]
  other = c.comparators[0] if isinstance(c.left, ast.Attribute) and c.left.attr == 'event_type' else c.left
  ts = type_set(other)
  if ts is None:
    return
  op = type(c.ops[0])
  sel = {ast.Eq: ts, ast.In: ts, ast.NotEq: set(universe) - ts, ast.NotIn: set(universe) - ts}.get(op)
  if sel is None:
    return
  # polarity: the comparison must be the selecting condition of the addition: a comprehension filter, or a test known to hold
  # (negated: an early `continue`) where event_value is added
  pol = None
  pm = U.parents(ns.node)
  par = pm.get(id(c))
  if isinstance(par, ast.comprehension) and any(c is i for i in par.ifs):
    pol = True
  else:
    for a in ast.walk(ns.node):
      if isinstance(a, ast.Attribute) and a.attr == 'event_value':
        st = a
        while st is not None and not isinstance(st, ast.stmt):
          st = pm.get(id(st))
        for t, p in U.path_conditions(ns.node, st):
          if t is c:
            pol = p
  if pol is None:
    return
  if not pol:
    sel = set(universe) - sel
  ok = sel == {'TIME_SHIFT'}
  ctx.ob('STEPS/num-steps-types', ns, c, ok, 'exactly the TIME_SHIFT events are counted' if ok else
         'num_steps adds up the values of the event types %s; only TIME_SHIFT values are steps (%s would be counted as length)' % (
             sorted(sel), ', '.join(sorted(sel - {'TIME_SHIFT'})) or 'nothing else, but TIME_SHIFT is missing'),
         construct='event types counted by num_steps', definite=True)


def set_length_same(ctx, sl):
  """Location-independent, by scenario (sa.scenario): set_length(n) on a sequence that already has n steps leaves it as it is.  Under
  `steps == <current length>` (self.num_steps / len(self) / len(self._events) all equal to steps) every deletion from the event
  list must be unreachable, or its slice must start at `steps` or later: `del events[k:]` with k evaluating to 0 - a signed
  "number of missing steps" that happens to be zero - wipes the whole sequence."""
  from sa import scenario
  fn = sl.node
  steps = sl.params()[1]
  sb = dict((a, nf.rat(E(steps))) for a in ('self.num_steps', 'len(self)', 'len(self._events)'))
  for st in U.walk_stmts(fn):
    if not (isinstance(st, ast.Delete) and len(st.targets) == 1 and isinstance(st.targets[0], ast.Subscript) and isinstance(st.targets[0].slice, ast.Slice) and
            norm_text(st.targets[0].value) == 'self._events' and st.targets[0].slice.upper is None and st.targets[0].slice.lower is not None):
      continue
    conds = scenario.reach_conditions(fn, st)
    vals = [(None if scenario.tv(t, sb) is None else (scenario.tv(t, sb) == p)) for t, p in conds]
    # unreachable if some condition is definitely false; reached (for the inputs the undecided conditions admit) if every
    # condition that involves the length is decided true
    r = False if any(v is False for v in vals) else (True if any(v is True for v in vals) else None)
    try:
      lo = nf.rat(U.expand_locals(fn, st.targets[0].slice.lower, at=st)).subst(sb).const_value()
    except nf.NFError:
      lo = None
    if r is False:
      ctx.ob('STEPS/set-length-same', sl, st, True, 'no deletion is reached when the length is already `steps`', construct='set_length(current length) deletes nothing', definite=True)
    elif r is True and lo is not None and lo <= 0:
      ctx.ob('STEPS/set-length-same', sl, st, False, 'when the sequence already has `%s` steps, %s is reached with the slice start evaluating to %s: `del events[0:]` removes every '
             'event, so set_length(n) on a sequence of n steps empties it' % (steps, norm_text(st), lo), construct='set_length(current length) deletes nothing', definite=True)


# ------------------------------------------------------------------ S6
def steps_family(ctx):
  bp = ctx.cls('performance_lib:BasePerformance')
  ns = bp.methods['num_steps']
  adds = [s for s in U.walk_stmts(ns.node) if isinstance(s, ast.AugAssign) and isinstance(s.op, ast.Add)]
  ok = len(adds) == 1 and norm_text(adds[0].value).endswith('.event_value') and \
      any(pol and 'TIME_SHIFT' in norm_text(t) and '==' in norm_text(t) for (t, pol) in U.enclosing_tests(ns.node, adds[0]))
  ctx.ob('STEPS/num-steps', ns, adds[0] if adds else ns.node, ok, 'num_steps sums the values of TIME_SHIFT events only' if ok else 'num_steps does not sum exactly the TIME_SHIFT values')
  step_types(ctx, bp, ns)
  sp = bp.methods['steps']
  adds = [s for s in U.walk_stmts(sp.node) if isinstance(s, ast.AugAssign) and isinstance(s.op, ast.Add)]
  ok = len(adds) == 1 and any(pol and 'TIME_SHIFT' in norm_text(t) for (t, pol) in U.enclosing_tests(sp.node, adds[0]))
  app = [c for c in U.calls_in(sp.node) if isinstance(c.func, ast.Attribute) and c.func.attr == 'append']
  ok = ok and len(app) == 1 and not U.enclosing_tests(sp.node, U.parent(sp.node, app[0]))
  ctx.ob('STEPS/steps', sp, sp.node, ok, 'steps lists one step per event and advances on TIME_SHIFT only' if ok else 'steps does not list one entry per event advancing on TIME_SHIFT only')
  es = bp.methods['end_step']
  ok = any(norm_text(r.value) == 'self.start_step + self.num_steps' for r in ast.walk(es.node) if isinstance(r, ast.Return))
  ctx.ob('STEPS/end-step', es, es.node, ok, 'end_step = start_step + num_steps' if ok else 'end_step is not start_step + num_steps')
  ap = bp.methods['_append_steps']
  for c in U.calls_in(ap.node):
    if dotted(c.func) == 'PerformanceEvent':
      et = next((k.value for k in c.keywords if k.arg == 'event_type'), c.args[0] if c.args else None)
      ok = et is not None and norm_text(et) == 'PerformanceEvent.TIME_SHIFT'
      ctx.ob('STEPS/append-emits-shifts', ap, c, ok, 'padding emits TIME_SHIFT events' if ok else 'padding emits %s events' % (norm_text(et) if et is not None else '?'))
  wh = next((n for n in ast.walk(ap.node) if isinstance(n, ast.While)), None)
  ok = wh is not None and nf.compare_equal(nf.compare_nf(wh.test), nf.compare_nf(E('num_steps >= self._max_shift_steps'))) and \
      any(isinstance(s, ast.AugAssign) and isinstance(s.op, ast.Sub) and norm_text(s.value) == 'self._max_shift_steps' for s in wh.body) and \
      any(isinstance(c, ast.Call) and dotted(c.func) == 'PerformanceEvent' and any(k.arg == 'event_value' and norm_text(k.value) == 'self._max_shift_steps' for k in c.keywords)
          for s in wh.body for c in ast.walk(s))
  ctx.ob('STEPS/append-full-shifts', ap, wh or ap.node, ok, 'while at least a full shift remains, a full shift is emitted and subtracted' if ok else
         '_append_steps does not emit full shifts while num_steps >= max_shift_steps (emitted and subtracted amounts must both be max_shift_steps)')
  rem = [s for s in ap.node.body if isinstance(s, ast.If) and nf.compare_equal(nf.compare_nf(s.test), nf.compare_nf(E('num_steps > 0')))]
  ok = len(rem) == 1 and any(isinstance(c, ast.Call) and dotted(c.func) == 'PerformanceEvent' and any(k.arg == 'event_value' and norm_text(k.value) == 'num_steps' for k in c.keywords)
                             for c in ast.walk(rem[0]))
  ctx.ob('STEPS/append-remainder', ap, rem[0] if rem else ap.node, ok, 'a positive remainder is emitted as one shift' if ok else 'the remainder is not emitted exactly when it is positive')
  sl = bp.methods['set_length']
  asserts = [s for s in sl.node.body if isinstance(s, ast.Assert)]
  ok = any(nf.compare_equal(nf.compare_nf(a.test), nf.compare_nf(E('self.num_steps == steps'))) for a in asserts)
  ctx.ob('STEPS/set-length-post', sl, asserts[-1] if asserts else sl.node, ok, 'set_length asserts num_steps == steps' if ok else 'set_length no longer checks its postcondition')
  br = [(norm_text(s.test), [norm_text(x) for x in s.body]) for s in U.walk_stmts(sl.node) if isinstance(s, ast.If) and 'num_steps' in norm_text(s.test)]
  ok = ('self.num_steps < steps', ['self._append_steps(steps - self.num_steps)']) in br and ('steps < self.num_steps', ['self._trim_steps(self.num_steps - steps)']) in br
  ctx.ob('STEPS/set-length-branches', sl, sl.node, ok, 'too short -> append the difference, too long -> trim the difference' if ok else 'set_length does not append/trim exactly the difference')
  pr = ctx.cls('pianoroll_lib:PianorollSequence')
  sl = pr.methods['set_length']
  set_length_same(ctx, sl)
  txt = [norm_text(s) for s in U.walk_stmts(sl.node)]
  ok = any(t == 'self._events += [()] * (steps - self.num_steps)' for t in txt) and any(t == 'del self._events[steps:]' for t in txt)
  ctx.ob('STEPS/pianoroll-set-length', sl, sl.node, ok, 'pads with (steps - num_steps) empty frames or truncates at steps' if ok else 'PianorollSequence.set_length does not pad/truncate to exactly `steps` frames')
  # read through the property chain (num_steps -> len(self) -> len(self._events), start_step -> self._start_step): the spelling of
  # one property in terms of another does not matter, only what they reduce to
  def reduced(name):
    m = pr.methods.get(name)
    rets = [r for r in ast.walk(m.node) if isinstance(r, ast.Return)] if m is not None else []
    return _expand_props(pr, U.expand_locals(m.node, rets[0].value, at=rets[0])) if len(rets) == 1 else None
  ns_, es_ = reduced('num_steps'), reduced('end_step')
  unk = None
  if ns_ is not None and es_ is not None:
    LEN = 'len(self._events)'
    es_t = norm_text(es_).replace(LEN, 'LEN__')
    try:
      ok = norm_text(ns_) == LEN and nf.rat(E(es_t)).equals(nf.rat(E('self._start_step + LEN__')))
    except (nf.NFError, SyntaxError):
      ok, unk = False, 'cannot classify: end_step reduces to %s' % norm_text(es_)
  else:
    ok, unk = False, 'cannot classify: num_steps / end_step are not single-return properties'
  ctx.ob('STEPS/pianoroll-range', pr, pr.node, bool(ok), 'one frame per step: num_steps = len(events), end_step = start_step + len(events)' if ok else
         (unk or 'PianorollSequence step range is not derived from its length: num_steps = %s, end_step = %s' % (norm_text(ns_), norm_text(es_))), unknown=unk)


# ------------------------------------------------------------------ Melody event range
def melody_range(ctx):
  """"Melody events stay within -2..127": every entry point that puts caller-supplied events into a Melody checks each of
  them - the check sits in a loop over all the supplied events that nothing leaves early, or directly on the one event."""
  ci = ctx.cls('melodies_lib:Melody')
  for name in ('_from_event_list', 'append'):
    m = ci.methods.get(name)
    ctx.require(m is not None, 'Melody.%s not found' % name)
    ps = m.params()
    guards = [s_ for s_ in U.walk_stmts(m.node) if isinstance(s_, ast.If) and any(isinstance(x, ast.Raise) for x in s_.body) and
              'MIN_MELODY_EVENT' in norm_text(s_.test) and 'MAX_MELODY_EVENT' in norm_text(s_.test)]
    ok = len(guards) == 1
    why = 'no single range check'
    if ok:
      g = guards[0]
      t = g.test.operand if isinstance(g.test, ast.UnaryOp) and isinstance(g.test.op, ast.Not) else None
      ok = isinstance(t, ast.Compare) and len(t.ops) == 2 and all(isinstance(o, ast.LtE) for o in t.ops) and norm_text(t.left) == 'MIN_MELODY_EVENT' and \
          norm_text(t.comparators[1]) == 'MAX_MELODY_EVENT'
      why = 'the check is not "not MIN_MELODY_EVENT <= e <= MAX_MELODY_EVENT"'
      if ok:
        var = norm_text(t.comparators[0])
        loops = [a for a in U.ancestors(m.node, g) if isinstance(a, ast.For)]
        if loops:
          lp = loops[0]
          tnames = [n.id for n in ast.walk(lp.target) if isinstance(n, ast.Name)]
          over_all = norm_text(lp.iter) == ps[1] or (isinstance(lp.iter, ast.Call) and dotted(lp.iter.func) == 'enumerate' and norm_text(lp.iter.args[0]) == ps[1])
          early = [x for x in ast.walk(lp) if isinstance(x, (ast.Break, ast.Continue, ast.Return))]
          first = lp.body[0] is g
          ok = over_all and var in tnames and not early and first and len(loops) == 1
          why = 'the range check is in a loop that %s' % ('does not run over all supplied events' if not over_all else 'can be left early (break/continue/return)' if early else 'does other work before the check')
        else:
          ok = var == ps[1] and U.parent(m.node, g) is m.node
          why = 'the range check is not applied to the appended event unconditionally'
    # positively identified: the (single, well-formed) range check exists but its loop can be left before all events were seen
    located_early_exit = len(guards) == 1 and 'can be left early' in why
    ctx.ob('RANGE/melody-validated', m, guards[0] if guards else m.node, ok, 'Melody.%s checks every supplied event against MIN/MAX_MELODY_EVENT' % name if ok else
           'Melody.%s: %s - an out-of-range event can be stored' % (name, why), construct='Melody.%s validates every event' % name, definite=located_early_exit)


# ------------------------------------------------------------------ retained side
def retained_side(ctx):
  """"set_length keeps the events of the retained side": an override of set_length
  that stores into the event list after delegating may only touch the first padded
  slot on the right, i.e. index old_len (= len(self) taken before delegating) under
  old_len < steps and not from_left.  Any other element store overwrites a retained event."""
  base = ctx.cls('events_lib:SimpleEventSequence')
  seen = 0
  for ci in [base] + ctx.P.subclasses(base):
    m = ci.methods.get('set_length')
    if m is None or ci is base:
      continue
    ps = m.params()
    ctx.require(len(ps) >= 3, '%s.set_length: unexpected signature %s' % (ci.qualname, ps))
    me, steps_p, left_p = ps[0], ps[1], ps[2]
    body = m.node.body
    sup = [i for i, st in enumerate(body) if any(isinstance(c, ast.Call) and isinstance(c.func, ast.Attribute) and c.func.attr == 'set_length' and
                                                   isinstance(c.func.value, ast.Call) and dotted(c.func.value.func) == 'super' for c in ast.walk(st))]
    ctx.require(len(sup) == 1, '%s.set_length does not delegate to super().set_length exactly once at top level' % ci.qualname)
    old = [st.targets[0].id for st in body[:sup[0]] if isinstance(st, ast.Assign) and isinstance(st.targets[0], ast.Name) and norm_text(st.value) == 'len(%s)' % me]
    stores = []
    for st in U.walk_stmts(m.node):
      for tgt, _v, _o in U.store_targets(st):
        if isinstance(tgt, ast.Subscript) and norm_text(tgt.value) == me + '._events':
          stores.append((st, tgt))
    for st, tgt in stores:
      seen += 1
      conds = U.path_conditions(m.node, st)      # enclosing tests and the negations of earlier early exits
      idx_ok = len(old) == 1 and norm_text(tgt.slice) == old[0]
      grow = any(has_cmp_pol(t, pol, '%s < %s' % (old[0] if old else '?', steps_p)) for (t, pol) in conds)
      right = any(not pol and norm_text(t) == left_p for (t, pol) in conds)
      ok = idx_ok and grow and right
      ctx.ob('RETAIN/override-store', m, st, ok,
             'the only element store is the first padded slot on the right (index %s under %s < %s and not %s)' % (old[0], old[0], steps_p, left_p) if ok else
             '%s.set_length stores into %s outside the first right-padded slot (index is old length: %s, guarded by growth: %s, guarded by not %s: %s): an event of the retained side can be overwritten'
             % (ci.qualname, norm_text(tgt), idx_ok, grow, left_p, right),
             construct='%s.set_length: store %s only in the padded slot' % (ci.qualname, norm_text(tgt)),
             definite=len(old) == 1)     # the store and the old length were located; what is missing is a condition on the path to it
  ctx.require(seen >= 1, 'no set_length override with an element store found (Melody.set_length is expected)')


def _flatten(tests):
  """(test, polarity) pairs with positive conjunctions split into their conjuncts."""
  out = []
  for (t, pol) in tests:
    if pol and isinstance(t, ast.BoolOp) and isinstance(t.op, ast.And):
      out.extend((v, True) for v in t.values)
    elif not pol and isinstance(t, ast.BoolOp) and isinstance(t.op, ast.Or):
      out.extend((v, False) for v in t.values)
    else:
      out.append((t, pol))
  res = []
  for (t, pol) in out:
    if isinstance(t, ast.UnaryOp) and isinstance(t.op, ast.Not):
      res.append((t.operand, not pol))
    res.append((t, pol))
  return res


def has_cmp_pol(test, pol, text):
  try:
    return nf.compare_equal(nf.compare_nf(test, None, pol), nf.compare_nf(E(text)))
  except (nf.NFError, TypeError):
    return False


def has_cmp(test, text):
  try:
    return nf.compare_equal(nf.compare_nf(test), nf.compare_nf(E(text)))
  except nf.NFError:
    return False


MUTANTS = [
    Mutant('seed C17_d: range validation folded into the loop that stops at the first note', ML, "    for event in events:\n      if not MIN_MELODY_EVENT <= event <= MAX_MELODY_EVENT:\n        raise ValueError('Melody event out of range: %d' % event)\n", "",
           rule='RANGE/melody-validated', also=[(ML, "    for i, e in enumerate(events):\n      if e not in (MELODY_NO_EVENT, MELODY_NOTE_OFF):", "    for i, e in enumerate(events):\n      if not MIN_MELODY_EVENT <= e <= MAX_MELODY_EVENT:\n        raise ValueError('Melody event out of range: %d' % e)\n      if e not in (MELODY_NO_EVENT, MELODY_NOTE_OFF):")]),
    Mutant('seed C17_a: the sustained-note fix-up also runs when padding on the left', ML, '    if steps > old_len and not from_left:', '    if steps > old_len:', rule='RETAIN/override-store'),
    Mutant('the fix-up overwrites the last retained event', ML, '          self._events[old_len] = MELODY_NOTE_OFF', '          self._events[old_len - 1] = MELODY_NOTE_OFF', rule='RETAIN/override-store'),
    Mutant('guard written as nested ifs (harmless)', ML, '    if steps > old_len and not from_left:\n      # When extending the melody on the right, we end any sustained notes.\n      for i in reversed(range(old_len)):\n        if self._events[i] == MELODY_NOTE_OFF:\n          break\n        elif self._events[i] != MELODY_NO_EVENT:\n          self._events[old_len] = MELODY_NOTE_OFF\n          break',
           '    if not from_left:\n      if old_len < steps:\n        for i in reversed(range(old_len)):\n          if self._events[i] == MELODY_NOTE_OFF:\n            break\n          elif self._events[i] != MELODY_NO_EVENT:\n            self._events[old_len] = MELODY_NOTE_OFF\n            break', expect='silent'),
    Mutant('append without advancing end_step', EL, "    self._events.append(event)\n    self._end_step += 1", "    self._events.append(event)", rule='INV/'),
    Mutant('increase_resolution scales only end_step', EL, "    self._start_step *= k\n    self._end_step *= k", "    self._end_step *= k", rule='INV/'),
    Mutant('increase_resolution repeats k+1 times', EL, "      fill = lambda event: [event] * k", "      fill = lambda event: [event] * (k + 1)", rule='INV/'),
    Mutant('left truncation with a negated bound', EL, "        del self._events[0:len(self._events) - steps]", "        del self._events[0:-steps]", rule='IDX/'),
    Mutant('set_length from the left keeps start_step', EL, "    if from_left:\n      self._start_step = self._end_step - steps\n    else:", "    if from_left:\n      pass\n    else:", rule='INV/'),
    Mutant('padding adds one event too many', EL, "        self._events.extend([self._pad_event] * (steps - len(self)))", "        self._events.extend([self._pad_event] * (steps - len(self) + 1))", rule='INV/'),
    Mutant('from_event_list forgets the end step', EL, "    self._end_step = start_step + len(self)\n", "    self._end_step = start_step\n", rule='INV/'),
    Mutant('slice offset from the raw start', EL, "      start = key.indices(len(self._events))[0]\n", "      start = key.start or 0\n", rule='SLICE/'),
    Mutant('melody extraction forgets the final set_length', ML, "    if pad_end:\n      length += -len(self) % steps_per_bar\n    self.set_length(length)\n\n  def to_sequence", "    if pad_end:\n      length += -len(self) % steps_per_bar\n\n  def to_sequence", rule='INV/'),
    Mutant('melody note added without resizing', ML, "    self.set_length(end_step + 1)\n\n    self._events[start_step] = pitch", "    self._events.extend([MELODY_NO_EVENT] * (end_step + 1 - len(self)))\n\n    self._events[start_step] = pitch", rule='INV/'),
    Mutant('lead sheet append forgets the chords', LS, "    self._melody.append(melody_event)\n    self._chords.append(chord_event)", "    self._melody.append(melody_event)", rule='PAIRED/'),
    Mutant('lead sheet resizes chords from the other end', LS, "    self._chords.set_length(steps, from_left=from_left)", "    self._chords.set_length(steps)", rule='PAIRED/'),
    Mutant('lead sheet iterates with izip', LS, "    return zip(self._melody, self._chords)", "    return itertools.izip(self._melody, self._chords)", rule='API/'),
    Mutant('lead sheet slicing back to __getslice__ only', LS, "    if isinstance(i, slice):\n      # Python 3 passes slices to __getitem__ (__getslice__ is never called).\n      return LeadSheet(self._melody[i], self._chords[i])\n", "", rule='API/getslice'),
    Mutant('lead sheet set_length without from_left', LS, "  def set_length(self, steps, from_left=False):", "  def set_length(self, steps, from_left_unused=False):", rule=None),
    Mutant('drum track loses its steps property', PR, "  @property\n  def steps(self):\n    \"\"\"Returns a Python list of the time step at each event in this sequence.\"\"\"\n    return list(range(self.start_step, self.end_step))\n", "", rule='IFACE/'),
    Mutant('performance counts note-ons as steps', PL, "    for event in self:\n      if event.event_type == PerformanceEvent.TIME_SHIFT:\n        steps += event.event_value\n    return steps", "    for event in self:\n      if event.event_type != PerformanceEvent.NOTE_OFF:\n        steps += event.event_value\n    return steps", rule='STEPS/num-steps'),
    Mutant('performance padding emits max + 1', PL, "      self._events.append(\n          PerformanceEvent(event_type=PerformanceEvent.TIME_SHIFT,\n                           event_value=self._max_shift_steps))\n      num_steps -= self._max_shift_steps", "      self._events.append(\n          PerformanceEvent(event_type=PerformanceEvent.TIME_SHIFT,\n                           event_value=self._max_shift_steps + 1))\n      num_steps -= self._max_shift_steps", rule='STEPS/append-full-shifts'),
    Mutant('pianoroll pads one frame short', PR, "      self._events += [()] * (steps - self.num_steps)", "      self._events += [()] * (steps - self.num_steps - 1)", rule='STEPS/pianoroll'),
    # equivalent
    Mutant('append recomputes end_step', EL, "    self._events.append(event)\n    self._end_step += 1", "    self._events.append(event)\n    self._end_step = self._start_step + len(self._events)", expect='silent'),
    Mutant('lead sheet delegate calls reordered', LS, "    self._melody.append(melody_event)\n    self._chords.append(chord_event)", "    self._chords.append(chord_event)\n    self._melody.append(melody_event)", rule='PAIRED/append-validates-first'),   # was listed as equivalent until the round-4 change C17_i showed by execution that it is not
    Mutant('from_event_list computes the end from the argument', EL, "    self._end_step = start_step + len(self)\n", "    self._end_step = start_step + len(self._events)\n", expect='silent'),
]

RENAME_FUNCS = [(ML, 'Melody.set_length'), (EL, 'SimpleEventSequence.set_length'), (EL, 'SimpleEventSequence.increase_resolution'), (EL, 'SimpleEventSequence.__getitem__'),
                (ML, 'Melody.from_quantized_sequence'), (ML, 'Melody._add_note'), (CL, 'ChordProgression.from_quantized_sequence'), (DL, 'DrumTrack.from_quantized_sequence'),
                (PL, 'BasePerformance._append_steps'), (PL, 'BasePerformance.num_steps'), (LS, 'LeadSheet.append')]

EXPLANATION += (' Location-independent additions: STEPS/num-steps-types (set of event types counted), STEPS/set-length-same (scenario steps == current length), PAIRED/append-validates-first (receivers unrolled through literal tuples and tuple-valued properties). INV is definite only on single-branch paths without unmodelled calls.')
EXPLANATION += (' Round 6: ' + 'PITFALL/neg-zero-slice and PITFALL/previous-wraps over every method of every event-sequence class; PAIRED/every-exit (no exit of a length-changing LeadSheet method with one sequence edited and the other not).')
EXPLANATION += (' Round 7: ' + 'COPY/deepcopy-is-deep; SLICE/offset-grid (a hand-written slice offset against slice.indices on 81 combinations); STEPS/pianoroll-range reads through the property chain.')
EXPLANATION += (' Rounds 9-10: ' + 'PITFALL/dropped-pop over the step-appending methods (a popped element is put back or used on every way out).')
EXPLANATION += (' Round 11: ' + 'INV allow-list narrowed to the paths that skip the final _add_chord; a defect on every normal path is located; PITFALL/reslice-indices.')
EXPLANATION += (' Round 13: ' + 'a defect that mentions a made-up symbol is not a known non-zero (the every-path criterion does not apply).')
EXPLANATION += (' Round 14: ' + 'NONE/default-tested-by-identity.')
