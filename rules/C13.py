"""C13 - shift / stretch / concatenate / repeat / adjust move every event consistently (DESIGN.md §4 C13)."""
import ast

from sa import own, cov, nf, roles, astutil as U
from sa.roles import Canon
from sa.loader import norm_text, dotted
from sa.selftest import Mutant

PROPERTY = 'C13'
SL = 'sequences_lib'
F = 'note_seq/sequences_lib.py'
LEVEL_TEXT = (
    'Schema-coverage check: the set of time-bearing fields is derived from music.proto on every run, and shift / stretch / '
    'adjust must apply their one operator (+= shift, *= factor with qpm /= factor, time_func(.)) to every one of them on the '
    'copy and write nothing else (write frame); concatenation passes the running sum to the shifter, merges every piece, and '
    'its redundancy comparator equalises only `time`; repeat = ceil(d/len) copies then extract [0, d); adjust rejects '
    'reversed/negative times before emission. These are necessary structural conditions decided for all inputs; the numeric '
    'values of moved times are not decided.')
LEVEL_NOTE = ('Trusted: protobuf copy semantics; points-to model (sa/pts.py); the schema text in music.proto is what music_pb2 implements '
              '(cross-checked against music_pb2.pyi).')
TECHNIQUE = 'static analysis: write-log coverage against the parsed protobuf schema (UNIFORM/FRAME), def-use checks of offsets and comparator'
DESIGN_REF = 'DESIGN.md sections 3.4 and 4 (C13)'
EXPLANATION = (
    'UNIFORM: for shift_sequence_times, stretch_note_sequence (in_place False and True) and adjust_notesequence_times the '
    'points-to write log of the copy is compared with the time-bearing paths of the schema (7 repeated event kinds .time, note '
    'start/end, total_time): each must receive the operation\'s operator with the operation\'s operand. FRAME: no other path is '
    'written. CONCAT: offset dataflow, MergeFrom on both branches, ValueError precondition, comparator shape, descending index '
    'loop after a time sort. REPEAT: ceil + concatenate + extract(0, duration). ADJUST: guards and the zero-length skip.')
EXPLANATION += (' ' + 'ADJUST/event-negative now requires that the value compared with 0 is the very value stored into <event>.time and that the comparison precedes the store.')
TRUSTED = ['protobuf copy semantics; schema text equals the generated module (pyi cross-check)']
NOT_DECIDED = ['the numeric values of moved times', 'monotonicity of user-supplied time maps']
ASSUMPTIONS = []
# rules whose verdict does not depend on how the statements are arranged (semantic analyses); all other rules are shape rules:
# when one of those fails in a function that was restructured relative to reference/signatures.json the verdict is "cannot decide"
ROBUST = ()
FLOORS = {'UNIFORM': 30, 'FRAME': 3, 'CONCAT': 8, 'REPEAT': 3, 'ADJUST': 4}


def run(ctx):
  reversed_rejected(ctx, 'ADJUST/reversed-rejected')
  no_negative_event_stored(ctx, 'ADJUST/no-negative-event-stored')
  no_zero_shift(ctx, 'CONCAT/no-zero-shift')
  tp = cov.time_paths(ctx.S)
  ctx.require(len(tp) >= 10, 'schema lists only %d time-bearing paths' % len(tp))
  fields_named(ctx, tp)      # location-independent rules first
  identity_exit_only_for_one(ctx)
  from rules import C02 as _c02      # repeat_sequence_to_duration cuts with _extract_subsequences: the state in force at 0 is carried into the result
  _c02.carry_after_break(ctx, ctx.func(SL + ':_extract_subsequences'), 'REPEAT/carry-after-break')
  uniform(ctx, 'shift_sequence_times', {'sequence': own.NS}, {}, tp, 'aug:Add', 'shift_seconds',
          extra_allowed={('subsequence_info',): ('call:ClearField',)})
  for flag in (False, True):
    uniform(ctx, 'stretch_note_sequence', {'note_sequence': own.NS}, {'in_place': flag}, tp, 'aug:Mult', 'stretch_factor',
            extra={('tempos', '[]', 'qpm'): ('aug:Div', 'stretch_factor')}, in_place=flag)
  interp_knots(ctx)
  adjust(ctx, tp)
  redundant_means_restating(ctx)
  map_applied_to_every_event(ctx)
  concat(ctx)
  repeat(ctx)


def identity_exit_only_for_one(ctx, rule='STRETCH/unscaled-exit-only-for-factor-one'):
  """Every normal exit of stretch_note_sequence has passed the scaling of total_time, except the exit taken when the factor is
  exactly 1.  An exit without scaling that can also be taken for another reason (no notes, say) leaves the events and total_time
  of such a sequence where they were."""
  fi = ctx.func(SL + ':stretch_note_sequence')
  fn = fi.node
  cons = 'stretch_note_sequence: the only exit that skips the scaling is the one for stretch_factor == 1'

  def scales_total(n):
    return isinstance(n, (ast.Assign, ast.AugAssign)) and any(isinstance(t, ast.Attribute) and t.attr == 'total_time' for t in (n.targets if isinstance(n, ast.Assign) else [n.target]))
  miss = U.exits_missing(fn, scales_total)
  if not miss:
    ctx.ob(rule, fi, fn, True, 'every normal exit has scaled total_time', construct=cons)
  for ex in miss:
    node = ex if ex is not fn else fn
    if ex is fn:
      why = 'cannot classify: stretch_note_sequence can fall off its end without having scaled total_time'
      ctx.ob(rule, fi, fn, False, why, construct=cons, unknown=why)
      continue
    conds = U.path_conditions(fn, ex)

    def is_one(t):
      return isinstance(t, ast.Compare) and len(t.ops) == 1 and isinstance(t.ops[0], ast.Eq) and \
          sorted([norm_text(t.left), norm_text(t.comparators[0])])[-1] == 'stretch_factor' and U.const_value(t.left if norm_text(t.comparators[0]) == 'stretch_factor' else t.comparators[0]) == 1
    if any(pol and is_one(t) for t, pol in conds):
      ctx.ob(rule, fi, ex, True, 'the exit without scaling is taken only when stretch_factor == 1', construct=cons)
      continue
    wider = [t for t, pol in conds if pol and isinstance(t, ast.BoolOp) and isinstance(t.op, ast.Or) and any(is_one(v) for v in t.values)]
    if wider:
      others = [norm_text(v) for v in wider[0].values if not is_one(v)]
      ctx.ob(rule, fi, ex, False, 'stretch_note_sequence returns without scaling anything not only when stretch_factor == 1 but also when %s: the event times, tempos and total_time of '
             'such a sequence are left unscaled for every factor' % ' or '.join(others), construct=cons, definite=True)
    else:
      why = 'cannot classify: the exit at line %d skips the scaling of total_time under %s' % (getattr(ex, 'lineno', 0), ' and '.join(('' if p else 'not ') + norm_text(t) for t, p in conds) or 'no condition')
      ctx.ob(rule, fi, ex, False, why, construct=cons, unknown=why)


def fields_named(ctx, tpaths, names=('shift_sequence_times', 'stretch_note_sequence', 'adjust_notesequence_times'), rule=None):
  """Location-independent (a necessary condition): a function that moves "every note and event time" has to reach every repeated
  field of NoteSequence whose elements carry a time (music.proto, via the schema).  Unless it walks the fields generically
  (ListFields / DESCRIPTOR), a container it never names - neither as an attribute nor as a string handed to getattr - cannot be
  reached: its events keep their old times."""
  containers = sorted(set(p[0] for p in tpaths if len(p) >= 2 and p[0] != 'subsequence_info'))
  for name in names:
    fi = ctx.func(SL + ':' + name)
    fn = fi.node
    if any(isinstance(n, ast.Attribute) and n.attr in ('ListFields', 'DESCRIPTOR', 'fields_by_name') for n in ast.walk(fn)):
      continue
    nodes = U.reachable_nodes(fi)
    if any(isinstance(n, ast.Attribute) and n.attr in ('ListFields', 'DESCRIPTOR', 'fields_by_name') for n in nodes):
      continue
    named = set(n.attr for n in nodes if isinstance(n, ast.Attribute)) | set(n.value for n in nodes if isinstance(n, ast.Constant) and isinstance(n.value, str))
    missing = [c for c in containers if c not in named]
    ctx.ob(rule or 'UNIFORM/fields-named', fi, fn, not missing, '%s names all %d time-bearing containers' % (name, len(containers)) if not missing else
           '%s never names %s (a repeated field of NoteSequence whose elements carry a time): its events are not moved with the rest' % (name, ', '.join(missing)),
           construct='%s reaches every time-bearing container' % name, definite=True)


def interp_knots(ctx):
  """Location-independent typestate: the x-coordinates handed to np.interp in rectify_beats must be established as sorted AND
  free of duplicates (np.interp over repeated knots is not a function of time: the first/last beat collapses when a beat
  annotation sits exactly at 0.0 or at total_time)."""
  from sa import seqstate
  rb = ctx.func(SL + ':rectify_beats')
  for c in ast.walk(rb.node):
    if isinstance(c, ast.Call) and (dotted(c.func) or '').endswith('.interp') and len(c.args) >= 3:
      xp = U.expand_locals(rb.node, c.args[1], depth=8)
      st = seqstate.state(xp)
      if st is None:
        continue
      ok = 'sorted' in st and 'unique' in st
      ctx.ob('RECTIFY/knots-strictly-increasing', rb, c, ok, 'the beat times handed to np.interp are sorted and de-duplicated after the end points were added' if ok else
             'the knots %s of the time map are %s: %s' % (norm_text(c.args[1]), ' and '.join(sorted(st)) or 'neither sorted nor unique',
                                                           'the end points 0.0 / total_time are added after de-duplication, and the beat filter admits beats exactly at an end point, '
                                                           'so a beat at 0.0 or at total_time is a repeated knot' if 'sorted' in st else 'np.interp needs increasing x-coordinates'),
             construct='x-coordinates of the beat interpolation', definite=True)


def reversed_rejected(ctx, rule):
  """Location-independent scenario: adjust_notesequence_times "rejects maps that reverse a note" - whatever minimum_duration is.
  The raise of InvalidTimeAdjustmentError for a reversed note must be reachable when the adjusted end lies before the adjusted start
  and a minimum duration is given: its path conditions (early exits and `continue`s included) are evaluated three-valued with
  end_time = start_time - 1 and minimum_duration = 1."""
  from sa import scenario
  fi = ctx.func(SL + ':adjust_notesequence_times')
  fn = fi.node
  cons = 'a reversed note is rejected also when minimum_duration is given'
  loop = next((n for n in ast.walk(fn) if isinstance(n, ast.For) and norm_text(n.iter).endswith('.notes')), None)
  raises = []
  if loop is not None:
    for r in U.walk_stmts(loop):
      if isinstance(r, ast.Raise) and r.exc is not None and 'InvalidTimeAdjustmentError' in norm_text(r.exc):
        conds = U.path_conditions(fn, r, stop_at=loop)
        names = set(x.id for t, _p in conds for x in ast.walk(t) if isinstance(x, ast.Name))
        ends = [n_ for n_ in names if 'end' in n_]
        starts = [n_ for n_ in names if 'start' in n_]
        own = [t for t, p_ in U.enclosing_tests(fn, r, stop_at=loop) if p_][-1:]      # the test that directly guards this raise
        if len(ends) == 1 and len(starts) == 1 and any(isinstance(c, ast.Compare) and {ends[0], starts[0]} <= set(x.id for x in ast.walk(c) if isinstance(x, ast.Name)) for t in own for c in ast.walk(t)):
          raises.append((r, conds, ends[0], starts[0]))
  if not raises:
    why = 'cannot classify: no rejection that compares the adjusted end with the adjusted start was found in the note loop'
    ctx.ob(rule, fi, fn, False, why, construct=cons, unknown=why)
    return
  verdicts = []
  for r, conds, e_, s_ in raises:
    sub = scenario.subst_of([(s_, '10'), (e_, '9'), ('minimum_duration', '1')])      # a reversed note well inside positive time
    rel = [(t, p) for t, p in conds if any(isinstance(x, ast.Name) and x.id in (e_, s_, 'minimum_duration') for x in ast.walk(t))]
    verdicts.append((scenario.tv_all(rel, sub), r, rel))
  if any(v is True for v, _r, _c in verdicts):
    ctx.ob(rule, fi, raises[0][0], True, 'a reversed note reaches the rejection with minimum_duration set', construct=cons)
  elif any(v is None for v, _r, _c in verdicts):
    why = 'cannot classify: the conditions of the rejection cannot be evaluated for end_time = start_time - 1, minimum_duration = 1'
    ctx.ob(rule, fi, raises[0][0], False, why, construct=cons, unknown=why)
  else:
    _v, r, rel = verdicts[0]
    ctx.ob(rule, fi, r, False, 'with a minimum duration given, a note whose adjusted end lies before its adjusted start does not reach %s (its conditions: %s): the reversed note is padded to the '
           'minimum duration and returned instead of being rejected' % (norm_text(r)[:50], ' and '.join(('' if p else 'not ') + '(' + norm_text(t) + ')' for t, p in rel)[:200]),
           construct=cons, definite=True)


def no_negative_event_stored(ctx, rule):
  """Location-independent scenario: "no time is negative" in what adjust_notesequence_times returns.  Every store of a mapped time
  into <event>.time (all loops over non-note events) must be unreachable when the stored value is -1: the conditions on the path
  to the store are evaluated with <stored value> = -1.  A guard that tests another quantity (the event's original time) leaves
  the store reachable."""
  from sa import scenario
  fi = ctx.func(SL + ':adjust_notesequence_times')
  fn = fi.node
  cons = 'an event time mapped below zero is never stored'
  n = 0
  for lp in ast.walk(fn):
    if not (isinstance(lp, ast.For) and isinstance(lp.target, ast.Name)) or norm_text(lp.iter).endswith('.notes'):
      continue
    v = lp.target.id
    for st in U.walk_stmts(lp):
      if not (isinstance(st, ast.Assign) and len(st.targets) == 1 and isinstance(st.targets[0], ast.Attribute) and st.targets[0].attr == 'time' and norm_text(st.targets[0].value) == v):
        continue
      n += 1
      stored = norm_text(st.value)
      # the value may come out of a module-level helper that refuses a negative value itself: every return of the helper that hands
      # one of its parameters back must be unreachable with that parameter == -1
      if isinstance(st.value, ast.Call) and isinstance(st.value.func, ast.Name) and st.value.func.id in fi.module.functions:
        g = fi.module.functions[st.value.func.id]
        gp = g.params()
        rets = [r for r in U.walk_stmts(g.node, into_nested=False) if isinstance(r, ast.Return) and r.value is not None]
        if rets and all(isinstance(r.value, ast.Name) and r.value.id in gp for r in rets):
          verdicts = []
          for r in rets:
            cs = [(t, p_) for t, p_ in U.path_conditions(g.node, r) if any(isinstance(x, ast.Name) and x.id == r.value.id for x in ast.walk(t))]
            verdicts.append(scenario.tv_all(cs, scenario.subst_of([(r.value.id, '-1')])) if cs else True)
          if all(v is False for v in verdicts):
            ctx.ob(rule, fi, st, True, '%s hands its argument back only when it is not negative' % g.qualname, construct=cons)
            continue
          if any(v is None for v in verdicts):
            why = 'cannot classify: whether %s can return a negative value is not decided' % g.qualname
            ctx.ob(rule, fi, st, False, why, construct=cons, unknown=why)
            continue
      conds = [(t, p) for t, p in U.path_conditions(fn, st, stop_at=lp) if any(norm_text(x) == stored for x in ast.walk(t))]
      r = scenario.tv_all(conds, scenario.subst_of([(stored, '-1')])) if conds else True
      # the store may come first and the rejection right after it, on the stored field itself: the sequence being edited is the
      # function's own copy, so a raise after the store still returns nothing
      tgt_txt = norm_text(st.targets[0])
      blk = next((b for b in U.blocks(fn) if any(x is st for x in b)), [])
      after = blk[[i for i, x in enumerate(blk) if x is st][0] + 1:] if blk else []
      rejected_after = False
      for nx in after:
        if isinstance(nx, ast.If) and any(isinstance(x, ast.Raise) for x in nx.body) and scenario.tv(nx.test, scenario.subst_of([(tgt_txt, '-1'), (stored, '-1')])) is True:
          rejected_after = True
          break
        if any(isinstance(t_, ast.Attribute) and norm_text(t_) == tgt_txt for s2 in ast.walk(nx) if isinstance(s2, ast.stmt) for t_, _v, _o in U.store_targets(s2)):
          break
      if r is not False and rejected_after:
        ctx.ob(rule, fi, st, True, 'the stored value is tested right after the store (%s < 0 raises): a negative time never leaves the function' % tgt_txt, construct=cons)
        continue
      if r is False:
        ctx.ob(rule, fi, st, True, '%s is unreachable with %s == -1' % (norm_text(st), stored), construct=cons)
      elif r is True:
        ctx.ob(rule, fi, st, False, '%s is reached with %s == -1: no condition on its path tests the value that is stored%s, so an event moved before zero keeps a negative time in the result '
               'instead of raising InvalidTimeAdjustmentError' % (norm_text(st), stored, '' if conds else ' (the guards in front of it test something else)'), construct=cons, definite=True)
      else:
        why = 'cannot classify: the conditions on %s before the store cannot be evaluated at -1' % stored
        ctx.ob(rule, fi, st, False, why, construct=cons, unknown=why)
  if n == 0:
    why = 'cannot classify: no store into <event>.time found in the loops over the non-note events'
    ctx.ob(rule, fi, fn, False, why, construct=cons, unknown=why)


def no_zero_shift(ctx, rule):
  """Location-independent scenario: shift_sequence_times rejects a shift that is not positive, so concatenate_sequences may call it
  only when the running offset is known to be positive.  The path conditions of every call are evaluated with the offset
  argument equal to 0: the call must be unreachable."""
  from sa import scenario
  callee = ctx.func(SL + ':shift_sequence_times')
  p_shift = callee.params()[1]
  rejects = False
  for r in ast.walk(callee.node):
    if isinstance(r, ast.Raise):
      for t, p in U.path_conditions(callee.node, r):
        if scenario.tv_all([(t, p)], scenario.subst_of([(p_shift, '0')])) is True:
          rejects = True
  fi = ctx.func(SL + ':concatenate_sequences')
  fn = fi.node
  cons = 'concatenate_sequences never asks for a shift by 0'
  if not rejects:
    ctx.ob(rule, fi, fn, True, 'shift_sequence_times accepts a zero shift', construct=cons)
    return
  calls = [c for c in U.calls_in(fn) if dotted(c.func) == 'shift_sequence_times' and len(c.args) >= 2]
  if not calls:
    why = 'cannot classify: concatenate_sequences does not call shift_sequence_times directly'
    ctx.ob(rule, fi, fn, False, why, construct=cons, unknown=why)
    return
  for c in calls:
    off = norm_text(c.args[1])
    from sa import pitfalls
    # statement-level path conditions and the expression-level guards around the call (conditional expression, and / or, filters)
    conds = [(t, p) for t, p in pitfalls.guards_at(fn, c) if off in norm_text(t)]
    r = scenario.tv_all(conds, scenario.subst_of([(off, '0')])) if conds else True
    if r is False:
      ctx.ob(rule, fi, c, True, 'the call is unreachable with %s == 0' % off, construct=cons)
    elif r is True:
      ctx.ob(rule, fi, c, False, '%s is reached with %s == 0 (no condition on its path excludes it): the offset is still 0 after a leading piece of zero duration, and shift_sequence_times raises '
             'ValueError for a shift that is not positive - the concatenation fails instead of placing the next piece unshifted' % (norm_text(c)[:60], off), construct=cons, definite=True)
    else:
      why = 'cannot classify: the conditions on %s before %s cannot be evaluated at 0' % (off, norm_text(c)[:40])
      ctx.ob(rule, fi, c, False, why, construct=cons, unknown=why)


def _twin_of_param(fn, src, dst, param):
  """src is the argument's counterpart of dst: the parameter itself against a local copy, or two loop variables bound by one
  zip(...) over the same repeated field of the copy and of the parameter."""
  if isinstance(src, ast.Name) and src.id == param and isinstance(dst, ast.Name) and dst.id != param:
    return True
  if isinstance(src, ast.Name) and isinstance(dst, ast.Name):
    for n in ast.walk(fn):
      gens = [(n.target, n.iter)] if isinstance(n, ast.For) else [(g.target, g.iter) for g in getattr(n, 'generators', [])]
      for tg, it in gens:
        if isinstance(it, ast.Call) and dotted(it.func) == 'zip' and isinstance(tg, ast.Tuple) and len(tg.elts) == len(it.args):
          names = [e.id if isinstance(e, ast.Name) else None for e in tg.elts]
          if src.id in names and dst.id in names:
            a_s, a_d = it.args[names.index(src.id)], it.args[names.index(dst.id)]
            if isinstance(a_s, ast.Attribute) and isinstance(a_d, ast.Attribute) and a_s.attr == a_d.attr and isinstance(a_s.value, ast.Name) and a_s.value.id == param:
              return True
  return False


def _exclusive(fn, a, b):
  """a and b sit in different arms of one if statement (or a is b)."""
  if a is b:
    return True
  for n in ast.walk(fn):
    if isinstance(n, ast.If):
      ina = any(a is x for s in n.body for x in ast.walk(s)), any(a is x for s in n.orelse for x in ast.walk(s))
      inb = any(b is x for s in n.body for x in ast.walk(s)), any(b is x for s in n.orelse for x in ast.walk(s))
      if (ina[0] and inb[1]) or (ina[1] and inb[0]):
        return True
  return False


def _root_writes(res, in_place, param):
  ws = cov.result_writes(res, include_param=in_place)
  if in_place:
    ws = [w for w in ws if w.root == ('P', param)]
  return ws


def uniform(ctx, name, ptypes, consts, tpaths, op, operand, extra=None, extra_allowed=None, in_place=False):
  fq = SL + ':' + name
  fi = ctx.func(fq)
  res = ctx.analyze(fq, ptypes, consts)
  param = list(ptypes)[0]
  ws = _root_writes(res, in_place, param)
  ws = [w for w in ws if not w.chain]   # writes of this function itself
  bp = cov.by_path(ws)
  tag = '%s%s' % (name, '[in_place]' if in_place else '')
  want = {p: (op, operand) for p in tpaths}
  want.update(extra or {})
  for p, (wop, wopd) in sorted(want.items()):
    def as_aug(w):
      # a value computed by a nested one-return helper (`scaled(x)` for `x * factor`) is read through the helper
      if w.op == 'store' and isinstance(w.value, ast.Call) and isinstance(w.value.func, ast.Name) and w.value.func.id in getattr(fi, 'nested', {}):
        import copy as _copy
        w2 = _copy.copy(w)
        w2.value = U.inline_nested(fi, w.value)
        if isinstance(w2.value, ast.BinOp):
          return as_aug(w2)
      # `x = x <op> e` (and `x = e <op> x` for + and *) is the same update as `x <op>= e`
      if w.op == 'store' and isinstance(w.value, ast.BinOp) and isinstance(w.stmt, ast.Assign) and len(w.stmt.targets) == 1:
        t = norm_text(w.stmt.targets[0])
        nm = 'aug:' + type(w.value.op).__name__
        if norm_text(w.value.left) == t:
          return (nm, norm_text(w.value.right))
        if norm_text(w.value.right) == t and isinstance(w.value.op, (ast.Add, ast.Mult)):
          return (nm, norm_text(w.value.left))
        # the same update computed from the argument's twin field: copy.f = argument.f <op> e (the copy starts equal to the argument;
        # elements paired with zip(copy.xs, argument.xs) are twins too)
        tgt = w.stmt.targets[0]
        for a_, b_ in ((w.value.left, w.value.right),) + (((w.value.right, w.value.left),) if isinstance(w.value.op, (ast.Add, ast.Mult)) else ()):
          if isinstance(a_, ast.Attribute) and isinstance(tgt, ast.Attribute) and a_.attr == tgt.attr and _twin_of_param(fi.node, a_.value, tgt.value, param):
            return (nm, norm_text(b_))
      return (w.op, norm_text(w.value) if w.value is not None else None)
    hits = [w for w in bp.get(p, []) if as_aug(w) == (wop, wopd)]
    ok = bool(hits)
    others = [w for w in bp.get(p, []) if w not in hits]
    if others:
      ok = False
    # exactly once: two sites that both run (not the two arms of one test) apply the operation twice to the same field
    stmts = []
    for w in hits:
      if not any(w.stmt is x for x in stmts):
        stmts.append(w.stmt)
    twice = [(a, b) for i, a in enumerate(stmts) for b in stmts[i + 1:] if not _exclusive(fi.node, a, b)]
    # two loops over *parts* of the container (slices, filters) may touch disjoint elements: not decided
    partial = False
    for a, b in twice[:1]:
      for st_ in (a, b):
        for lp_ in U.enclosing_loops(fi.node, st_):
          if isinstance(lp_, ast.For):
            it_ = U.expand_locals(fi.node, lp_.iter, at=lp_)
            if any(isinstance(x, ast.Subscript) and isinstance(x.slice, ast.Slice) for x in ast.walk(it_)) or any(isinstance(x, (ast.ListComp, ast.GeneratorExp)) and x.generators[0].ifs for x in ast.walk(it_)) or \
                any(isinstance(x, ast.Call) and dotted(x.func) in ('filter', 'itertools.islice', 'islice') for x in ast.walk(it_)):
              partial = True
    if twice and partial:
      a, b = twice[0]
      why_ = 'cannot classify: %s receives %s %s at line %d and at line %d, in loops over parts of the container; whether the parts overlap is not decided' % (cov.path_text(p), wop, wopd, a.lineno, b.lineno)
      ctx.ob('UNIFORM/once/' + name, fi, b, False, why_, construct='%s: %s %s %s exactly once' % (tag, cov.path_text(p), wop, wopd), unknown=why_)
    elif twice:
      a, b = twice[0]
      ctx.ob('UNIFORM/once/' + name, fi, b, False, '%s: %s receives %s %s at line %d and again at line %d (both run: the second loop walks a collection that still contains '
             'these events): the field moves by the operation applied twice while every other field moves once' % (
                 tag, cov.path_text(p), wop, wopd, a.lineno, b.lineno), construct='%s: %s %s %s exactly once' % (tag, cov.path_text(p), wop, wopd), definite=True)
    else:
      ctx.ob('UNIFORM/once/' + name, fi, hits[0].stmt if hits else fi.node, True, '%s receives the operation at one site' % cov.path_text(p),
             construct='%s: %s %s %s exactly once' % (tag, cov.path_text(p), wop, wopd))
    # whatever its value: a shift guarded by a test of the very field it moves (`if s.total_time: s.total_time += d`) leaves the
    # events whose field is zero where they were while everything else moves.  (A guarded multiplication of zero is harmless.)
    if wop == 'aug:Add':
      for w in hits:
        tt = norm_text(w.stmt.targets[0] if isinstance(w.stmt, ast.Assign) else getattr(w.stmt, 'target', w.stmt))
        g = [t for t in U.enclosing_tests(fi.node, w.stmt) if tt in norm_text(t[0] if isinstance(t, tuple) else t)]
        if g:
          t0 = g[0][0] if isinstance(g[0], tuple) else g[0]
          ctx.ob('UNIFORM/whatever-the-value/' + name, fi, w.stmt, False, '%s: `%s` runs only when `%s`: the field is moved for some of its values and left alone for the others (a total_time / time of 0 stays 0 '
                 'while every event of the sequence moves by %s)' % (tag, norm_text(w.stmt)[:60], norm_text(t0)[:50], wopd), construct='%s: %s moves whatever its value' % (tag, cov.path_text(p)), definite=True)
    ctx.ob('UNIFORM/' + name, fi, hits[0].stmt if hits else fi.node, ok,
           ('%s receives %s %s' % (cov.path_text(p), wop, wopd)) if ok else
           ('%s: time-bearing field %s (from music.proto) %s' % (
               tag, cov.path_text(p),
               'is written with a different operator/operand: %s' % [norm_text(w.stmt) for w in others] if others else
               'never receives %s %s: events of this kind stay behind' % (wop, wopd))),
           construct='%s: %s %s %s' % (tag, cov.path_text(p), wop, wopd),
           # a write of this very field by this function was located and it is not the uniform operation: decided wherever it stands
           definite=bool(others) and p == ('total_time',))
  # FRAME: nothing else is written
  allowed = set(want) | set(extra_allowed or {})
  stray = []
  for p, lst in bp.items():
    if p in allowed:
      continue
    if p == () and all(w.op in ('call:CopyFrom',) for w in lst):
      continue   # the defensive copy itself
    stray.extend(lst)
  ctx.ob('FRAME/' + name, fi, stray[0].stmt if stray else fi.node, not stray,
         'writes only the time-bearing fields%s' % (' and clears subsequence_info' if extra_allowed else '') if not stray else
         '%s changes something else: %s' % (tag, sorted(set('%s %s' % (w.op, cov.path_text(w.path)) for w in stray))),
         construct='%s: write frame' % tag)
  for p, ops in (extra_allowed or {}).items():
    hit = any(w.op in ops for w in bp.get(p, []))
    ctx.ob('FRAME/' + name, fi, fi.node, hit, '%s is cleared' % cov.path_text(p) if hit else
           '%s: %s is not cleared although the frame of reference moved' % (tag, cov.path_text(p)),
           construct='%s: clears %s' % (tag, cov.path_text(p)))


def adjust(ctx, tpaths):
  name = 'adjust_notesequence_times'
  fq = SL + ':' + name
  fi = ctx.func(fq)
  res = ctx.analyze(fq, {'ns': own.NS}, {})
  ws = [w for w in cov.result_writes(res) if not w.chain]
  bp = cov.by_path(ws)
  deleted = set(p for p, lst in bp.items() if any(w.op == 'del' for w in lst) and len(p) == 1)
  # documented drops: tempos are deleted
  for p in sorted(tpaths):
    if p == ('total_time',):
      continue
    if p[0] == 'tempos':
      ok = ('tempos',) in deleted
      ctx.ob('UNIFORM/' + name, fi, fi.node, ok, 'tempos are deleted (documented: too complicated to adjust)' if ok else
             'tempos are neither adjusted nor deleted', construct='adjust: tempos deleted')
      continue
    hits = []
    for w in bp.get(p, []):
      if w.op != 'store' or w.value is None:
        continue
      v = cov.resolve_value(fi.node, w.value, w.stmt)
      # accept   time_func(<x>.<same leaf>)   possibly followed by  += minimum_duration on the local
      if isinstance(v, ast.Call) and isinstance(v.func, ast.Name) and v.func.id == 'time_func' and v.args and \
          isinstance(v.args[0], ast.Attribute) and v.args[0].attr == p[-1]:
        hits.append(w)
    ok = bool(hits)
    ctx.ob('UNIFORM/' + name, fi, hits[0].stmt if hits else fi.node, ok,
           '%s receives time_func(.%s)' % (cov.path_text(p), p[-1]) if ok else
           'adjust_notesequence_times: time-bearing field %s (from music.proto) is never mapped through time_func: events of this kind keep their old time' % cov.path_text(p),
           construct='adjust: %s = time_func(.)' % cov.path_text(p))
  # guards (S5): read on a copy whose locals carry their role names
  fi = adjust_canon(fi)
  loop = None
  for n in ast.walk(fi.node):
    if isinstance(n, ast.For) and norm_text(n.iter).endswith('.notes'):
      loop = n
      break
  ctx.require(loop is not None, 'adjust_notesequence_times: note loop not found')
  skips = []
  for st in U.walk_stmts(loop):
    if isinstance(st, ast.Continue):
      tests = [U.compare_nf(t, pol) for (t, pol) in U.enclosing_tests(fi.node, st, stop_at=loop)]
      skips.append(tests)
  ok = len(skips) >= 1 and all(any(c is not None and c[1] == '==' and {c[0], c[2]} == {'start_time', 'end_time'} for c in tests) for tests in skips)
  # positively located: a note is skipped under an *approximate* equality of the mapped start and end
  approx = [c for st in U.walk_stmts(loop) if isinstance(st, ast.Continue) for (t, pol) in U.enclosing_tests(fi.node, st, stop_at=loop)
            for c in ast.walk(t) if isinstance(c, ast.Call) and (dotted(c.func) or '').split('.')[-1] in ('isclose', 'allclose') and
            {norm_text(a) for a in c.args[:2]} == {'start_time', 'end_time'}]
  if approx and not ok:
    ctx.ob('ADJUST/skip', fi, approx[0], False, 'a note is dropped when %s: only notes collapsed to *zero* length may be dropped; a short note whose mapped start and end are merely close '
           '(within the tolerance of isclose, which grows with the time) disappears' % norm_text(approx[0]), construct='adjust: collapsed notes skipped', definite=True)
  else:
    ctx.ob('ADJUST/skip', fi, loop, ok, 'notes are skipped only under start_time == end_time' if ok else
           'a note is skipped under a condition other than zero adjusted length: %s' % skips, construct='adjust: only zero-length notes are skipped')
  classes = set()
  for st in U.walk_stmts(fi.node):
    if isinstance(st, ast.Raise) and st.exc is not None:
      classes.add(dotted(st.exc.func) if isinstance(st.exc, ast.Call) else dotted(st.exc))
  ok = classes == {'InvalidTimeAdjustmentError'}
  ctx.ob('ADJUST/raise-class', fi, fi.node, ok, 'all rejections raise InvalidTimeAdjustmentError' if ok else
         'rejections raise %s' % sorted(map(str, classes)), construct='adjust: rejection class')
  ev_loop = None
  for n in ast.walk(fi.node):
    if isinstance(n, ast.For) and n is not loop and any(isinstance(x, ast.Raise) for x in ast.walk(n)):
      ev_loop = n
  ok = False
  if ev_loop is not None and isinstance(ev_loop.target, ast.Name):
    # the value that is stored into <event>.time is the one compared with 0, before the store
    stores = [(i, st) for i, st in enumerate(ev_loop.body) if isinstance(st, ast.Assign) and len(st.targets) == 1 and isinstance(st.targets[0], ast.Attribute) and
              st.targets[0].attr == 'time' and norm_text(st.targets[0].value) == ev_loop.target.id]
    if len(stores) == 1:
      si, store = stores[0]
      stored = norm_text(store.value)
      for i, st in enumerate(ev_loop.body[:si]):
        if isinstance(st, ast.If) and any(isinstance(x, ast.Raise) for x in st.body):
          c = U.compare_full(st.test)
          if c is not None and c[1] == '<' and c[2] == '0' and c[0] == stored:
            ok = True
  ctx.ob('ADJUST/event-negative', fi, ev_loop or fi.node, ok, 'event times mapped below zero are rejected' if ok else
         'no rejection of event times mapped below zero', construct='adjust: event time < 0 rejected')
  # rectify_beats delegates to adjust with the interpolating closure
  rb = ctx.func(SL + ':rectify_beats')
  calls = [c for c in U.calls_in(rb.node) if dotted(c.func) == 'adjust_notesequence_times']
  ok = len(calls) == 1 and len(calls[0].args) >= 2 and isinstance(calls[0].args[1], ast.Name) and calls[0].args[1].id in rb.nested
  interp_ok = False
  if ok:
    tf = rb.nested[calls[0].args[1].id]
    for c in U.calls_in(tf.node):
      if (dotted(c.func) or '').endswith('interp') and len(c.args) >= 3:
        interp_ok = True
  ctx.ob('ADJUST/rectify', rb, calls[0] if calls else rb.node, ok and interp_ok,
         'rectify_beats maps times through one interpolation closure handed to adjust_notesequence_times' if ok and interp_ok else
         'rectify_beats no longer applies its interpolation through adjust_notesequence_times', construct='rectify: adjust(sequence, time_func)')


def adjust_canon(fi):
  def tf(attr):
    return lambda fn: roles.assigned_where(fn, lambda v, st: isinstance(v, ast.Call) and isinstance(v.func, ast.Name) and v.func.id == 'time_func' and
                                           v.args and isinstance(v.args[0], ast.Attribute) and v.args[0].attr == attr)
  return Canon(fi, roles.discover(fi, {'start_time': tf('start_time'), 'end_time': tf('end_time')}))


def concat(ctx):
  fi = ctx.func(SL + ':concatenate_sequences')
  fi = Canon(fi, roles.discover(fi, {
      'i': lambda fn: [n.target.id for n in fn.body if isinstance(n, ast.For) and isinstance(n.target, ast.Name)],
      'sequence': lambda fn: roles.assigned_where(fn, lambda v, st: isinstance(v, ast.Subscript) and norm_text(v.value) == 'sequences'),
  }))
  fn = fi.node
  calls = [c for c in U.calls_in(fn) if dotted(c.func) == 'shift_sequence_times']
  ctx.require(len(calls) >= 1, 'concatenate_sequences no longer calls shift_sequence_times')
  for c in calls:
    arg = c.args[1] if len(c.args) > 1 else None
    ok = isinstance(arg, ast.Name)
    off = arg.id if ok else None
    ctx.ob('CONCAT/offset-arg', fi, c, ok, 'offset is the local %s' % off if ok else 'offset argument is not a running-sum local: %s' % (norm_text(arg) if arg is not None else None))
    if not ok:
      continue
    merge_recv = None
    for m in U.calls_in(fn, 'MergeFrom'):
      merge_recv = norm_text(m.func.value)
    seqvar = norm_text(c.args[0])
    defs = []
    for st in U.walk_stmts(fn):
      for tgt, val, op in U.store_targets(st):
        if isinstance(tgt, ast.Name) and tgt.id == off:
          defs.append((st, val, op))
    good = True
    why = []
    for (st, val, op) in defs:
      t = norm_text(val)
      if op == 'store' and U.const_value(val) == 0:
        continue
      if op == 'aug:Add' and t.startswith('sequence_durations['):
        continue
      if op == 'store' and merge_recv is not None and t == merge_recv + '.total_time':
        continue
      good = False
      why.append(norm_text(st))
    # location-independent reading of the same contract: whichever way the update is written (if/else, conditional expression,
    # = or +=), the value the offset takes when no explicit durations are given is the total_time of everything merged so far
    # - not that added to the old offset, which counts the earlier pieces twice
    for (st, val, op) in defs:
      if not U.enclosing_loops(fn, st):
        continue
      alts = [val.body, val.orelse] if isinstance(val, ast.IfExp) else [val]
      for alt in alts:
        if alt is None or not (isinstance(alt, ast.Attribute) and alt.attr == 'total_time' or
                               any(isinstance(n_, ast.Attribute) and n_.attr == 'total_time' for n_ in ast.walk(alt))):
          continue
        try:
          new = nf.rat(alt) + (nf.rat(U.E(off)) if op == 'aug:Add' else nf.rat(U.E('0')))
          want = nf.rat(U.E('%s.total_time' % merge_recv)) if merge_recv else None
        except nf.NFError:
          continue
        if want is None:
          continue
        okx = new.equals(want)
        ctx.ob('CONCAT/implicit-offset', fi, st, okx, 'without explicit durations the next offset is the total time merged so far' if okx else
               'without explicit durations the next offset becomes %r instead of %s.total_time: from the third piece on the earlier pieces are counted twice' % (new, merge_recv),
               construct='offset := merged total_time when no durations are given', definite=True)
    has_aug = any(op == 'aug:Add' for (_s, _v, op) in defs)
    has_tot = any(op == 'store' and norm_text(v).endswith('.total_time') for (_s, v, op) in defs)
    ctx.ob('CONCAT/running-sum', fi, c, good and has_aug and has_tot,
           'offset %s is 0, then += explicit duration or = merged total_time' % off if (good and has_aug and has_tot) else
           'the offset handed to the shifter is not the running sum of the previous pieces: %s' % (why or 'missing accumulation'),
           construct='offset %s is the running sum' % off)
    # the shifted sequence is the current piece and its result is merged
    par = U.parent(fn, c)
    ok = isinstance(par, ast.Call) and isinstance(par.func, ast.Attribute) and par.func.attr == 'MergeFrom'
    ctx.ob('CONCAT/merge-shifted', fi, c, ok, 'the shifted piece is merged' if ok else 'the shifted piece is not merged into the result')
  merges = list(U.calls_in(fn, 'MergeFrom'))
  loop = next((n for n in ast.walk(fn) if isinstance(n, ast.For)), None)
  in_loop = [m for m in merges if loop is not None and any(x is m for x in ast.walk(loop))]
  # every iteration merges: MergeFrom in both arms of one if/else directly in the loop body
  ok = False
  if loop is not None:
    for st in loop.body:
      if isinstance(st, ast.If) and st.orelse and any(m for m in merges if any(x is m for x in ast.walk(ast.Module(body=st.body, type_ignores=[])))) and \
          any(m for m in merges if any(x is m for x in ast.walk(ast.Module(body=st.orelse, type_ignores=[])))):
        ok = True
      if isinstance(st, ast.Expr) and isinstance(st.value, ast.Call) and st.value in merges:
        ok = True
  ctx.ob('CONCAT/merge-every-piece', fi, loop or fn, ok, 'every piece is merged (both branches)' if ok else 'some piece is not merged on some path',
         construct='MergeFrom on every path of the piece loop')
  # precondition raises ValueError
  okv = False
  for st in U.walk_stmts(fn):
    if isinstance(st, ast.If) and any(isinstance(x, ast.Raise) for x in st.body):
      t = norm_text(st.test)
      if 'sequence_durations[i] < sequence.total_time' in t:
        r = next(x for x in st.body if isinstance(x, ast.Raise))
        okv = isinstance(r.exc, ast.Call) and dotted(r.exc.func) == 'ValueError'
  ctx.ob('CONCAT/duration-precondition', fi, fn, okv, 'a duration shorter than total_time raises ValueError' if okv else
         'no ValueError for a duration shorter than the piece', construct='duration < total_time -> ValueError')
  last = fn.body[-1]
  ok = isinstance(last, ast.Return) and isinstance(last.value, ast.Call) and dotted(last.value.func) == 'remove_redundant_data'
  ctx.ob('CONCAT/redundancy', fi, last, ok, 'result goes through remove_redundant_data' if ok else 'result is not de-duplicated')
  # comparator in remove_redundant_data
  rr = ctx.func(SL + ':remove_redundant_data')
  # sibling idiom: an explicit table (container, value fields) compared field by field - every field of the event
  # type other than its time must be listed, or events that differ only in an unlisted field are dropped as repeats
  def _container(x):
    return x.attr if isinstance(x, ast.Attribute) else (x.value if isinstance(x, ast.Constant) and isinstance(x.value, str) else None)

  def _fields(x):
    if isinstance(x, (ast.Tuple, ast.List)) and all(isinstance(c, ast.Constant) and isinstance(c.value, str) for c in x.elts):
      return [c.value for c in x.elts]
    if isinstance(x, ast.Call) and (dotted(x.func) or '').endswith('attrgetter') and all(isinstance(c, ast.Constant) and isinstance(c.value, str) for c in x.args):
      return [c.value for c in x.args]
    return None

  def _table(node):
    # a display of (container, value fields) pairs, written in the loop header or bound once at module level
    if isinstance(node, ast.Name) and len(rr.module.assigns.get(node.id, [])) == 1:
      node = rr.module.assigns[node.id][0]
    if isinstance(node, (ast.List, ast.Tuple)) and node.elts and all(
        isinstance(e, ast.Tuple) and len(e.elts) == 2 and _container(e.elts[0]) is not None and _fields(e.elts[1]) is not None for e in node.elts):
      return node
    return None
  tab = next((_table(n.iter) for n in ast.walk(rr.node) if isinstance(n, ast.For) and _table(n.iter) is not None), None)
  if tab is not None:
    ns = ctx.S.msg('NoteSequence')
    for e in tab.elts:
      cont = _container(e.elts[0])
      f = ns.fields.get(cont) if ns else None
      ctx.require(f is not None and f.kind == 'message', 'remove_redundant_data: %s is not a message field of NoteSequence' % cont)
      m = ctx.S.msg(f.type)
      want = sorted(k for k in m.fields if k != 'time')
      got = sorted(_fields(e.elts[1]))
      ok = got == want
      ctx.ob('CONCAT/cmp-all-fields', rr, e, ok, '%s events are compared in all their value fields %s' % (cont, want) if ok else
             '%s events are compared in %s only; the event type has the value fields %s, so an event differing only in %s is dropped as a repeat' % (
                 cont, got, want, sorted(set(want) - set(got))), construct='remove_redundant_data: %s compared in all value fields' % cont, definite=True)
    return
  rr = Canon(rr, roles.discover(rr, {
      'events': lambda fn: [n.target.id for n in ast.walk(fn) if isinstance(n, ast.For) and isinstance(n.iter, ast.List) and isinstance(n.target, ast.Name)],
      'i': lambda fn: [n.target.id for n in ast.walk(fn) if isinstance(n, ast.For) and isinstance(n.iter, ast.Call) and dotted(n.iter.func) == 'range' and isinstance(n.target, ast.Name)],
  }))
  rn = rr.node
  loop = next((n for n in ast.walk(rn) if isinstance(n, ast.For) and isinstance(n.iter, ast.Call) and dotted(n.iter.func) == 'range'), None)
  ctx.require(loop is not None, 'remove_redundant_data: index loop not found')
  outer = next((a for a in U.ancestors(rn, loop) if isinstance(a, ast.For)), None)
  sort_ok = False
  if outer is not None:
    idx = [i for i, s in enumerate(outer.body) if s is loop][0]
    for s in outer.body[:idx]:
      if isinstance(s, ast.Expr) and isinstance(s.value, ast.Call) and isinstance(s.value.func, ast.Attribute) and s.value.func.attr == 'sort':
        key = next((k.value for k in s.value.keywords if k.arg == 'key'), None)
        if isinstance(key, ast.Lambda) and isinstance(key.body, ast.Attribute) and key.body.attr == 'time':
          sort_ok = True
  ctx.ob('CONCAT/cmp-sorted', rr, loop, sort_ok, 'events are sorted by time before neighbours are compared' if sort_ok else
         'neighbours are compared without sorting by time first', construct='events.sort(key=time) before the neighbour loop')
  r = loop.iter
  desc = len(r.args) == 3 and U.const_value(r.args[2]) == -1 and U.const_value(r.args[1]) == 0 and norm_text(r.args[0]).replace(' ', '') == 'len(events)-1'
  ctx.ob('CONCAT/cmp-descending', rr, loop, desc, 'indices run from len-1 down to 1, so deletions do not shift unvisited elements' if desc else
         'index loop %s does not run from len-1 down to 1' % norm_text(r), construct='range(len(events) - 1, 0, -1)')
  tmp = None
  for st in loop.body:
    if isinstance(st, ast.Assign) and isinstance(st.value, ast.Call) and dotted(st.value.func) == 'copy.deepcopy' and isinstance(st.targets[0], ast.Name):
      tmp = st.targets[0].id
  stores = []
  for st in U.walk_stmts(loop):
    for tgt, val, op in U.store_targets(st):
      if isinstance(tgt, ast.Attribute) and isinstance(tgt.value, ast.Name) and tgt.value.id == tmp:
        stores.append((tgt.attr, norm_text(val)))
  ok = tmp is not None and stores == [('time', 'events[i - 1].time')]
  ctx.ob('CONCAT/cmp-equalise-time-only', rr, loop, ok, 'the copy is equalised in `time` only' if ok else
         'the comparator equalises %s: events differing in more than time would be dropped (or none at all)' % stores,
         construct='tmp.time = events[i - 1].time is the only equalised field')
  okc = False
  for st in loop.body:
    if isinstance(st, ast.If) and any(isinstance(x, ast.Delete) and norm_text(x.targets[0]) == 'events[i]' for x in st.body):
      c = U.compare_full(st.test)
      if c is not None and c[1] == '==' and {c[0], c[2]} == {tmp, 'events[i - 1]'}:
        okc = True
  ctx.ob('CONCAT/cmp-delete-second', rr, loop, okc, 'the later event is deleted iff the equalised copy equals its predecessor' if okc else
         'deletion condition is not "equalised copy == predecessor -> delete events[i]"', construct='if tmp == events[i - 1]: del events[i]')


def repeat_passes_through_concat(ctx, fi):
  """Location-independent (must-pass-through): the repetition "is the concatenation of enough copies cut at the requested
  duration" - also when one copy is enough, because concatenate_sequences does more than join (it drops repeated tempo / time
  signature / key events and duplicate metadata).  Whatever is handed to the cutting step must have been produced by
  concatenate_sequences on every path: a second binding of that variable to anything else is a path around it."""
  fn = fi.node
  cuts = [c for c in U.calls_in(fn) if (dotted(c.func) or '') in ('extract_subsequence', '_extract_subsequences', 'trim_note_sequence') and c.args and isinstance(c.args[0], ast.Name)]
  for c in cuts:
    name = c.args[0].id
    binds = [s for s in U.walk_stmts(fn) if isinstance(s, ast.Assign) and len(s.targets) == 1 and isinstance(s.targets[0], ast.Name) and s.targets[0].id == name]
    if not binds or not any(isinstance(s.value, ast.Call) and dotted(s.value.func) == 'concatenate_sequences' for s in binds):
      continue
    other = [s for s in binds if not (isinstance(s.value, ast.Call) and dotted(s.value.func) == 'concatenate_sequences')]
    ctx.ob('REPEAT/through-concatenate', fi, other[0] if other else binds[0], not other, 'the sequence that is cut always comes from concatenate_sequences' if not other else
           '%s reaches the cutting step %s without passing through concatenate_sequences (under %s): a single copy keeps the repeated tempo / time-signature / key events and '
           'duplicate metadata that a concatenation of one piece drops, so the result is not "the concatenation of enough copies cut at the duration"' % (
               norm_text(other[0]), norm_text(c.func), ', '.join(('' if p else 'not ') + norm_text(t) for t, p in U.path_conditions(fn, other[0])) or 'no condition'),
           construct='repeat: cut(concatenate(copies))', definite=True)


def map_applied_to_every_event(ctx, rule='ADJUST/map-applied-whatever-the-time'):
  """"adjust_notesequence_times applies the given time map to every note and event": the call of the map on an event's time may not
  be conditional on that time (`f(t) if t > 0 else t` leaves the events at 0 where they are while the notes at 0 move)."""
  fi = ctx.func(SL + ':adjust_notesequence_times')
  fn = fi.node
  fname = fi.params()[1] if len(fi.params()) > 1 else 'time_func'
  from sa import pitfalls
  bad = []
  n = 0
  for c in ast.walk(fn):
    if not (isinstance(c, ast.Call) and isinstance(c.func, ast.Name) and c.func.id == fname and len(c.args) == 1):
      continue
    n += 1
    arg = norm_text(c.args[0])
    for t, p in pitfalls.guards_at(fn, c):
      if pitfalls._mentions(t, arg) and isinstance(t, ast.Compare) and any(isinstance(U.const_value(x), (int, float)) for x in [t.left] + t.comparators):
        bad.append((c, t, p))
  cons = 'adjust_notesequence_times maps every time, whatever its value'
  if n == 0:
    why = 'cannot classify: no call of the time map %s(<time>) found' % fname
    ctx.ob(rule, fi, fn, False, why, construct=cons, unknown=why)
    return
  ctx.ob(rule, fi, bad[0][0] if bad else fn, not bad, '%d applications of the map, none conditional on the time it maps' % n if not bad else
         '%s is applied only when %s%s: a time for which that is false is left unmapped, so events there do not move with the notes (and a map that sends them below zero is '
         'not rejected)' % (norm_text(bad[0][0]), '' if bad[0][2] else 'not ', norm_text(bad[0][1])), construct=cons, definite=True)


def redundant_means_restating(ctx, rule='CONCAT/redundant-is-restating-the-predecessor'):
  """remove_redundant_data drops a tempo / time signature / key event when it *restates the value in force*, i.e. equals its
  predecessor in time order apart from the time.  A de-duplication by "seen anywhere before" (a growing set tested with `in`) also
  drops a value that returns after a different one (A B A): the second A is a change, and removing it leaves B in force."""
  fi = ctx.func(SL + ':remove_redundant_data')
  fn = fi.node
  loops = [lp for lp in ast.walk(fn) if isinstance(lp, ast.For) and any(isinstance(a, ast.Attribute) and a.attr in ('tempos', 'time_signatures', 'key_signatures') for a in ast.walk(lp.iter))]
  cons = 'remove_redundant_data compares a state event with its predecessor, not with everything seen before'
  if not loops:
    why = 'cannot classify: no loop over the tempo / time-signature / key lists in remove_redundant_data'
    ctx.ob(rule, fi, fn, False, why, construct=cons, unknown=why)
    return

  def seen_set(node):
    """a set that is grown with .add and tested with `in` inside `node`"""
    sets = set(t.id for s_ in ast.walk(node) if isinstance(s_, ast.Assign) and isinstance(s_.value, ast.Call) and dotted(s_.value.func) == 'set' and not s_.value.args
               for t in s_.targets if isinstance(t, ast.Name))
    grown = set(c.func.value.id for c in ast.walk(node) if isinstance(c, ast.Call) and isinstance(c.func, ast.Attribute) and c.func.attr == 'add' and isinstance(c.func.value, ast.Name))
    tested = set(c.comparators[0].id for c in ast.walk(node) if isinstance(c, ast.Compare) and len(c.ops) == 1 and isinstance(c.ops[0], (ast.In, ast.NotIn)) and isinstance(c.comparators[0], ast.Name))
    return sorted(sets & grown & tested)
  for lp in loops:
    where = [(lp, seen_set(lp))]
    for c in ast.walk(lp):
      g = fi.nested.get(c.func.id) if isinstance(c, ast.Call) and isinstance(c.func, ast.Name) else None
      if g is not None:
        where.append((g.node, seen_set(g.node)))
    hit = [(n, ss) for n, ss in where if ss]
    ctx.ob(rule, fi, hit[0][0] if hit else lp, not hit, 'no "seen before" set decides which state events are dropped' if not hit else
           'the state events that are dropped are chosen with the set `%s` of everything seen before: a tempo / meter / key that returns after a different one (A, B, A) is dropped although it '
           'is a change, and B stays in force from there on' % hit[0][1][0], construct=cons, definite=True)


def repeat_cut_takes_every_event(ctx, fi):
  """Location-independent: "the concatenation of enough copies cut at the requested duration" is cut with extract_subsequence (or the
  splitter under it), which cuts notes *and* tempo / meter / key / chord / beat / pedal events at the duration.  trim_note_sequence
  cuts the notes only: everything else of the last copy survives at or after the requested duration."""
  fn = fi.node
  cuts = [c for c in U.calls_in(fn) if (dotted(c.func) or '').split('.')[-1] in ('extract_subsequence', '_extract_subsequences', 'trim_note_sequence')]
  cons = 'repeat_sequence_to_duration cuts the repetition with extract_subsequence'
  if not cuts:
    why = 'cannot classify: repeat_sequence_to_duration calls none of extract_subsequence / _extract_subsequences / trim_note_sequence'
    ctx.ob('REPEAT/cut-takes-every-event', fi, fn, False, why, construct=cons, unknown=why)
    return
  notes_only = [c for c in cuts if (dotted(c.func) or '').split('.')[-1] == 'trim_note_sequence']
  full = [c for c in cuts if c not in notes_only]
  ok = bool(full) and not notes_only
  ctx.ob('REPEAT/cut-takes-every-event', fi, (notes_only or cuts)[0], ok, 'the repetition is cut by %s' % norm_text(full[0].func) if ok else
         'the repetition is cut with trim_note_sequence, which removes and clips notes only: the tempo, time-signature, key, chord, beat and pedal events of the copy that is cut stay where '
         'they are, at or after the requested duration', construct=cons, definite=bool(notes_only) and not full)


def repeat(ctx):
  fi = ctx.func(SL + ':repeat_sequence_to_duration')
  repeat_passes_through_concat(ctx, fi)
  repeat_cut_takes_every_event(ctx, fi)
  fi = Canon(fi, roles.discover(fi, {
      'num_repeats': lambda fn: roles.assigned_where(fn, lambda v, st: any(isinstance(b, ast.BinOp) and isinstance(b.op, (ast.Div, ast.FloorDiv)) and
                                                                          norm_text(b.left) == 'duration' for b in ast.walk(v))),
      'repeated_ns': lambda fn: roles.assigned_where(fn, lambda v, st: isinstance(v, ast.Call) and dotted(v.func) == 'concatenate_sequences'),
  }))
  fn = fi.node
  n_def = None
  for st in U.walk_stmts(fn):
    if isinstance(st, ast.Assign) and isinstance(st.targets[0], ast.Name) and st.targets[0].id == 'num_repeats':
      n_def = st
  ok = False
  if n_def is not None:
    calls = [dotted(c.func) for c in U.calls_in(n_def.value)]
    div = [n for n in ast.walk(n_def.value) if isinstance(n, ast.BinOp) and isinstance(n.op, ast.Div)]
    ok = 'math.ceil' in calls and len(div) == 1 and norm_text(div[0]) == 'duration / sequence_duration'
  ctx.ob('REPEAT/ceil', fi, n_def or fn, ok, 'repeat count is ceil(duration / sequence_duration)' if ok else
         'repeat count is not ceil(duration / sequence_duration): the result may be shorter than requested', construct='num_repeats = ceil(duration / sequence_duration)')
  cc = [c for c in U.calls_in(fn) if dotted(c.func) == 'concatenate_sequences']
  ok = False
  if len(cc) == 1:
    a0 = norm_text(cc[0].args[0]) if cc[0].args else ''
    kw = {k.arg: norm_text(k.value) for k in cc[0].keywords}
    a1 = kw.get('sequence_durations') or (norm_text(cc[0].args[1]) if len(cc[0].args) > 1 else '')
    ok = a0 == '[sequence] * num_repeats' and a1 == '[sequence_duration] * num_repeats'
  ctx.ob('REPEAT/concat', fi, cc[0] if cc else fn, ok, 'num_repeats copies with num_repeats explicit durations are concatenated' if ok else
         'the repeated sequence is not the concatenation of num_repeats copies at sequence_duration spacing', construct='concatenate([sequence] * n, [sequence_duration] * n)')
  ec = [c for c in U.calls_in(fn) if dotted(c.func) == 'extract_subsequence']
  ok = False
  if len(ec) == 1:
    kw = {k.arg: k.value for k in ec[0].keywords}
    st = kw.get('start_time') or (ec[0].args[1] if len(ec[0].args) > 1 else None)
    en = kw.get('end_time') or (ec[0].args[2] if len(ec[0].args) > 2 else None)
    ok = st is not None and U.const_value(st) == 0 and en is not None and norm_text(en) == 'duration'
  ctx.ob('REPEAT/cut', fi, ec[0] if ec else fn, ok, 'the concatenation is cut at [0, duration)' if ok else
         'the concatenation is not cut at [0, duration)', construct='extract_subsequence(repeated, 0, duration)')


MUTANTS = [
    Mutant('seed C13_d: repeats detected from a field table that forgets KeySignature.mode', F,
           "  for events in [\n      fixed_sequence.time_signatures, fixed_sequence.key_signatures,\n      fixed_sequence.tempos\n  ]:", "  for events, value_fields in [\n      (fixed_sequence.time_signatures, ('numerator', 'denominator')),\n      (fixed_sequence.key_signatures, ('key',)),\n      (fixed_sequence.tempos, ('qpm',))\n  ]:", rule='CONCAT/cmp-all-fields',
           also=[(F, "      tmp_ts = copy.deepcopy(events[i])\n      tmp_ts.time = events[i - 1].time\n", ""), (F, "      if tmp_ts == events[i - 1]:", "      if all(getattr(events[i], field) == getattr(events[i - 1], field) for field in value_fields):")]),
    Mutant('the same refactoring with complete field lists (harmless)', F,
           "  for events in [\n      fixed_sequence.time_signatures, fixed_sequence.key_signatures,\n      fixed_sequence.tempos\n  ]:", "  for events, value_fields in [\n      (fixed_sequence.time_signatures, ('numerator', 'denominator')),\n      (fixed_sequence.key_signatures, ('key', 'mode')),\n      (fixed_sequence.tempos, ('qpm',))\n  ]:", expect='silent',
           also=[(F, "      tmp_ts = copy.deepcopy(events[i])\n      tmp_ts.time = events[i - 1].time\n", ""), (F, "      if tmp_ts == events[i - 1]:", "      if all(getattr(events[i], field) == getattr(events[i - 1], field) for field in value_fields):")]),
    Mutant('seed C13_b: the original event time is tested for negativity, the mapped one is stored', F, "    time = time_func(event.time)\n    if time < 0:", "    time = time_func(event.time)\n    if event.time < 0:", rule='ADJUST/event-negative'),
    Mutant('the event store precedes the check (harmless: the edited sequence is the function\'s own copy and the raise follows)', F, "    time = time_func(event.time)\n    if time < 0:", "    time = time_func(event.time)\n    event.time = time\n    if time < 0:", expect='silent', lenient=True),
    Mutant('shift: pitch_bends dropped from the chain', F, '      shifted.pitch_bends, shifted.control_changes, shifted.text_annotations,\n      shifted.section_annotations',
           '      shifted.control_changes, shifted.text_annotations,\n      shifted.section_annotations', rule='UNIFORM/shift'),
    Mutant('shift: section_annotations dropped', F, 'shifted.text_annotations,\n      shifted.section_annotations\n  ]', 'shifted.text_annotations\n  ]', rule='UNIFORM/shift'),
    Mutant('shift: total_time shifted twice', F, '  shifted.total_time += shift_seconds', '  shifted.total_time += 2 * shift_seconds', rule='UNIFORM/shift'),
    Mutant('shift: note end not shifted', F, '    note.start_time += shift_seconds\n    note.end_time += shift_seconds', '    note.start_time += shift_seconds', rule='UNIFORM/shift'),
    Mutant('shift: also bumps ticks_per_quarter', F, '  shifted.total_time += shift_seconds', '  shifted.total_time += shift_seconds\n  shifted.ticks_per_quarter = 220', rule='FRAME/shift'),
    Mutant('shift: subsequence_info kept', F, "  shifted.ClearField('subsequence_info')\n\n  # Shift notes.", "  # Shift notes.", rule='FRAME/shift'),
    Mutant('stretch: key signatures left behind', F, '      stretched_sequence.time_signatures, stretched_sequence.key_signatures,\n      stretched_sequence.tempos, stretched_sequence.pitch_bends,',
           '      stretched_sequence.time_signatures,\n      stretched_sequence.tempos, stretched_sequence.pitch_bends,', rule='UNIFORM/stretch'),
    Mutant('stretch: qpm multiplied', F, '    tempo.qpm /= stretch_factor', '    tempo.qpm *= stretch_factor', rule='UNIFORM/stretch'),
    Mutant('stretch: velocity touched', F, '    note.end_time *= stretch_factor\n  stretched_sequence.total_time', '    note.end_time *= stretch_factor\n    note.velocity = min(127, note.velocity)\n  stretched_sequence.total_time', rule='FRAME/stretch'),
    Mutant('adjust: pitch bends not mapped', F, '      adjusted_ns.control_changes,\n      adjusted_ns.pitch_bends,\n', '      adjusted_ns.control_changes,\n', rule='UNIFORM/adjust'),
    Mutant('adjust: note start keeps old time', F, '    adjusted_note.start_time = start_time\n', '    adjusted_note.start_time = note.start_time\n', rule='UNIFORM/adjust'),
    Mutant('adjust: skip notes that got shorter', F, '    if start_time == end_time:\n      if minimum_duration:', '    if end_time - start_time <= note.end_time - note.start_time and start_time == end_time or end_time < 0.01:\n      if minimum_duration:', rule='ADJUST/skip'),
    Mutant('adjust: negative event time accepted', F, "    if time < 0:\n      raise InvalidTimeAdjustmentError(\n          'Tried to adjust event time to before 0 '\n          '(original: %f, adjusted: %f)' % (event.time, time))\n", '', rule='ADJUST/'),
    Mutant('concat: offset is the current piece length', F, '      cat_seq.MergeFrom(shift_sequence_times(sequence, current_total_time))', '      cat_seq.MergeFrom(shift_sequence_times(sequence, sequence.total_time))', rule='CONCAT/'),
    Mutant('concat: running sum overwritten', F, '      current_total_time += sequence_durations[i]', '      current_total_time = sequence_durations[i]', rule='CONCAT/running-sum'),
    Mutant('concat: first piece skipped', F, '    else:\n      cat_seq.MergeFrom(sequence)\n\n    if sequence_durations:', '    else:\n      pass\n\n    if sequence_durations:', rule='CONCAT/merge-every-piece'),
    Mutant('redundant: compares without equalising time', F, '      tmp_ts.time = events[i - 1].time\n', '', rule='CONCAT/cmp-equalise'),
    Mutant('redundant: equalises qpm as well', F, '      tmp_ts.time = events[i - 1].time\n', "      tmp_ts.time = events[i - 1].time\n      if hasattr(tmp_ts, 'qpm'):\n        tmp_ts.qpm = events[i - 1].qpm\n", rule='CONCAT/cmp-equalise'),
    Mutant('redundant: not sorted by time', F, '    events.sort(key=lambda e: e.time)\n    for i in range(len(events) - 1, 0, -1):', '    for i in range(len(events) - 1, 0, -1):', rule='CONCAT/cmp-sorted'),
    Mutant('redundant: ascending index loop', F, 'for i in range(len(events) - 1, 0, -1):', 'for i in range(1, len(events)):', rule='CONCAT/cmp-descending'),
    Mutant('repeat: floor instead of ceil', F, 'num_repeats = int(math.ceil(duration / sequence_duration))', 'num_repeats = int(duration / sequence_duration)', rule='REPEAT/ceil'),
    Mutant('repeat: cut at the sequence duration', F, 'trimmed = extract_subsequence(repeated_ns, start_time=0, end_time=duration)', 'trimmed = extract_subsequence(repeated_ns, start_time=0, end_time=sequence_duration)', rule='REPEAT/cut'),
    # equivalent
    Mutant('shift: containers looped one by one', F, '  for event in itertools.chain(*events_to_shift):\n    event.time += shift_seconds',
           '  for container in events_to_shift:\n    for event in container:\n      event.time += shift_seconds', expect='silent'),
    Mutant('stretch: chain built from a list', F, '  events = itertools.chain(\n      stretched_sequence.time_signatures,', '  events = itertools.chain(\n      list(stretched_sequence.time_signatures),', expect='silent'),
    Mutant('shift: notes shifted after events', F, '  shifted.total_time += shift_seconds\n\n  return shifted', '  shifted.total_time += shift_seconds\n  if False:\n    pass\n\n  return shifted', expect='silent'),
]

RENAME_FUNCS = [(F, n) for n in ('shift_sequence_times', 'stretch_note_sequence', 'adjust_notesequence_times', 'rectify_beats',
                                 'concatenate_sequences', 'remove_redundant_data', 'repeat_sequence_to_duration')]

EXPLANATION += (' Location-independent additions: RECTIFY/knots-strictly-increasing (sorted/unique typestate of the interpolation knots), UNIFORM/fields-named (every time-bearing container of the schema is named), REPEAT/through-concatenate (must-pass-through), ADJUST/skip definite on approximate equality.')
EXPLANATION += (' Round 6: ' + 'UNIFORM/once/<function>: each time-bearing field receives the operation at exactly one site that runs (two sites in different arms of one test count as one).')
EXPLANATION += (' Round 7: ' + "ADJUST/reversed-rejected, ADJUST/no-negative-event-stored, CONCAT/no-zero-shift (scenarios; guards read at expression level); UNIFORM accepts the update computed from the argument's twin field.")
EXPLANATION += (' Rounds 9-10: ' + 'STRETCH/unscaled-exit-only-for-factor-one (must-pass-through of the total_time scaling); REPEAT/carry-after-break shared from C02.')
EXPLANATION += (' Round 11: ' + 'REPEAT/cut-takes-every-event; CONCAT/redundant-is-restating-the-predecessor.')
EXPLANATION += (' Round 12: ' + 'ADJUST/map-applied-whatever-the-time; UNIFORM reads a nested one-return scaling helper.')
EXPLANATION += (' Round 14: ' + 'UNIFORM/whatever-the-value (a shift guarded by a test of the field it moves).')
