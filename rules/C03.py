"""C03 - writing a NoteSequence to MIDI and reading it back preserves the music (DESIGN.md §4 C03)."""
import ast

from sa import ordr, pmfacts, nf, fold, roles, grouping, astutil as U
from sa.roles import Canon
from sa.loader import norm_text, dotted
from sa.selftest import Mutant

PROPERTY = 'C03'
F = 'note_seq/midi_io.py'
LEVEL_TEXT = (
    'Structural necessary conditions of the MIDI write/read round trip, decided for all inputs: notes, pitch bends and control '
    'changes are grouped by the same (instrument, program, is_drum) triple in the writer and re-labelled from one enumerated '
    'instrument in the reader (tuple layout agreement); every group gets its own pretty_midi.Instrument (no lost update in the '
    'group loop); every traversal of the input in the writer is order-insensitive or time-sorted (iteration-order analysis, so the '
    'tempo map does not depend on storage order); the attribute passed in each constructor position corresponds to that '
    'parameter\'s name in the installed pretty_midi source, and the reader copies each back into the same schema field '
    '(writer/reader field coverage); the major/minor offset, modulus and divisor are one constant (12); the tick scale is '
    '60/(resolution*qpm) and the initial tempo is the one at time 0 or the default. Tick rounding and pretty_midi\'s own encoding '
    'are not decided.')
LEVEL_NOTE = 'Trusted: pretty_midi encodes/decodes what it is given (constructor signatures are re-read from the installed source); PrettyMIDI.write sorts track events.'
TECHNIQUE = 'static analysis: key-tuple and tuple-layout agreement between sibling loops, lost-update (freshness) check on the group loop, iteration-order analysis, constructor/field correspondence against the parsed third-party source, folded-constant agreement'
DESIGN_REF = 'DESIGN.md section 4 (C03)'
EXPLANATION = ('GROUP key agreement (3 writer loops + group loop), FRESH instrument per group, ORD over the writer, CTOR argument/parameter '
               'correspondence from the installed pretty_midi, FIELDS writer-read vs reader-written schema fields per event kind, LAYOUT of the '
               'reader tuples, MINOR offset/modulus/divisor agreement, TEMPO initial tempo and tick-scale formula.')
EXPLANATION += (' ' + 'GROUP/key-fields: on either path that chooses the Instrument object of a group (new instrument / reused placeholder) the object receives both program and is_drum of the group key, through the constructor positions read from the installed pretty_midi or through attribute stores.')
TRUSTED = ['pretty_midi writes and parses faithfully what its containers hold', 'PrettyMIDI.write sorts events']
NOT_DECIDED = ['times within one MIDI tick', 'pretty_midi internal encoding']
ASSUMPTIONS = []
# rules whose verdict does not depend on how the statements are arranged (semantic analyses); all other rules are shape rules:
# when one of those fails in a function that was restructured relative to reference/signatures.json the verdict is "cannot decide"
ROBUST = ('ORD/traversal', 'FILE', 'CTOR')
FLOORS = {'GROUP': 6, 'FRESH': 1, 'ORD': 8, 'CTOR': 6, 'FIELDS': 6, 'LAYOUT': 3, 'MINOR': 4, 'TEMPO': 4}

TRIPLE = ('instrument', 'program', 'is_drum')
# pretty_midi parameter name -> NoteSequence field that must be passed / read back
CORR = {
    'Note': {'velocity': 'velocity', 'pitch': 'pitch', 'start': 'start_time', 'end': 'end_time'},
    'PitchBend': {'pitch': 'bend', 'time': 'time'},
    'ControlChange': {'number': 'control_number', 'value': 'control_value', 'time': 'time'},
    'TimeSignature': {'numerator': 'numerator', 'denominator': 'denominator', 'time': 'time'},
    'KeySignature': {'key_number': None, 'time': 'time'},
}
KIND_FIELD = {'notes': 'notes', 'pitch_bends': 'pitch_bends', 'control_changes': 'control_changes'}


# the reader's limit on the length of a file, in ticks, as note_seq sets it when the module is imported.  The writer has no limit, so
# every sequence longer than this is written and then refused on reading; lowering the value takes pieces out of the round trip
# (pretty_midi's own default, 1e7 ticks, is under three hours at 480 ticks per quarter and 120 qpm).
PINNED_MAX_TICK = 1e10


def reader_tick_limit(ctx, rule='LIMIT/reader-max-tick'):
  mi = ctx.P.module('midi_io')
  sts = [s_ for s_ in mi.tree.body if isinstance(s_, ast.Assign) and len(s_.targets) == 1 and norm_text(s_.targets[0]).endswith('.MAX_TICK')]
  cons = 'midi_io raises pretty_midi\'s MAX_TICK to at least %g' % PINNED_MAX_TICK
  if not sts:
    ctx.ob(rule, mi, mi.tree, False, 'midi_io no longer raises pretty_midi\'s MAX_TICK: the reader then refuses files longer than pretty_midi\'s default of 1e7 ticks, which the writer produces without complaint',
           construct=cons, definite=True)
    return
  for s_ in sts:
    v_ = U.const_value(s_.value)
    if v_ is None:
      why_ = 'cannot classify: MAX_TICK is set to %s, which is not a constant' % norm_text(s_.value)
      ctx.ob(rule, mi, s_, False, why_, construct=cons, unknown=why_)
    else:
      ok = v_ >= PINNED_MAX_TICK
      ctx.ob(rule, mi, s_, ok, 'MAX_TICK = %g' % v_ if ok else
             'the reader\'s length limit is lowered to %g ticks (it was %g): a sequence between the two lengths is still written, and reading it back raises MIDIConversionError - '
             'at 480 ticks per quarter and 120 qpm %g ticks are %.1f hours' % (v_, PINNED_MAX_TICK, v_, v_ / 960.0 / 3600.0), construct=cons, definite=True)


def cutoff_counts_from_the_last_note(ctx, rule='DROP/cut-off-from-the-last-note'):
  """Location-independent: `drop_events_n_seconds_after_last_note` counts from the end of the last *note*.  The writer accepts any
  NoteSequence - `total_time` is a field the caller may have left at 0 or stale - so a cut-off computed from `total_time` drops
  tempo, key, meter, bend and control events that lie well before the last note.  Every assignment of the writer whose value depends on
  that parameter is read through the locals: it must not read a `total_time`."""
  fi = ctx.func('midi_io:note_sequence_to_pretty_midi')
  fn = fi.node
  par = 'drop_events_n_seconds_after_last_note'
  cons = 'the cut-off for late events is counted from note ends, not from total_time'
  if par not in [a.arg for a in fn.args.args + fn.args.kwonlyargs]:
    why = 'cannot classify: no parameter %s' % par
    ctx.ob(rule, fi, fn, False, why, construct=cons, unknown=why)
    return
  n = 0
  for st in ast.walk(fn):
    if isinstance(st, ast.Assign) and len(st.targets) == 1 and isinstance(st.targets[0], ast.Name) and any(isinstance(x, ast.Name) and x.id == par for x in ast.walk(st.value)):
      n += 1
      vx = U.expand_locals(fn, st.value, at=st)
      bad = [a for a in ast.walk(vx) if isinstance(a, ast.Attribute) and a.attr == 'total_time']
      ctx.ob(rule, fi, st, not bad, '`%s` does not read total_time' % norm_text(st)[:60] if not bad else
             '`%s` counts the %s seconds from `%s`: for a sequence whose total_time is unset or stale (any hand-built one) the cut-off lies before the last note, and tempo, time-signature, key, '
             'bend and control events up to the end of the music are dropped from the file' % (norm_text(st)[:70], par, norm_text(bad[0])), construct=cons, definite=True)
  if n == 0:
    why = 'cannot classify: no assignment of the writer reads %s' % par
    ctx.ob(rule, fi, fn, False, why, construct=cons, unknown=why)


def run(ctx):
  cutoff_counts_from_the_last_note(ctx)
  reader_tick_limit(ctx)
  from sa import pitfalls as _pf
  _pf.apply(ctx, 'PITFALL', [fi_ for q_, fi_ in sorted(ctx.P.module('midi_io').functions.items())], ['stale-loop-variable'], {
      'stale-loop-variable': 'the events built that way all carry the instrument number, program and drum flag of the last instrument: control changes move to another instrument'})
  pm = pmfacts.PMFacts()
  w0 = ctx.func('midi_io:note_sequence_to_pretty_midi')
  w = Canon(w0, roles.discover(w0, {
      'pm': lambda fn: roles.assigned_where(fn, lambda v, st: isinstance(v, ast.Call) and dotted(v.func) == 'pretty_midi.PrettyMIDI'),
      'ticks_per_quarter': lambda fn: [k.value.id for c in U.calls_in(fn) if dotted(c.func) == 'pretty_midi.PrettyMIDI' for k in c.keywords
                                       if k.arg == 'resolution' and isinstance(k.value, ast.Name)],
      'tick_scale': lambda fn: roles.assigned_where(fn, lambda v, st: isinstance(v, ast.BinOp) and isinstance(v.op, ast.Div) and U.const_value(v.left) == 60),
  }, required=False))
  r = ctx.func('midi_io:midi_to_note_sequence')
  ok = pm.write_sorts_events()
  ctx.ob('ORD/pm-write-sorts', w, 'PrettyMIDI.write', ok, 'installed PrettyMIDI.write sorts events (bag accumulation into pm lists is order-insensitive)' if ok else
         'installed PrettyMIDI.write does not sort: accumulation order would reach the file', construct='PrettyMIDI.write sorts')
  from sa import pitfalls
  pitfalls.apply(ctx, 'PITFALL', [fi_ for q_, fi_ in sorted(ctx.P.module('midi_io').functions.items())], ['wrapper-default'], {
      'wrapper-default': 'the file route no longer writes what the conversion produces: events the in-memory conversion keeps (a pedal release, a tempo or key change after the last note) are dropped from the file'})
  pitfalls.apply(ctx, 'PITFALL', [w0, r], ['stale-sibling'], {
      'stale-sibling': 'every interval after the first is measured with the first element\'s scale: tempo changes after the second are placed at the wrong time'})
  tempo_ticks(ctx, w0, 'TEMPO/tick-from-table')
  reader_keeps_events(ctx, r, 'FIELDS/reader-keeps-every-event')
  grouping.check(ctx, w0, 'GROUP/sort-refines-group-key')
  grouping.check(ctx, r, 'GROUP/sort-refines-group-key')
  order(ctx, w0)       # the generic order analysis first: it needs no anchor, so a reshaped accumulation is still judged
  file_writer(ctx)
  groups(ctx, w, pm)
  fresh(ctx, w)
  ctors(ctx, w, pm)
  fields(ctx, w, r)
  layout(ctx, r)
  minor(ctx, w, r)
  tempo(ctx, w)


def file_writer(ctx):
  """note_sequence_to_midi_file writes exactly the object built by note_sequence_to_pretty_midi: nothing
  reachable from that object is stored into between the conversion and the write (no clamping, filtering, re-timing)."""
  fi = ctx.func('midi_io:note_sequence_to_midi_file')
  conv = [st for st in U.walk_stmts(fi.node) if isinstance(st, ast.Assign) and isinstance(st.value, ast.Call) and dotted(st.value.func) == 'note_sequence_to_pretty_midi' and
          isinstance(st.targets[0], ast.Name)]
  ctx.require(len(conv) == 1, 'note_sequence_to_midi_file: the conversion call was not found')
  pmname = conv[0].targets[0].id
  derived = {pmname}
  for _ in range(4):
    for st in U.walk_stmts(fi.node):
      if isinstance(st, ast.For) and any(isinstance(n, ast.Name) and n.id in derived for n in ast.walk(st.iter)):
        derived |= set(n.id for n in ast.walk(st.target) if isinstance(n, ast.Name))
      if isinstance(st, ast.Assign) and isinstance(st.targets[0], ast.Name) and any(isinstance(n, ast.Name) and n.id in derived for n in ast.walk(st.value)) and st is not conv[0]:
        derived.add(st.targets[0].id)
  bad = []
  for st in U.walk_stmts(fi.node):
    for tgt, _v, _o in U.store_targets(st):
      if isinstance(tgt, (ast.Attribute, ast.Subscript)):
        b = tgt
        while isinstance(b, (ast.Attribute, ast.Subscript)):
          b = b.value
        if isinstance(b, ast.Name) and b.id in derived:
          bad.append(st)
    if isinstance(st, ast.Delete) and any(isinstance(n, ast.Name) and n.id in derived for t in st.targets for n in ast.walk(t)):
      bad.append(st)
  writes = [c for c in U.calls_in(fi.node) if isinstance(c.func, ast.Attribute) and c.func.attr == 'write' and norm_text(c.func.value) == pmname]
  ok = not bad and len(writes) == 1
  ctx.ob('FILE/writes-converted-object', fi, bad[0] if bad else (writes[0] if writes else fi.node), ok,
         'the file variant writes the converted PrettyMIDI object unmodified' if ok else
         ('the file variant changes the converted object before writing it (%s): the file differs from the in-memory conversion' % norm_text(bad[0])[:90] if bad else
          'the converted object is not written exactly once'), construct='note_sequence_to_midi_file: write(convert(sequence))')


def _acc_loops(w):
  """(loop, call) for loops `for x in sequence.<field>: D[key][kind].append(ctor(...))`."""
  out = []
  for n in w.node.body:
    if isinstance(n, ast.For) and isinstance(n.iter, ast.Attribute) and n.iter.attr in ('notes', 'pitch_bends', 'control_changes'):
      for c in U.calls_in(n):
        if isinstance(c.func, ast.Attribute) and c.func.attr == 'append' and isinstance(c.func.value, ast.Subscript) and \
            isinstance(c.func.value.value, ast.Subscript):
          out.append((n, c))
  return out


def groups(ctx, w, pm):
  acc = _acc_loops(w)
  ctx.require(len(acc) == 3, 'note_sequence_to_pretty_midi: expected three accumulation loops, found %d' % len(acc))
  kinds = {}
  dname = None
  for loop, c in acc:
    v = loop.target.id
    key = c.func.value.value.slice
    kind = c.func.value.slice
    dname = norm_text(c.func.value.value.value)
    ok = isinstance(key, ast.Tuple) and [norm_text(e) for e in key.elts] == ['%s.%s' % (v, a) for a in TRIPLE]
    ctx.ob('GROUP/key', w, c, ok, '%s are grouped by (instrument, program, is_drum)' % loop.iter.attr if ok else
           '%s are grouped by %s, not by (instrument, program, is_drum) of the event' % (loop.iter.attr, norm_text(key)), construct='group key of %s' % loop.iter.attr)
    kinds[loop.iter.attr] = kind.value if isinstance(kind, ast.Constant) else None
  ok = len(set(kinds.values())) == 3 and None not in kinds.values()
  ctx.ob('GROUP/kinds-distinct', w, w.node, ok, 'the three event kinds accumulate under distinct keys %s' % kinds if ok else
         'event kinds share an accumulation slot: %s' % kinds, construct='distinct kind slots')
  gl = next((n for n in w.node.body if isinstance(n, ast.For) and isinstance(n.iter, ast.Call) and dotted(n.iter.func) == 'sorted' and dname in norm_text(n.iter)), None)
  ctx.require(gl is not None, 'note_sequence_to_pretty_midi: group loop not found')
  ok = isinstance(gl.target, ast.Tuple) and len(gl.target.elts) == 3
  names = [e.id for e in gl.target.elts] if ok else []
  ctx.ob('GROUP/unpack', w, gl, ok, 'the group loop unpacks the triple' if ok else 'the group loop does not unpack (instrument, program, is_drum)')
  if not ok:
    return
  # reads: instrument.<list> = D[(a, b, c)][kind]
  for st in U.walk_stmts(gl):
    if isinstance(st, ast.Assign) and isinstance(st.targets[0], ast.Attribute) and st.targets[0].attr in KIND_FIELD and isinstance(st.value, ast.Subscript):
      attr = st.targets[0].attr
      k = st.value.value.slice if isinstance(st.value.value, ast.Subscript) else None
      kind = st.value.slice
      ok = isinstance(k, ast.Tuple) and [norm_text(e) for e in k.elts] == names and isinstance(kind, ast.Constant) and kind.value == kinds.get(attr)
      ctx.ob('GROUP/read-back', w, st, ok, 'the instrument receives the %s of its own group' % attr if ok else
             '%s is filled from %s: not the %s accumulated for this (instrument, program, is_drum)' % (attr, norm_text(st.value), attr))
  # Instrument(program, is_drum, name)
  ic = [c for c in U.calls_in(gl) if dotted(c.func) == 'pretty_midi.Instrument']
  want = pm.ctor['Instrument']
  for c in ic:
    got = [norm_text(a) for a in c.args]
    ok = want[:2] == ['program', 'is_drum'] and got[:2] == [names[1], names[2]]
    ctx.ob('CTOR/Instrument', w, c, ok, 'Instrument(program=%s, is_drum=%s, ...)' % (names[1], names[2]) if ok else
           'Instrument(%s) does not pass (program, is_drum) of the group in the positions of pretty_midi.Instrument%s' % (', '.join(got), tuple(want)))
  st = [s for s in gl.body if isinstance(s, ast.Assign) and norm_text(s.targets[0]).endswith('.program')]
  ok = len(st) == 1 and norm_text(st[0].value) == names[1]
  ctx.ob('GROUP/program', w, st[0] if st else gl, ok, 'the instrument carries the program of its group' if ok else 'the instrument program is not the program of its group')
  # path-wise: whichever way the instrument object is chosen, it carries the program and the drum flag of its group
  def given(block):
    out = {}
    for s in block:
      if isinstance(s, ast.Assign) and len(s.targets) == 1:
        t = s.targets[0]
        if isinstance(t, ast.Attribute) and isinstance(t.value, ast.Name) and t.attr in ('program', 'is_drum'):
          out[t.attr] = norm_text(s.value)
        if isinstance(s.value, ast.Call) and dotted(s.value.func) == 'pretty_midi.Instrument':
          for pname, a_ in zip(want, s.value.args):
            if pname in ('program', 'is_drum'):
              out[pname] = norm_text(a_)
          for k in s.value.keywords:
            if k.arg in ('program', 'is_drum'):
              out[k.arg] = norm_text(k.value)
    return out
  head = gl.body[0] if gl.body and isinstance(gl.body[0], ast.If) else None
  common = given(gl.body)
  branches = [('new-instrument branch', head.body), ('reuse branch', head.orelse)] if head is not None else [('loop body', [])]
  for label, blk in branches:
    got = dict(given(blk))
    got.update(common)
    ok = got.get('program') == names[1] and got.get('is_drum') == names[2]
    ctx.ob('GROUP/key-fields', w, blk[0] if blk else gl, ok, 'on the %s the instrument gets program=%s and is_drum=%s of its group' % (label, names[1], names[2]) if ok else
           'on the %s the instrument does not receive both the program and the drum flag of its group (gets %s): the group is written with the placeholder\'s values' % (label, got),
           construct='%s: program and is_drum from the group key' % label, definite=head is not None)


def fresh(ctx, w):
  """No lost update: the object filled in the group loop is a different object in every iteration."""
  acc = _acc_loops(w)
  dname = norm_text(acc[0][1].func.value.value.value)
  gl = next((n for n in w.node.body if isinstance(n, ast.For) and isinstance(n.iter, ast.Call) and dotted(n.iter.func) == 'sorted' and dname in norm_text(n.iter)), None)
  targets = set()
  for st in U.walk_stmts(gl):
    if isinstance(st, ast.Assign) and isinstance(st.targets[0], ast.Attribute) and st.targets[0].attr in KIND_FIELD and isinstance(st.targets[0].value, ast.Name):
      targets.add(st.targets[0].value.id)
  ctx.require(len(targets) == 1, 'note_sequence_to_pretty_midi: the instrument variable of the group loop was not identified')
  inst = targets.pop()
  head = gl.body[0]
  if not isinstance(head, ast.If):
    # the choice may be preceded by the unpacking of the group key
    head = next((s_ for s_ in gl.body if isinstance(s_, ast.If) and any(isinstance(c_, ast.Call) and dotted(c_.func) == 'pretty_midi.Instrument' for c_ in ast.walk(s_))), head)
  ok = False
  located = False
  why = 'the group loop does not start by choosing the instrument object'
  if isinstance(head, ast.If):
    def creates(block):
      return any(isinstance(s, ast.Assign) and norm_text(s.targets[0]) == inst and isinstance(s.value, ast.Call) and dotted(s.value.func) == 'pretty_midi.Instrument' for s in block)
    a, b = head.body, head.orelse
    if creates(a) and creates(b):
      ok = True
    elif creates(a) and b:
      # reuse branch: must be usable at most once (a flag tested in the condition, set in the branch, False before the loop)
      flags = [n.id for n in ast.walk(head.test) if isinstance(n, ast.Name)]
      once = [f for f in flags if any(isinstance(s, ast.Assign) and norm_text(s.targets[0]) == f and isinstance(s.value, ast.Constant) and s.value.value is True for s in b)]
      init = [f for f in once if any(isinstance(s, ast.Assign) and norm_text(s.targets[0]) == f and isinstance(s.value, ast.Constant) and s.value.value is False and s.lineno < gl.lineno
                                     for s in w.node.body)]
      in_or = isinstance(head.test, ast.BoolOp) and isinstance(head.test.op, ast.Or) and any(isinstance(v, ast.Name) and v.id in init for v in head.test.values)
      ok = bool(init) and in_or
      why = 'the branch that reuses the pre-created instrument can be taken by more than one group: later groups overwrite the notes, bends and controls of earlier ones'
      if not ok:
        # located whatever the arrangement: taking the reuse branch changes nothing that its own condition reads (no flag set, nothing
        # appended to a list whose length is tested) - the next group with the same instrument number takes it again
        read = set(norm_text(n_) for n_ in ast.walk(head.test) if isinstance(n_, (ast.Name, ast.Attribute)))
        wrote = set(norm_text(t_) for s_ in b for st_ in U.walk_stmts(ast.Module(body=[s_], type_ignores=[])) for t_, _v, _o in U.store_targets(st_)) - {inst}
        grown = set(norm_text(c_.func.value) for s_ in b for c_ in ast.walk(s_) if isinstance(c_, ast.Call) and isinstance(c_.func, ast.Attribute) and c_.func.attr in ('append', 'add', 'extend', 'insert'))
        if not ((wrote | grown) & read):
          located = True
          why = ('the branch that reuses the pre-created instrument changes nothing that its condition `%s` reads (no flag is set, nothing is appended): a second group on the same instrument '
                 'number - another program, or the drum flag - takes it again and overwrites the notes, bends and controls of the first' % norm_text(head.test))
    elif creates(a) and not b:
      why = 'groups for which the condition is false all reuse one pre-existing instrument'
  elif any(isinstance(s, ast.Assign) and norm_text(s.targets[0]) == inst and isinstance(s.value, ast.Call) and dotted(s.value.func) == 'pretty_midi.Instrument' for s in gl.body):
    ok = True
  ctx.ob('FRESH/instrument-per-group', w, head, ok, 'every group fills its own Instrument (the placeholder is reused at most once)' if ok else why,
         construct='one pretty_midi.Instrument per (instrument, program, is_drum) group', definite=located)
  app = [c for c in U.calls_in(gl) if norm_text(c.func) == 'pm.instruments.append']
  ok2 = len(app) >= 1
  ctx.ob('FRESH/appended', w, app[0] if app else gl, ok2, 'new instruments are added to the file' if ok2 else 'new instruments are never added to pm.instruments')


def order(ctx, w):
  o = ordr.FuncORD(w, ['sequence'])
  sites = o.run()
  ordr.instrument_order(ctx, w, o, 'ORD/instrument-order', pmfacts.PMFacts().write_keeps_instrument_order())
  for s in sites:
    if s.kind == 'sorted-traversal':
      ctx.ob('ORD/sorted-traversal', w, s.stmt, True, 'iterates %s' % s.prov.detail, construct=s.what)
      continue
    ok = not s.reasons
    ctx.ob('ORD/' + s.kind, w, s.stmt if s.kind == 'traversal' else s.node, ok,
           'order-insensitive' if ok else '; '.join(s.reasons) + ' [storage order of %s]' % s.prov.detail, construct=s.what, unknown=ordr.undecided_reason(s))


def ctors(ctx, w, pm):
  for cls, corr in CORR.items():
    calls = [c for c in U.calls_in(w.node) if (dotted(c.func) or '').split('.')[-1] == cls and (dotted(c.func) or '').startswith('pretty_midi')]
    ctx.require(len(calls) == 1, 'note_sequence_to_pretty_midi: expected one pretty_midi %s construction, found %d' % (cls, len(calls)))
    c = calls[0]
    params = pm.ctor[cls]
    bad = []
    for i, a in enumerate(c.args):
      if i >= len(params):
        bad.append('extra positional argument %s' % norm_text(a))
        continue
      want = corr.get(params[i], '?')
      if want is None:
        continue
      a = U.expand_locals(w.node, a, at=c)      # a field read once into a local is still that field
      if not (isinstance(a, ast.Attribute) and a.attr == want):
        bad.append('parameter %s receives %s (expected the event\'s %s)' % (params[i], norm_text(a), want))
    for k in c.keywords:
      want = corr.get(k.arg, '?')
      kv = U.expand_locals(w.node, k.value, at=c)
      if want is not None and not (isinstance(kv, ast.Attribute) and kv.attr == want):
        bad.append('parameter %s receives %s (expected the event\'s %s)' % (k.arg, norm_text(k.value), want))
    if len(c.args) + len(c.keywords) != len(params):
      bad.append('%d arguments for parameters %s' % (len(c.args) + len(c.keywords), params))
    ctx.ob('CTOR/' + cls, w, c, not bad, 'arguments match pretty_midi.%s(%s)' % (cls, ', '.join(params)) if not bad else
           'pretty_midi.%s(%s): %s' % (cls, ', '.join(params), '; '.join(bad)))


def _reader_writes_anywhere(r, container):
  """(fields, complete?) stored on the elements the reader adds to sequence.<container>, wherever the add is: either
  `e = <seq>.<container>.add()` followed by attribute stores on e (also inside helpers the element is not passed to), or keyword
  arguments of `<seq>.<container>.add(field=...)`.  complete? is False when an element escapes (is passed to a call / stored),
  when `**kwargs` are used, or when no add was found."""
  out, complete, found = set(), True, False
  fns = [r.node] + [f.node for q, f in r.module.all_functions.items() if f.node is not r.node and
                    any(isinstance(c, ast.Call) and (dotted(c.func) or '').split('.')[-1] == q.split('.')[-1] for c in ast.walk(r.node))]
  for fn in fns:
    for c in ast.walk(fn):
      if not (isinstance(c, ast.Call) and isinstance(c.func, ast.Attribute) and c.func.attr == 'add' and norm_text(c.func.value).endswith('.' + container)):
        continue
      found = True
      for k in c.keywords:
        if k.arg is None:
          complete = False
        else:
          out.add(k.arg)
      par = U.parent(fn, c)
      if isinstance(par, ast.Assign) and len(par.targets) == 1 and isinstance(par.targets[0], ast.Name):
        v = par.targets[0].id
        for st in U.walk_stmts(fn):
          for tgt, _v, _o in U.store_targets(st):
            if isinstance(tgt, ast.Attribute) and isinstance(tgt.value, ast.Name) and tgt.value.id == v:
              out.add(tgt.attr)
        for c2 in ast.walk(fn):
          if isinstance(c2, ast.Call) and c2 is not c and any(isinstance(a, ast.Name) and a.id == v for a in list(c2.args) + [k.value for k in c2.keywords]):
            complete = False      # the element is handed on: fields may be set elsewhere
      elif not isinstance(par, ast.Expr):
        complete = False
  return out, complete and found


def _reader_writes(r, container):
  """Schema fields the reader stores on elements added to sequence.<container>."""
  out = set()
  for loop in r.node.body:
    if not isinstance(loop, ast.For):
      continue
    adds = [s for s in loop.body if isinstance(s, ast.Assign) and isinstance(s.value, ast.Call) and isinstance(s.value.func, ast.Attribute) and
            s.value.func.attr == 'add' and norm_text(s.value.func.value).endswith('.' + container)]
    if not adds:
      continue
    v = adds[0].targets[0].id
    for st in U.walk_stmts(loop):
      for tgt, _v, _o in U.store_targets(st):
        if isinstance(tgt, ast.Attribute) and isinstance(tgt.value, ast.Name) and tgt.value.id == v:
          out.add(tgt.attr)
  return out


def _writer_reads(w, container):
  out = set()
  for n in ast.walk(w.node):
    it = n.iter if isinstance(n, (ast.For, ast.comprehension)) else None
    if isinstance(it, ast.Call) and dotted(it.func) in ('sorted', 'list', 'reversed') and it.args:
      it = it.args[0]
    if isinstance(n, (ast.For, ast.comprehension)) and isinstance(it, ast.Attribute) and it.attr == container and isinstance(n.target, ast.Name):
      v = n.target.id
      scope = n if isinstance(n, ast.For) else U.parent(w.node, n)
      for a in ast.walk(scope):
        if isinstance(a, ast.Attribute) and isinstance(a.value, ast.Name) and a.value.id == v and not a.attr.isupper():
          out.add(a.attr)
  return out


def fields(ctx, w, r):
  want = {
      'notes': {'pitch', 'velocity', 'start_time', 'end_time', 'instrument', 'program', 'is_drum'},
      'pitch_bends': {'bend', 'time', 'instrument', 'program', 'is_drum'},
      'control_changes': {'control_number', 'control_value', 'time', 'instrument', 'program', 'is_drum'},
      'time_signatures': {'numerator', 'denominator', 'time'},
      'key_signatures': {'key', 'mode', 'time'},
      'tempos': {'qpm', 'time'},
  }
  for cont, fs in want.items():
    wr = _writer_reads(w, cont)
    rd = _reader_writes(r, cont)
    ok = fs <= wr and fs <= rd
    # location-independent: every add of this container in the reader (and the helpers it calls) is found, none of the elements
    # escapes, and a field the round trip needs is stored by none of them
    rd2, complete = _reader_writes_anywhere(r, cont)
    if complete and not fs <= rd2:
      ctx.ob('FIELDS/' + cont, r, r.node, False, 'the reader never stores %s on the %s it creates (it stores %s): after a round trip these fields have their default value, so e.g. a '
             'drum instrument\'s events are no longer grouped with its notes' % (sorted(fs - rd2), cont, sorted(rd2)), construct='%s: field coverage' % cont, definite=True)
      continue
    ctx.ob('FIELDS/' + cont, w, w.node, ok, 'writer reads and reader restores %s' % sorted(fs) if ok else
           '%s: the writer reads %s and the reader writes %s; the round trip needs %s on both sides (missing: writer %s, reader %s)' % (
               cont, sorted(wr), sorted(rd), sorted(fs), sorted(fs - wr), sorted(fs - rd)), construct='%s: field coverage' % cont, depends=[r])


def layout(ctx, r):
  """Reader: collected tuples and the loops that unpack them agree position by position."""
  fn = r.node
  coll = None
  for n in fn.body:
    if isinstance(n, ast.For) and isinstance(n.iter, ast.Call) and dotted(n.iter.func) == 'enumerate' and norm_text(n.iter.args[0]).endswith('.instruments'):
      coll = n
  ctx.require(coll is not None and isinstance(coll.target, ast.Tuple), 'midi_to_note_sequence: instrument enumeration not found')
  idx, inst = [e.id for e in coll.target.elts]
  prods = {}
  for c in U.calls_in(coll):
    if isinstance(c.func, ast.Attribute) and c.func.attr == 'append' and c.args and isinstance(c.args[0], ast.Tuple) and isinstance(c.func.value, ast.Name):
      prods[c.func.value.id] = c
  ctx.require(len(prods) == 3, 'midi_to_note_sequence: expected three collected tuple lists, found %d' % len(prods))
  for lst, c in prods.items():
    tup = c.args[0]
    roles = []
    for e in tup.elts:
      t = norm_text(e)
      if t == '%s.program' % inst:
        roles.append('program')
      elif t == idx:
        roles.append('instrument')
      elif t == '%s.is_drum' % inst:
        roles.append('is_drum')
      else:
        roles.append('event')
    cons = next((n for n in fn.body if isinstance(n, ast.For) and norm_text(n.iter) == lst), None)
    ok = cons is not None and isinstance(cons.target, ast.Tuple) and len(cons.target.elts) == len(roles)
    if ok:
      names = [e.id for e in cons.target.elts]
      stores = {}
      for st in U.walk_stmts(cons):
        for tgt, val, _o in U.store_targets(st):
          if isinstance(tgt, ast.Attribute) and isinstance(val, ast.Name):
            stores[tgt.attr] = val.id
          elif isinstance(tgt, ast.Attribute) and tgt.attr in TRIPLE and isinstance(val, ast.IfExp) and \
              (set(x.id for x in ast.walk(val.test) if isinstance(x, ast.Name)) & set(names)) and any(isinstance(b_, ast.Constant) for b_ in (val.body, val.orelse)):
            # located: one of the three labels replaced by a constant depending on another one (`program = 0 if is_drum else program`)
            ctx.ob('LAYOUT/label-whatever-the-others/' + lst, r, st, False, '`%s`: the %s of an event read from %s is replaced by a constant when `%s` - a note that was written with that label '
                   '(a drum kit selected by a program change on the percussion channel, say) comes back with another one, and no longer groups with the bends and control changes of its instrument' % (
                       norm_text(st)[:70], tgt.attr, lst, norm_text(val.test)[:30]), construct='%s: each label is stored whatever the other labels are' % lst, definite=True)
      for role in TRIPLE:
        pos = roles.index(role) if role in roles else None
        ok = ok and pos is not None and stores.get(role) == names[pos]
    ctx.ob('LAYOUT/' + lst, r, cons or c, ok, 'tuple layout %s is unpacked and stored position by position' % roles if ok else
           'the tuples collected as %s are not re-labelled position by position (instrument/program/is_drum would be swapped or lost)' % roles,
           construct='%s: (program, instrument, is_drum, event) layout' % lst)


def minor(ctx, w, r):
  fd = fold.Folder(ctx.P, ctx.S)
  off = fold.need(lambda: fd.module_const(w.module, '_PRETTY_MIDI_MAJOR_TO_MINOR_OFFSET'), '_PRETTY_MIDI_MAJOR_TO_MINOR_OFFSET')
  ctx.ob('MINOR/offset', w.module, w.module.assigns['_PRETTY_MIDI_MAJOR_TO_MINOR_OFFSET'][0], off == 12, 'the writer offset folds to 12' if off == 12 else
         'the minor-key offset folds to %r; pretty_midi numbers minor keys 12..23' % (off,), construct='_PRETTY_MIDI_MAJOR_TO_MINOR_OFFSET == 12')
  aug = [s for s in U.walk_stmts(w.node) if isinstance(s, ast.AugAssign) and isinstance(s.op, ast.Add) and norm_text(s.value) == '_PRETTY_MIDI_MAJOR_TO_MINOR_OFFSET']
  def minor_test(t):
    sides = U.eq_sides(t, lambda a: isinstance(a, ast.Attribute) and a.attr == 'mode', lambda b: isinstance(b, ast.Attribute) and b.attr == 'MINOR')
    return sides is not None and norm_text(sides[0].value) == norm_text(sides[1].value)
  ok = len(aug) == 1 and any(pol and minor_test(t) for (t, pol) in U.enclosing_tests(w.node, aug[0]))
  ctx.ob('MINOR/writer-guard', w, aug[0] if aug else w.node, ok, 'the offset is added exactly for MINOR keys' if ok else 'the minor offset is not added exactly under mode == MINOR')
  reader_boundary(ctx, r, fd, off)
  mods = [n for n in ast.walk(r.node) if isinstance(n, ast.BinOp) and isinstance(n.op, (ast.Mod, ast.FloorDiv)) and norm_text(n.left).endswith('.key_number')]
  vals = {type(n.op).__name__: U.const_value(n.right) for n in mods}
  ok = vals == {'Mod': off, 'FloorDiv': off}
  ctx.ob('MINOR/reader', r, mods[0] if mods else r.node, ok, 'the reader splits key_number with %% %s and // %s' % (off, off) if ok else
         'the reader splits key_number with %s, the writer offsets by %s' % (vals, off), construct='key_number % 12, key_number // 12')
  ok = False
  for st in U.walk_stmts(r.node):
    if isinstance(st, ast.If) and U.compare_nf(st.test) is not None and U.compare_nf(st.test)[1] == '==' and '0' in U.compare_nf(st.test):
      a = [norm_text(x) for x in st.body]
      b = st.orelse[0] if st.orelse and isinstance(st.orelse[0], ast.If) else None
      if any(x.endswith('.MAJOR') for x in a) and b is not None and '1' in (U.compare_nf(b.test) or ()) and any(norm_text(x).endswith('.MINOR') for x in b.body) and \
          b.orelse and any(isinstance(x, ast.Raise) for x in b.orelse):
        ok = True
  ctx.ob('MINOR/reader-modes', r, r.node, ok, 'mode 0 -> MAJOR, 1 -> MINOR, anything else rejected' if ok else 'the reader does not map 0 -> MAJOR, 1 -> MINOR and reject the rest')


def reader_boundary(ctx, r, fd, off):
  """Location-independent: on the path to `<ks>.mode = <ks>.MINOR` the reader tests the PrettyMIDI key number; whatever the
  arrangement, that test must put exactly the numbers >= 12 (the writer's offset) on the minor side."""
  for st in U.walk_stmts(r.node):
    if not (isinstance(st, ast.Assign) and len(st.targets) == 1 and isinstance(st.targets[0], ast.Attribute) and st.targets[0].attr == 'mode' and
            isinstance(st.value, ast.Attribute) and st.value.attr == 'MINOR'):
      continue
    for (t, pol) in U.path_conditions(r.node, st):
      x = U.expand_locals(r.node, t, r.module.assigns, at=st)
      if not (isinstance(x, ast.Compare) and len(x.ops) == 1):
        continue
      l, rr_ = x.left, x.comparators[0]
      op = type(x.ops[0])

      def is_key(n):
        return isinstance(n, ast.Attribute) and n.attr == 'key_number'

      def num(n):
        try:
          v = fd.expr(r.module, n, {})
        except Exception:
          return None
        return v if isinstance(v, int) and not isinstance(v, bool) else None
      verdict = None
      if isinstance(l, ast.BinOp) and isinstance(l.op, ast.FloorDiv) and is_key(l.left) and op is ast.Eq and pol:
        verdict = (num(l.right) == off and num(rr_) == 1, 'key_number // %s == %s' % (num(l.right), num(rr_)))
      elif op in (ast.Lt, ast.LtE) and is_key(rr_) and num(l) is not None:
        lo = num(l) + (1 if op is ast.Lt else 0)          # c < K  /  c <= K  holds from lo upwards
        if pol:
          verdict = (lo == off, 'key_number >= %d' % lo)
      elif op in (ast.Lt, ast.LtE) and is_key(l) and num(rr_) is not None and not pol:
        hi = num(rr_) - (1 if op is ast.Lt else 0)        # not (K < c) / not (K <= c) holds from hi + 1 upwards
        verdict = (hi + 1 == off, 'key_number >= %d' % (hi + 1))
      if verdict is not None:
        ok, how = verdict
        ctx.ob('MINOR/reader-boundary', r, t, ok, 'the reader reports MINOR exactly for key numbers from %d up (%s)' % (off, how) if ok else
               'the reader reports MINOR under %s, but pretty_midi numbers the minor keys from %d: key number %d is read back with the wrong mode' % (how, off, off),
               construct='minor side of the key-number test starts at %d' % off, definite=True)

def tempo_ticks(ctx, w0, rule):
  """Location-independent: a tempo change is stored in the file at a whole tick.  The tick of each change must be obtained from
  the tick <-> time table as it stands *with all earlier changes at their rounded ticks* (PrettyMIDI.time_to_tick after
  _update_tick_to_time).  Counting ticks from the previous change's *stored* time instead carries the rounding error of every
  change into all later ones.  The tick component of every tuple appended to _tick_scales is followed to its definition."""
  fn = w0.node
  n = 0
  for c in ast.walk(fn):
    if not (isinstance(c, ast.Call) and isinstance(c.func, ast.Attribute) and c.func.attr == 'append' and norm_text(c.func.value).endswith('._tick_scales') and c.args and
            isinstance(c.args[0], ast.Tuple) and len(c.args[0].elts) == 2):
      continue
    n += 1
    t = c.args[0].elts[0]
    d = U.reaching_def(fn, t.id, c) if isinstance(t, ast.Name) else t
    cons = 'the tick of a tempo change comes from the current tick/time table'
    loop = next((lp for lp in U.enclosing_loops(fn, c) if isinstance(lp, ast.For)), None)
    if isinstance(d, ast.Call) and isinstance(d.func, ast.Attribute) and d.func.attr == 'time_to_tick' and d.args and isinstance(d.args[0], ast.Attribute) and d.args[0].attr == 'time':
      upd = loop is not None and any(isinstance(x, ast.Call) and isinstance(x.func, ast.Attribute) and x.func.attr == '_update_tick_to_time' for s_ in loop.body for x in ast.walk(s_))
      ctx.ob(rule, w0, c, upd, 'tick = time_to_tick(tempo.time) and the table is rebuilt after every change' if upd else
             'the tick/time table is not rebuilt (_update_tick_to_time) inside the tempo loop: the next time -> tick conversion does not see this tempo change',
             construct=cons, definite=not upd and loop is not None)
      continue
    carried = []
    if d is not None and loop is not None and isinstance(loop.target, ast.Name):
      v = loop.target.id
      stores = {}
      for st in U.walk_stmts(loop):
        if isinstance(st, ast.Assign):
          for tg in st.targets:
            if isinstance(tg, ast.Name):
              stores.setdefault(tg.id, []).append(st.value)
            elif isinstance(tg, (ast.Tuple, ast.List)) and isinstance(st.value, (ast.Tuple, ast.List)) and len(tg.elts) == len(st.value.elts):
              for e_, val in zip(tg.elts, st.value.elts):
                if isinstance(e_, ast.Name):
                  stores.setdefault(e_.id, []).append(val)
      for nm in sorted(set(x.id for x in ast.walk(d) if isinstance(x, ast.Name))):
        if any(isinstance(val, ast.Attribute) and val.attr == 'time' and norm_text(val.value) == v for val in stores.get(nm, [])):
          carried.append(nm)
    if carried:
      ctx.ob(rule, w0, c, False, 'the tick %s is counted from %s, the *stored* time of the previous tempo change, but that change sits at its rounded tick: the rounding error of '
             'every change (up to half a tick) is carried into all later ones, so after a few off-grid changes a tempo is more than a tick away from its time' % (
                 norm_text(d)[:90], ', '.join(sorted(carried))), construct=cons, definite=True)
    else:
      why = 'cannot classify: the tick %s is not pm.time_to_tick(<tempo>.time)' % (norm_text(d)[:80] if d is not None else norm_text(t))
      ctx.ob(rule, w0, c, False, why, construct=cons, unknown=why)
  if n == 0:
    why = 'cannot classify: no append to _tick_scales found'
    ctx.ob(rule, w0, fn, False, why, construct='tempo changes are appended to _tick_scales', unknown=why)


def reader_keeps_events(ctx, r, rule):
  """Location-independent: every time signature and key signature of the file comes back.  A `continue` (or a filter) in the
  reader loops over midi.time_signature_changes / midi.key_signature_changes drops events; that is harmless only for exact
  repeats of the value in effect.  A skip decided on the *quotient* numerator / denominator treats 3/4 and 6/8 (2/2 and 4/4,
  6/4 and 12/8 ...) as the same meter and loses a real change - located; any other skip is "cannot classify"."""
  fn = r.node
  n = 0
  for lp in ast.walk(fn):
    if not (isinstance(lp, ast.For) and any(norm_text(lp.iter).endswith(x) for x in ('.time_signature_changes', '.key_signature_changes'))):
      continue
    n += 1
    cons = 'every %s event of the file is read back' % ('time signature' if 'time_signature' in norm_text(lp.iter) else 'key signature')
    skips = [st for st in U.walk_stmts(lp) if isinstance(st, ast.Continue)]
    if not skips and not (isinstance(lp.iter, ast.Call) or any(isinstance(x, (ast.ListComp, ast.GeneratorExp)) for x in ast.walk(lp.iter))):
      ctx.ob(rule, r, lp, True, 'no event of %s is skipped' % norm_text(lp.iter), construct=cons)
      continue
    for sk in skips:
      conds = [U.expand_locals(fn, t, at=sk) for t, _p in U.path_conditions(fn, sk, stop_at=lp)]
      # values carried from the previous iteration are compared with this iteration's: look through the carried names too
      texts = []
      for t in conds:
        for x in ast.walk(t):
          if isinstance(x, ast.Name):
            for st in U.walk_stmts(lp):
              if isinstance(st, ast.Assign) and len(st.targets) == 1 and isinstance(st.targets[0], ast.Name) and st.targets[0].id == x.id:
                texts.append(U.expand_locals(fn, st.value, at=st))
        texts.append(t)
      quotient = [x for t in texts for x in ast.walk(t) if isinstance(x, ast.BinOp) and isinstance(x.op, (ast.Div, ast.FloorDiv)) and
                  any(isinstance(y, ast.Attribute) and y.attr == 'numerator' for y in ast.walk(x.left)) and any(isinstance(y, ast.Attribute) and y.attr == 'denominator' for y in ast.walk(x.right))]
      if quotient:
        ctx.ob(rule, r, sk, False, 'a time signature is skipped when %s equals that of the one before: 3/4 and 6/8 (2/2 and 4/4, 6/4 and 12/8) have the same quotient, so a change between '
               'them is dropped on reading and the earlier signature stays in effect' % norm_text(quotient[0]), construct=cons, definite=True)
      else:
        why = 'cannot classify: events of %s are skipped when %s' % (norm_text(lp.iter), ' and '.join(norm_text(t) for t in conds)[:120])
        ctx.ob(rule, r, sk, False, why, construct=cons, unknown=why)
    if not skips:
      why = 'cannot classify: the reader iterates %s, a filtered view of the file\'s events' % norm_text(lp.iter)[:80]
      ctx.ob(rule, r, lp, False, why, construct=cons, unknown=why)
  if n < 2:
    why = 'cannot classify: the reader loops over the time and key signature changes were not both found'
    ctx.ob(rule, r, fn, False, why, construct='every signature event of the file is read back', unknown=why)


def tempo(ctx, w):
  fn = w.node
  ts = [s for s in U.walk_stmts(fn) if isinstance(s, ast.Assign) and norm_text(s.targets[0]) == 'tick_scale']
  ok = False
  if len(ts) == 1:
    try:
      ok = nf.rat(ts[0].value).equals(nf.rat(ast.parse('60 / (pm.resolution * q)', mode='eval').body, {'q': ts[0].value.right.right if isinstance(ts[0].value, ast.BinOp) and isinstance(ts[0].value.right, ast.BinOp) else ast.Name(id='q', ctx=ast.Load())}))
      ok = ok and norm_text(ts[0].value.right.right).endswith('.qpm')
    except (nf.NFError, AttributeError):
      ok = False
  ctx.ob('TEMPO/tick-scale', w, ts[0] if ts else fn, ok, 'tick scale = 60 / (resolution * qpm)' if ok else 'tick scale is not 60 / (resolution * qpm)')
  pmc = [c for c in U.calls_in(fn) if dotted(c.func) == 'pretty_midi.PrettyMIDI']
  ok = len(pmc) == 1 and any(k.arg == 'resolution' and norm_text(k.value) == 'ticks_per_quarter' for k in pmc[0].keywords)
  tq = [s for s in fn.body if isinstance(s, ast.Assign) and norm_text(s.targets[0]) == 'ticks_per_quarter']
  ok = ok and len(tq) == 1 and norm_text(tq[0].value) == 'sequence.ticks_per_quarter or constants.STANDARD_PPQ'
  ctx.ob('TEMPO/resolution', w, pmc[0] if pmc else fn, ok, 'the file resolution is the sequence\'s ticks_per_quarter (default STANDARD_PPQ)' if ok else
         'the PrettyMIDI resolution is not sequence.ticks_per_quarter or STANDARD_PPQ')
  init = [s for s in U.walk_stmts(fn) if isinstance(s, ast.Assign) and isinstance(s.targets[0], ast.Subscript) and norm_text(s.targets[0].slice) == "'initial_tempo'"]
  vals = sorted(norm_text(s.value) for s in init)
  ok = len(vals) == 2 and vals[0] == 'constants.DEFAULT_QUARTERS_PER_MINUTE' and vals[1].endswith('.qpm')
  ctx.ob('TEMPO/initial', w, init[0] if init else fn, ok, 'initial tempo is the tempo found at time 0, else the default' if ok else 'initial tempo is neither the tempo at time 0 nor the default: %s' % vals)
  find = [n for n in fn.body if isinstance(n, ast.For) and norm_text(n.iter).endswith('.tempos') and any(isinstance(x, ast.Break) for x in ast.walk(n))]
  ok = False
  if find:
    g = find[0].body[0]
    c = U.compare_nf(g.test) if isinstance(g, ast.If) else None
    ok = c is not None and c[1] == '==' and {c[0], c[2]} == {'time', '0'}
  ctx.ob('TEMPO/initial-search', w, find[0] if find else fn, ok, 'the initial tempo is the one with time == 0' if ok else 'the initial tempo is not selected by time == 0')
  skip = [s for n in fn.body if isinstance(n, ast.For) and 'tempos' in norm_text(n.iter) and not any(isinstance(x, ast.Break) for x in ast.walk(n))
          for s in n.body if isinstance(s, ast.If) and isinstance(s.body[-1], ast.Continue) and isinstance(s.test, ast.Compare) and isinstance(s.test.ops[0], ast.Eq)]
  ok = len(skip) >= 1
  ctx.ob('TEMPO/skip-initial', w, skip[0] if skip else fn, ok, 'the tempo given to the constructor is not added a second time' if ok else 'the initial tempo is added twice')


MUTANTS = [
    Mutant('seed C03_e: pitch bends clamped to +-8191 in the file writer only', F, "  pretty_midi_object.write(open(output_file, 'wb'))", "  for instrument in pretty_midi_object.instruments:\n    for bend in instrument.pitch_bends:\n      bend.pitch = max(-8191, min(8191, bend.pitch))\n  pretty_midi_object.write(open(output_file, 'wb'))", rule='FILE/writes-converted-object'),
    Mutant('file closed with a with-statement (harmless)', F, "  pretty_midi_object.write(open(output_file, 'wb'))", "  with open(output_file, 'wb') as f:\n    pretty_midi_object.write(f)", expect='silent'),
    Mutant('seed C03_d: notes grouped with itertools.groupby (only adjacent runs, later runs overwrite)', F,
           "  for seq_note in sequence.notes:\n    instrument_events[(seq_note.instrument, seq_note.program,\n                       seq_note.is_drum)]['notes'].append(\n                           pretty_midi.Note(\n                               seq_note.velocity, seq_note.pitch,\n                               seq_note.start_time, seq_note.end_time))\n",
           "  import itertools\n  for instrument_key, seq_notes in itertools.groupby(\n      sequence.notes, key=lambda n: (n.instrument, n.program, n.is_drum)):\n    instrument_events[instrument_key]['notes'] = [\n        pretty_midi.Note(seq_note.velocity, seq_note.pitch,\n                         seq_note.start_time, seq_note.end_time)\n        for seq_note in seq_notes]\n", rule='ORD/traversal'),
    Mutant('seed C03_b: the reused placeholder instrument keeps is_drum=False', F, "      placeholder_used = True\n      instrument.is_drum = is_drum\n", "      placeholder_used = True\n", rule='GROUP/key-fields'),
    Mutant('bends grouped without the drum flag', F, "    instrument_events[(seq_bend.instrument, seq_bend.program,\n                       seq_bend.is_drum)]['bends'].append(", "    instrument_events[(seq_bend.instrument, seq_bend.program,\n                       False)]['bends'].append(", rule='GROUP/key'),
    Mutant('controls accumulate under the bends slot', F, "seq_cc.is_drum)]['controls'].append(", "seq_cc.is_drum)]['bends'].append(", rule='GROUP/'),
    Mutant('placeholder reused by every instrument-0 group', F, '    if instr_id > 0 or placeholder_used:', '    if instr_id > 0:', rule='FRESH/'),
    Mutant('placeholder flag never set', F, '      placeholder_used = True\n', '', rule='FRESH/'),
    Mutant('tempos in storage order', F, 'for seq_tempo in sorted(sequence.tempos, key=lambda t: t.time):', 'for seq_tempo in sequence.tempos:', rule='ORD/'),
    Mutant('velocity and pitch swapped', F, '                               seq_note.velocity, seq_note.pitch,', '                               seq_note.pitch, seq_note.velocity,', rule='CTOR/Note'),
    Mutant('note end from start', F, '                               seq_note.start_time, seq_note.end_time))', '                               seq_note.start_time, seq_note.start_time))', rule='CTOR/Note'),
    Mutant('control value and number swapped', F, '                               seq_cc.control_number,\n                               seq_cc.control_value, seq_cc.time))', '                               seq_cc.control_value,\n                               seq_cc.control_number, seq_cc.time))', rule='CTOR/ControlChange'),
    Mutant('time signature denominator twice', F, '        seq_ts.numerator, seq_ts.denominator, seq_ts.time)', '        seq_ts.denominator, seq_ts.denominator, seq_ts.time)', rule='CTOR/TimeSignature'),
    Mutant('minor offset 10', F, '_PRETTY_MIDI_MAJOR_TO_MINOR_OFFSET = 12', '_PRETTY_MIDI_MAJOR_TO_MINOR_OFFSET = 10', rule='MINOR/'),
    Mutant('reader modulus 11', F, '    key_signature.key = midi_key.key_number % 12', '    key_signature.key = midi_key.key_number % 11', rule='MINOR/reader'),
    Mutant('reader drops the program of bends', F, '    pitch_bend.program = program\n', '', rule='FIELDS/pitch_bends'),
    Mutant('reader swaps program and instrument of controls', F, '    control_change.instrument = instrument\n    control_change.program = program\n', '    control_change.instrument = program\n    control_change.program = instrument\n', rule='LAYOUT/'),
    Mutant('reader collects notes with the wrong layout', F, '      midi_notes.append((midi_instrument.program, num_instrument,\n                         midi_instrument.is_drum, midi_note))', '      midi_notes.append((num_instrument, midi_instrument.program,\n                         midi_instrument.is_drum, midi_note))', rule='LAYOUT/'),
    Mutant('instrument filled from another group', F, "    instrument.notes = instrument_events[\n        (instr_id, prog_id, is_drum)]['notes']", "    instrument.notes = instrument_events[\n        (instr_id, 0, is_drum)]['notes']", rule='GROUP/read-back'),
    Mutant('tick scale without the resolution', F, '    tick_scale = 60.0 / (pm.resolution * seq_tempo.qpm)', '    tick_scale = 60.0 / seq_tempo.qpm', rule='TEMPO/tick-scale'),
    Mutant('initial tempo always the default', F, "    kwargs['initial_tempo'] = initial_seq_tempo.qpm", "    kwargs['initial_tempo'] = constants.DEFAULT_QUARTERS_PER_MINUTE", rule='TEMPO/initial'),
    Mutant('instrument created with the instrument number as program', F, '      instrument = pretty_midi.Instrument(prog_id, is_drum, name)', '      instrument = pretty_midi.Instrument(instr_id, is_drum, name)', rule='CTOR/Instrument'),
    # equivalent
    Mutant('tempos sorted with attrgetter', F, 'for seq_tempo in sorted(sequence.tempos, key=lambda t: t.time):', "for seq_tempo in sorted(sequence.tempos, key=operator.attrgetter('time')):", expect='silent'),
    Mutant('note built with keywords', F, '                           pretty_midi.Note(\n                               seq_note.velocity, seq_note.pitch,\n                               seq_note.start_time, seq_note.end_time))',
           '                           pretty_midi.Note(\n                               velocity=seq_note.velocity, pitch=seq_note.pitch,\n                               start=seq_note.start_time, end=seq_note.end_time))', expect='silent'),
    Mutant('every group gets a new instrument', F, '    if instr_id > 0 or placeholder_used:', '    if True or placeholder_used:', expect='silent'),
]

RENAME_FUNCS = [(F, 'note_sequence_to_pretty_midi'), (F, 'midi_to_note_sequence')]

EXPLANATION += (' Location-independent additions: GROUP/sort-refines-group-key (groupby key vs sort key), ORD/instrument-order (instruments appended in storage-derived order; PrettyMIDI.write keeps list order), FIELDS/<container> reader coverage through add(field=...) and helpers.')
EXPLANATION += (' Round 6: ' + "PITFALL/stale-sibling (two names unpacked from element 0 of the iterated sequence, one advanced in the loop, the other not); TEMPO/tick-from-table (the tick of a tempo change comes from time_to_tick on the rebuilt table, not from the previous change's stored time).")
EXPLANATION += (' Round 7: ' + "PITFALL/wrapper-default (a forwarded parameter keeps the callee's default); FIELDS/reader-keeps-every-event (no signature event is skipped on numerator / denominator).")
EXPLANATION += (' Rounds 9-10: ' + 'FRESH/instrument-per-group located when the reuse branch changes nothing its condition reads; LIMIT/reader-max-tick (the module-level MAX_TICK override folds to at least the pinned 1e10).')
EXPLANATION += (' Round 12: ' + 'PITFALL/stale-loop-variable over midi_io.')
EXPLANATION += (' Round 14: ' + 'LAYOUT/label-whatever-the-others; DROP/cut-off-from-the-last-note.')
