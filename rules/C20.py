"""C20 - audio sample helpers are lossless on 16-bit PCM and exact about lengths (DESIGN.md §4 C20; thin)."""
import ast

from sa import nf, cov, roles, astutil as U
from sa.roles import Canon
from sa.loader import norm_text, dotted
from sa.selftest import Mutant

PROPERTY = 'C20'
F = 'note_seq/audio_io.py'
LEVEL_TEXT = (
    'A deliberately thin structural claim: the two PCM conversions use one scale expression (np.iinfo(np.int16).max), one dividing and '
    'one multiplying, and guard their input dtype; the two crop implementations (samples and WAV data) compute the same bounds '
    'int(begin*rate) and int(begin*rate) + int(length*rate); repeat_samples_to_duration repeats ceil(duration / (len/rate)) times and '
    'crops from 0 for `duration`; make_stereo rejects mixed dtypes and allocates the longer length for two channels in left, right '
    'order; WAV writing goes through the int16 conversion. Losslessness over all 65 536 sample values depends on float32 rounding and a '
    'truncating astype and is NOT decided; neither is scipy\'s WAV encoding.')
LEVEL_NOTE = 'Trusted: numpy/scipy semantics. Most of the property (value-level losslessness) is outside static reach and is not claimed.'
TECHNIQUE = 'static analysis: sibling agreement of scale and crop-bound expressions in rational normal form, rounding-direction recognition, dtype-guard presence'
DESIGN_REF = 'DESIGN.md section 4 (C20)'
EXPLANATION = 'SCALE one constant both ways with dtype guards; CROP sibling bounds; REPEAT ceil count and crop; STEREO dtype guard and layout; WAV write path.'
EXPLANATION += (' ' + 'SCALE/operand-is-input: both PCM conversions scale their parameter as given (no rebinding other than np.asarray), so no clipping/rounding step can change one of the 65536 values.')
TRUSTED = ['numpy and scipy.io.wavfile semantics']
NOT_DECIDED = ['that int16 -> float32 -> int16 is the identity on all 65 536 values (float rounding + truncating astype)', 'scipy WAV encode/decode']
ASSUMPTIONS = []
# rules whose verdict does not depend on how the statements are arranged (dataflow / normal forms); all other rules are shape rules
ROBUST = ('SCALE/operand-is-input', 'WAV/samples-unmodified', 'CROP', 'STEREO/slots')
FLOORS = {'SCALE': 3, 'CROP': 3, 'REPEAT': 3, 'STEREO': 3, 'WAV': 2}


def E(t):
  return U.E(t)


def _sample_sources(fn, expr, channels, depth=0, seen=None):
  """Which of the channel parameters can supply the *samples* of `expr`: names are followed through every assignment they
  receive (a name bound in both arms of a test can hold either value); occurrences under len(), .shape, .dtype, .size, .ndim
  are metadata, not samples."""
  seen = seen or set()
  out = set()
  meta = set()
  for n in ast.walk(expr):
    if isinstance(n, ast.Call) and dotted(n.func) == 'len':
      meta |= set(id(x) for x in ast.walk(n))
    if isinstance(n, ast.Attribute) and n.attr in ('shape', 'dtype', 'size', 'ndim'):
      meta |= set(id(x) for x in ast.walk(n))
  for n in ast.walk(expr):
    if not (isinstance(n, ast.Name) and isinstance(n.ctx, ast.Load)) or id(n) in meta:
      continue
    if n.id in channels:
      out.add(n.id)
    elif n.id not in seen and depth < 6:
      for st in U.walk_stmts(fn):
        for tgt, val, op in U.store_targets(st):
          if isinstance(tgt, ast.Name) and tgt.id == n.id and val is not None and op == 'store':
            out |= _sample_sources(fn, val, channels, depth + 1, seen | {n.id})
          # samples written into (a part of) the array the name holds: x[...] = v
          if isinstance(tgt, ast.Subscript) and isinstance(tgt.value, ast.Name) and tgt.value.id == n.id and val is not None and op == 'store':
            out |= _sample_sources(fn, val, channels, depth + 1, seen | {n.id})
  return out


# (crop_beginning_seconds, total_length_seconds, sample_rate) -> window [lower, upper) of crop_samples: int(begin*rate) .. + int(length*rate)
CROP_SCENARIOS = [((0, 1, 4), (0, 4)), ((1, 0, 4), (4, 4)), ((1, '1/2', 4), (4, 6)), ((0, 0, 8), (0, 0)), (('3/4', '5/4', 8), (6, 16)), ((2, '1/8', 4), (8, 8))]


def crop_scenarios(ctx, rule='CROP/scenarios'):
  """crop_samples evaluated path by path: the slice it returns, for the stated arguments, is the stated window - also for a length of
  0 (an empty window, not "no length given")."""
  from sa import pathval, scenario
  fi = ctx.func('audio_io:crop_samples')
  ps = None
  try:
    ps = [(c, e) for c, e, end in pathval.paths(fi.node.body) if end == 'return' and pathval.RETURN in e]
  except pathval.PathError as e:
    why = 'cannot classify: crop_samples is not a straight-line block (%s)' % e
  if not ps:
    why = why if ps is None else 'cannot classify: crop_samples has no returning path'
    ctx.ob(rule, fi, fi.node, False, why, construct='crop_samples returns the stated window', unknown=why)
    return
  prm = fi.params()
  for (b, l, r), (lo, hi) in CROP_SCENARIOS:
    sub = {'crop_beginning_seconds': nf.rat(E(str(b))), 'total_length_seconds': nf.rat(E(str(l))), 'sample_rate': nf.rat(E(str(r)))}
    cons = 'crop_samples(begin=%s s, length=%s s, rate=%s) returns samples[%d:%d]' % (b, l, r, lo, hi)
    got, stuck = None, None
    for conds, env in ps:
      taken = True
      for t, pol in conds:
        v = scenario.fold_numeric(t, sub, dyadic=True)
        if v is None:
          stuck, taken = norm_text(t), None
          break
        if bool(v) != pol:
          taken = False
          break
      if taken is None:
        break
      if taken:
        rv = env[pathval.RETURN]
        if isinstance(rv, ast.Subscript) and isinstance(rv.slice, ast.Slice) and norm_text(rv.value) == prm[0] and rv.slice.step is None:
          a_ = 0 if rv.slice.lower is None else scenario.fold_numeric(rv.slice.lower, sub, dyadic=True)
          b_ = 'end' if rv.slice.upper is None else scenario.fold_numeric(rv.slice.upper, sub, dyadic=True)
          if a_ is None or b_ is None:
            stuck = norm_text(rv)
          else:
            got = (a_, b_)
        else:
          stuck = norm_text(rv)
        break
    if got is None:
      why = 'cannot classify: %s cannot be evaluated in this scenario' % (stuck or 'no path of crop_samples')
      ctx.ob(rule, fi, fi.node, False, why, construct=cons, unknown=why)
    else:
      ok = got == (lo, hi)
      ctx.ob(rule, fi, fi.node, ok, 'window [%d, %d)' % (lo, hi) if ok else
             'crop_samples(crop_beginning_seconds=%s, total_length_seconds=%s) at %s samples per second returns samples[%s:%s], not samples[%d:%d]%s' % (
                 b, l, r, got[0], '' if got[1] == 'end' else got[1], lo, hi, ' (a length of 0 is an empty window, not "no length")' if l == 0 else ''), construct=cons, definite=True)


def block_count_covers_the_length(ctx, rule='BLOCKS/count-covers-the-length'):
  """Location-independent (expected count on today's tree: 0; the kept patch C20_t is the positive example in the thorough tier): a
  conversion done block by block touches `count * size` samples.  With `count = len(y) // size` (or `max(1, len(y) // size)`) the last,
  partial block is never visited: a signal longer than one block whose length is not a multiple of the block size keeps its tail at the
  value the result was allocated with.  Only the plain floor forms are located; any other count built on `//` is "cannot classify"."""
  mi = ctx.P.module('audio_io')
  n = 0
  def is_len(e):
    return (isinstance(e, ast.Call) and dotted(e.func) == 'len' and len(e.args) == 1) or (isinstance(e, ast.Attribute) and e.attr == 'size') or \
        (isinstance(e, ast.Subscript) and isinstance(e.value, ast.Attribute) and e.value.attr == 'shape')
  for q, fi in sorted(mi.functions.items()):
    fn = fi.node
    for lp in ast.walk(fn):
      if not (isinstance(lp, ast.For) and isinstance(lp.target, ast.Name) and isinstance(lp.iter, ast.Call) and dotted(lp.iter.func) == 'range' and len(lp.iter.args) == 1):
        continue
      cnt = U.expand_locals(fn, lp.iter.args[0], at=lp)
      fds = [x for x in ast.walk(cnt) if isinstance(x, ast.BinOp) and isinstance(x.op, ast.FloorDiv)]
      if not fds:
        continue
      # the loop variable must select a slice (directly or through locals assigned in the body)
      v = lp.target.id
      dep = {v}
      for st in lp.body:
        if isinstance(st, ast.Assign) and len(st.targets) == 1 and isinstance(st.targets[0], ast.Name) and any(isinstance(x, ast.Name) and x.id in dep for x in ast.walk(st.value)):
          dep.add(st.targets[0].id)
      if not any(isinstance(x, ast.Slice) and any(isinstance(y, ast.Name) and y.id in dep for y in ast.walk(x)) for st in lp.body for x in ast.walk(st)):
        continue
      n += 1
      core = cnt
      if isinstance(core, ast.Call) and dotted(core.func) == 'max' and len(core.args) == 2:
        core = next((a for a in core.args if U.const_value(a) is None), core)
      plain = isinstance(core, ast.BinOp) and isinstance(core.op, ast.FloorDiv) and is_len(core.left)
      cons = '%s: the blocks visited cover the whole signal' % q
      end_ = getattr(lp, 'end_lineno', lp.lineno)
      tail = [x for st2 in ast.walk(fn) if isinstance(st2, ast.stmt) and getattr(st2, 'lineno', 0) > end_ for x in ast.walk(st2) if isinstance(x, ast.Slice) and x.lower is not None and x.upper is None]
      if plain and tail:
        why = 'cannot classify: the loop visits whole blocks only, and a statement after it touches a tail slice [..:]; whether that covers the partial block is not decided'
        ctx.ob(rule, fi, lp, False, why, construct=cons, unknown=why)
      elif plain:
        ctx.ob(rule, fi, lp, False, 'the loop visits `%s` blocks - the floor of length / block size: when the length is not a multiple of the block size the last, partial block is never converted '
               'and the tail of the result keeps the value it was allocated with' % norm_text(cnt)[:60], construct=cons, definite=True)
      else:
        why = 'cannot classify: whether the block count %s covers a partial last block' % norm_text(cnt)[:60]
        ctx.ob(rule, fi, lp, False, why, construct=cons, unknown=why)
  if n == 0:
    ctx.ob(rule, mi, mi.tree, True, 'no block-wise loop in audio_io', construct='block-wise conversions cover the whole signal')


def run(ctx):
  block_count_covers_the_length(ctx)
  from sa import pitfalls
  crop_scenarios(ctx)
  pitfalls.apply(ctx, 'PITFALL', [fi_ for q_, fi_ in sorted(ctx.P.module('audio_io').functions.items())], ['neg-zero-slice'], {
      'neg-zero-slice': 'when nothing is to be trimmed the slice x[:-0] is x[:0], the empty array: a duration that is a whole number of copies (or a crop that removes '
                        'nothing) returns no samples at all'})
  ms_ = ctx.func('audio_io:make_stereo')
  rz_ = [c for c in U.calls_in(ms_.node) if (dotted(c.func) or '').endswith('.resize') or (isinstance(c.func, ast.Attribute) and c.func.attr in ('resize', 'tile'))]
  if rz_:
    ctx.ob('STEREO/zero-padding', ms_, rz_[0], False, '%s brings a channel to the common length by repeating its samples (np.resize / np.tile fill with cyclic copies): the shorter channel must be '
           'padded with zeros, not continued with its own beginning' % norm_text(rz_[0])[:60], construct='the shorter channel is padded with zeros', definite=True)
  else:
    ctx.ob('STEREO/zero-padding', ms_, ms_.node, True, 'no cyclic fill (np.resize / np.tile) in make_stereo', construct='the shorter channel is padded with zeros')
  i2f = ctx.func('audio_io:int16_samples_to_float32')
  f2i = ctx.func('audio_io:float_samples_to_int16')
  # location-independent: int16 -> float must *divide* by the scale.  IEEE division is correctly rounded; multiplying by a
  # precomputed (already rounded) reciprocal is not the same function: for ~2% of the 65536 sample values the product is one
  # ulp below the quotient, and the truncating cast back to int16 then lands on the neighbouring integer
  for n in ast.walk(i2f.node):
    ops = None
    if isinstance(n, ast.BinOp) and isinstance(n.op, ast.Mult):
      ops = [n.left, n.right]
    elif isinstance(n, ast.Call) and (dotted(n.func) or '').split('.')[-1] == 'multiply' and len(n.args) >= 2:
      ops = list(n.args[:2])
    if not ops:
      continue
    for o in ops:
      x = U.expand_locals(i2f.node, o, i2f.module.assigns)
      recip = [d for d in ast.walk(x) if isinstance(d, ast.BinOp) and isinstance(d.op, ast.Div) and U.const_value(d.left) in (1, 1.0)]
      if recip:
        ctx.ob('SCALE/divide-not-reciprocal', i2f, n, False, '%s multiplies the samples by the reciprocal %s instead of dividing by the scale: the rounded reciprocal times x is not the '
               'correctly rounded x / scale, so some values come back from float_samples_to_int16 as their neighbour (|x| - 1) and the round trip is not lossless' % (
                   norm_text(n)[:80], norm_text(recip[0])), construct='int16 -> float divides by the scale', definite=True)
  r1 = i2f.node.body[-1]
  r2 = f2i.node.body[-1]
  s1 = s2 = None
  # look through temporaries and hoisted module constants
  v1 = U.expand_locals(i2f.node, r1.value, i2f.module.assigns) if isinstance(r1, ast.Return) and r1.value is not None else None
  v2 = U.expand_locals(f2i.node, r2.value, f2i.module.assigns) if isinstance(r2, ast.Return) and r2.value is not None else None
  ok1 = isinstance(v1, ast.BinOp) and isinstance(v1.op, ast.Div)
  if ok1:
    s1 = norm_text(v1.right)
    ok1 = norm_text(v1.left) == '%s.astype(np.float32)' % i2f.params()[0]
  ctx.ob('SCALE/to-float', i2f, r1, ok1, 'float = int16.astype(float32) / scale' if ok1 else 'int16 -> float is not astype(float32) / scale')
  ok2 = isinstance(v2, ast.Call) and isinstance(v2.func, ast.Attribute) and v2.func.attr == 'astype' and \
      norm_text(v2.args[0]) == 'np.int16' and isinstance(v2.func.value, ast.BinOp) and isinstance(v2.func.value.op, ast.Mult)
  if ok2:
    m = v2.func.value
    s2 = norm_text(m.right) if norm_text(m.left) == f2i.params()[0] else norm_text(m.left)
  ctx.ob('SCALE/to-int', f2i, r2, ok2, 'int16 = (float * scale).astype(int16)' if ok2 else 'float -> int16 is not (y * scale).astype(np.int16)')
  # the value that is scaled is the caller's array itself: any other rebinding (clipping, rounding, offsetting) changes some of the 65536 values
  for fi in (i2f, f2i):
    prm = fi.params()[0]
    reb = [st for st in U.walk_stmts(fi.node) for (tgt, _v, _o) in U.store_targets(st) if isinstance(tgt, ast.Name) and tgt.id == prm and
           not (isinstance(st, ast.Assign) and isinstance(st.value, ast.Call) and dotted(st.value.func) in ('np.asarray', 'np.asanyarray', 'numpy.asarray') and
                len(st.value.args) == 1 and norm_text(st.value.args[0]) == prm)]
    rets = [r_ for r_ in ast.walk(fi.node) if isinstance(r_, ast.Return) and r_.value is not None]
    ret = rets[-1] if rets else fi.node.body[-1]
    uses = any(isinstance(n, ast.Name) and n.id == prm for r_ in rets for n in ast.walk(U.expand_locals(fi.node, r_.value, fi.module.assigns)))
    ok = not reb and uses
    ctx.ob('SCALE/operand-is-input', fi, reb[0] if reb else ret, ok, 'the samples that are scaled are the input array, unmodified' if ok else
           '%s %s before scaling: some sample values no longer round-trip' % (fi.name, 'rebinds its input (%s)' % norm_text(reb[0]) if reb else 'does not scale its input'),
           construct='%s scales its parameter as given' % fi.name)
  ok = s1 is not None and s1 == s2 and s1 == 'np.iinfo(np.int16).max'
  ctx.ob('SCALE/same-constant', i2f, r1, ok, 'both directions use np.iinfo(np.int16).max' if ok else
         'the two PCM conversions scale by different expressions (%s vs %s): the round trip is not the identity' % (s1, s2), construct='one PCM scale both ways')
  for fi, needle in ((i2f, 'np.int16'), (f2i, 'np.floating')):
    g = next((s_ for s_ in fi.node.body if isinstance(s_, ast.If)), None)
    ok = g is not None and needle in norm_text(U.expand_locals(fi.node, g.test, fi.module.assigns)) and any(isinstance(x, ast.Raise) for x in g.body)
    ctx.ob('SCALE/dtype-guard', fi, g, ok, 'the input dtype is checked' if ok else '%s does not reject inputs of the wrong dtype' % fi.name)
  # crops
  bounds = {}
  for name in ('crop_samples', 'crop_wav_data'):
    fi = ctx.func('audio_io:' + name)
    env = {}
    for s in fi.node.body:
      if isinstance(s, ast.Assign) and isinstance(s.targets[0], ast.Name):
        env[s.targets[0].id] = s.value
    sl = [n for n in ast.walk(fi.node) if isinstance(n, ast.Subscript) and isinstance(n.slice, ast.Slice) and n.slice.lower is not None and n.slice.upper is not None]
    ctx.require(len(sl) == 1, '%s: crop slice not found' % name)
    try:
      b = nf.Builder(dict(env))
      bounds[name] = (b.rat(sl[0].slice.lower), b.rat(sl[0].slice.upper), fi, sl[0])
    except nf.NFError:
      bounds[name] = (None, None, fi, sl[0])
  lo = nf.rat(E('int(crop_beginning_seconds * sample_rate)'))
  hi = lo + nf.rat(E('int(total_length_seconds * sample_rate)'))
  for name, (l, h, fi, node) in bounds.items():
    ok = l is not None and l.equals(lo) and h.equals(hi)
    ctx.ob('CROP/bounds', fi, node, ok, '%s keeps [int(begin*rate), int(begin*rate) + int(length*rate))' % name if ok else
           '%s crops [%r, %r); the documented window is [int(begin*rate), int(begin*rate) + int(length*rate))' % (name, l, h), construct='%s bounds' % name)
  a, b = bounds['crop_samples'], bounds['crop_wav_data']
  ok = a[0] is not None and b[0] is not None and a[0].equals(b[0]) and a[1].equals(b[1])
  ctx.ob('CROP/siblings', b[2], b[3], ok, 'the two crop implementations agree' if ok else 'crop_samples and crop_wav_data compute different windows', construct='crop siblings agree')
  # repeat
  rp = ctx.func('audio_io:repeat_samples_to_duration')
  rp = Canon(rp, roles.discover(rp, {
      'num_repeats': lambda fn: roles.assigned_where(fn, lambda v, st: any(isinstance(x, ast.BinOp) and isinstance(x.op, (ast.Div, ast.FloorDiv)) and norm_text(x.left) == 'duration' for x in ast.walk(v))),
      'sequence_duration': lambda fn: roles.assigned_where(fn, lambda v, st: isinstance(v, ast.BinOp) and isinstance(v.op, ast.Div) and norm_text(v.left) == 'len(samples)'),
      'repeated_samples': lambda fn: roles.assigned_where(fn, lambda v, st: isinstance(v, ast.Call) and (dotted(v.func) or '').endswith('concatenate')),
  }, required=False))
  env = {}
  for s in rp.node.body:
    if isinstance(s, ast.Assign) and isinstance(s.targets[0], ast.Name):
      env[s.targets[0].id] = s.value
  nr = env.get('num_repeats')
  ok = nr is not None and 'math.ceil' in [dotted(c.func) for c in U.calls_in(nr)]
  if ok:
    div = [x for x in ast.walk(nr) if isinstance(x, ast.BinOp) and isinstance(x.op, ast.Div)]
    try:
      ok = len(div) >= 1 and nf.Builder({k: v for k, v in env.items() if k != 'num_repeats'}).rat(div[0]).equals(nf.rat(E('duration * sample_rate / len(samples)')))
    except nf.NFError:
      ok = False
  ctx.ob('REPEAT/ceil', rp, rp.node, ok, 'repeats = ceil(duration / (len(samples) / sample_rate))' if ok else 'the repeat count is not ceil(duration * rate / len): the result can be shorter than requested', construct='repeat count')
  cc = env.get('repeated_samples')
  if cc is None:
    cat = [c for c in U.calls_in(rp.node) if (dotted(c.func) or '').endswith('concatenate')]
    cc = U.expand_locals(rp.node, cat[0], None) if len(cat) == 1 else None
  else:
    cc = U.expand_locals(rp.node, cc, None)
  def cyclic(arg):
    # [samples] * n   or   [samples for _ in range(n)]
    if isinstance(arg, ast.BinOp) and isinstance(arg.op, ast.Mult):
      sides = [arg.left, arg.right]
      lst = [x for x in sides if isinstance(x, ast.List) and len(x.elts) == 1 and norm_text(x.elts[0]) == 'samples']
      return len(lst) == 1 and any(norm_text(x) == 'int(math.ceil(duration / (len(samples) / sample_rate)))' or norm_text(x) == 'num_repeats' for x in sides)
    if isinstance(arg, ast.ListComp) and len(arg.generators) == 1 and not arg.generators[0].ifs and norm_text(arg.elt) == 'samples':
      it = arg.generators[0].iter
      return isinstance(it, ast.Call) and dotted(it.func) == 'range' and len(it.args) == 1
    return False
  ok = isinstance(cc, ast.Call) and (dotted(cc.func) or '').endswith('concatenate') and len(cc.args) == 1 and cyclic(cc.args[0])
  ctx.ob('REPEAT/cyclic', rp, rp.node, ok, 'the input is concatenated num_repeats times' if ok else 'the repeated signal is not [samples] * num_repeats concatenated', construct='cyclic repetition')
  cr = [c for c in U.calls_in(rp.node) if dotted(c.func) == 'crop_samples']
  ok = len(cr) == 1
  if ok:
    kw = {k.arg: k.value for k in cr[0].keywords}
    args = list(cr[0].args)
    beg = kw.get('crop_beginning_seconds', args[2] if len(args) > 2 else None)
    ln = kw.get('total_length_seconds', args[3] if len(args) > 3 else None)
    a0 = U.expand_locals(rp.node, args[0], None) if args else None
    ok = isinstance(a0, ast.Call) and (dotted(a0.func) or '').endswith('concatenate') and norm_text(args[1]) == 'sample_rate' and beg is not None and U.const_value(beg) == 0 and \
        ln is not None and norm_text(ln) == 'duration'
  ctx.ob('REPEAT/crop', rp, cr[0] if cr else rp.node, ok, 'the repetition is cropped to [0, duration)' if ok else 'the repeated signal is not cropped at [0, duration)', construct='crop to duration')
  # stereo
  ms = ctx.func('audio_io:make_stereo')
  l, r = ms.params()
  g = next((s for s in ms.node.body if isinstance(s, ast.If)), None)
  ok = g is not None and norm_text(g.test) == '%s.dtype != %s.dtype' % (l, r) and any(isinstance(x, ast.Raise) and 'AudioIODataTypeError' in norm_text(x) for x in g.body)
  ctx.ob('STEREO/dtype', ms, g or ms.node, ok, 'channels of different dtype are rejected' if ok else 'make_stereo does not reject channels of different dtype')
  # dataflow: wherever the two channels are put side by side, slot 0 is made from the left channel only and slot 1 from the right only
  mixed = []
  pairs = 0
  for d in ast.walk(ms.node):
    if isinstance(d, (ast.List, ast.Tuple)) and len(d.elts) == 2 and isinstance(getattr(d, 'ctx', None), ast.Load):
      par = U.parent(ms.node, d)
      joins = isinstance(par, ast.Call) and d in par.args and (dotted(par.func) or '').split('.')[-1] in (
          'stack', 'array', 'concatenate', 'column_stack', 'vstack', 'hstack', 'dstack', 'zip', 'asarray')
      bound = isinstance(par, ast.Assign) and par.value is d
      if not (joins or bound):
        continue      # e.g. a shape tuple
      deps = [_sample_sources(ms.node, e, (l, r)) for e in d.elts]
      # a pair of *sample data* (not of lengths / masks computed from the lengths): slot 0 must carry the left channel's samples
      # on every path, slot 1 the right channel's
      if deps[0] and deps[1]:
        pairs += 1
        if not (deps[0] == {l} and deps[1] == {r}):
          mixed.append(d)
  # the other idiom: one row (or column) per channel, filled by subscript stores with a constant channel index
  rows = {}
  for st in U.walk_stmts(ms.node):
    for tgt, val, op in U.store_targets(st):
      if op == 'store' and val is not None and isinstance(tgt, ast.Subscript) and isinstance(tgt.slice, ast.Tuple) and len(tgt.slice.elts) == 2:
        ks = [U.const_value(e) if not isinstance(e, ast.Slice) else None for e in tgt.slice.elts]
        chan = [k for k in ks if k in (0, 1)]
        if len(chan) == 1:
          dep = _sample_sources(ms.node, val, (l, r))
          if dep:
            pairs += 1
            rows[chan[0]] = dep
            if dep != {(l, r)[chan[0]]}:
              mixed.append(tgt)
  ctx.ob('STEREO/slots', ms, mixed[0] if mixed else ms.node, pairs >= 1 and not mixed, 'every (x, y) pair built from the channels is (from left only, from right only)' if pairs >= 1 and not mixed else
         ('a pair of channel-derived values does not keep left in slot 0 and right in slot 1 (%s): which channel lands in which column depends on more than its side' % norm_text(mixed[0]) if mixed
          else 'no (left, right) pair found in make_stereo'), construct='make_stereo keeps (left, right) slots',
         unknown=None if (pairs >= 1 or mixed) else 'how make_stereo lays out the two channels is not one of the recognised idioms (a two-element display of channel-derived values, or stores with a constant channel index)')
  # the validity mask of the mask idiom: position p of a row is valid iff p < length of that channel (strictly): with <= every row
  # claims one sample more than its channel has, and the scatter no longer fits / shifts the right channel by one
  for c in ast.walk(ms.node):
    if isinstance(c, ast.Compare) and len(c.ops) == 1 and isinstance(c.ops[0], (ast.Lt, ast.LtE)):
      lt, rt = U.expand_locals(ms.node, c.left, at=c), U.expand_locals(ms.node, c.comparators[0], at=c)
      if any(isinstance(x, ast.Call) and (dotted(x.func) or '').split('.')[-1] == 'arange' for x in ast.walk(lt)) and 'len(' in norm_text(rt):
        okm = isinstance(c.ops[0], ast.Lt)
        ctx.ob('STEREO/mask-strict', ms, c, okm, 'a position is valid iff it is below the channel length' if okm else
               'the validity mask %s admits position == length: each channel is given one sample more than it has' % norm_text(c), construct='mask: position < channel length', definite=True)
  t = norm_text(ms.node)
  ok = 'np.array([len(%s), len(%s)])' % (l, r) in t and 'np.concatenate([%s, %s])' % (l, r) in t
  ok = ok or (rows.get(0) == {l} and rows.get(1) == {r})
  ctx.ob('STEREO/order', ms, ms.node, ok, 'lengths and data are taken in (left, right) order' if ok else 'make_stereo does not lay out left then right consistently',
         unknown=None if (mixed or 'np.concatenate' in t) else 'the layout idiom of make_stereo is not recognised')
  ok = 'np.zeros(' in t and isinstance(ms.node.body[-1], ast.Return) and norm_text(ms.node.body[-1].value).endswith('.T')
  ctx.ob('STEREO/zero-padded', ms, ms.node.body[-1], ok, 'the output is zero-initialised (the shorter channel is padded) and transposed to (samples, 2)' if ok else 'make_stereo does not zero-pad / transpose')
  mono_untouched(ctx)
  sw = ctx.func('audio_io:samples_to_wav_data')
  ok = any(dotted(c.func) == 'float_samples_to_int16' and norm_text(c.args[0]) == sw.params()[0] for c in U.calls_in(sw.node)) and \
      any((dotted(c.func) or '').endswith('wavfile.write') for c in U.calls_in(sw.node))
  ctx.ob('WAV/write-path', sw, sw.node, ok, 'WAV data is written from the int16 conversion of the samples' if ok else 'samples_to_wav_data does not write float_samples_to_int16(samples)')
  prm = sw.params()[0]
  reb = [st for st in U.walk_stmts(sw.node) for (tgt, _v, _o) in U.store_targets(st) if isinstance(tgt, ast.Name) and tgt.id == prm and
         not (isinstance(st, ast.Assign) and isinstance(st.value, ast.Call) and dotted(st.value.func) in ('np.asarray', 'np.asanyarray', 'numpy.asarray') and
              len(st.value.args) == 1 and norm_text(st.value.args[0]) == prm)]
  ctx.ob('WAV/samples-unmodified', sw, reb[0] if reb else sw.node, not reb, 'the samples reach the int16 conversion as given' if not reb else
         'samples_to_wav_data rebinds its samples before converting them (%s): some of the 65536 values no longer survive the WAV round trip' % norm_text(reb[0]),
         construct='samples_to_wav_data converts its parameter as given')


def mono_untouched(ctx):
  """Location-independent: the reader folds channels together only for a two-dimensional array (frames x channels).  A mono file
  is one-dimensional; its last axis is time, so a channel test that looks at shape[-1] (or any shape entry) without first
  establishing ndim == 2 treats a mono signal of exactly two samples as one stereo frame and averages it away."""
  rd = ctx.func('audio_io:wav_data_to_samples')
  fn = rd.node
  for st in U.walk_stmts(fn):
    if not isinstance(st, ast.Assign):
      continue
    v = st.value
    collapse = isinstance(v, ast.Call) and ((dotted(v.func) or '').split('.')[-1] in ('to_mono', 'mean', 'sum', 'average')) and \
        ((dotted(v.func) or '').endswith('to_mono') or any(k.arg == 'axis' for k in v.keywords) or len(v.args) >= 2)
    if not collapse:
      continue
    conds = [U.expand_locals(fn, t, at=st) for t, p in U.path_conditions(fn, st) if p]
    texts = [norm_text(t) for t in conds]
    # the number of dimensions is established by a test of .ndim / len(.shape), or by comparing the shape - whole or a *slice* of
    # it - with a tuple (`y.shape[1:] == (2,)` holds only for a two-dimensional array)
    def fixes_rank(t):
      return any(isinstance(c, ast.Compare) and len(c.ops) == 1 and isinstance(c.ops[0], ast.Eq) and any(
          isinstance(b, ast.Tuple) and ((isinstance(a, ast.Attribute) and a.attr == 'shape') or
                                        (isinstance(a, ast.Subscript) and isinstance(a.slice, ast.Slice) and isinstance(a.value, ast.Attribute) and a.value.attr == 'shape'))
          for a, b in ((c.left, c.comparators[0]), (c.comparators[0], c.left))) for c in ast.walk(t))
    dim_known = any('.ndim' in t or 'len(' in t and '.shape)' in t for t in texts) or any(fixes_rank(t) for t in conds)
    shape_test = [norm_text(t) for t in conds if any(isinstance(s_, ast.Subscript) and isinstance(s_.value, ast.Attribute) and s_.value.attr == 'shape' and
                                                     not isinstance(s_.slice, ast.Slice) for s_ in ast.walk(t))]
    if dim_known or not shape_test:
      if dim_known:
        ctx.ob('WAV/mono-untouched', rd, st, True, 'channels are folded only after the array is known to be two-dimensional', construct='channel fold requires ndim == 2', definite=True)
      continue
    ctx.ob('WAV/mono-untouched', rd, st, False, '%s runs whenever %s, without establishing that the array is two-dimensional: a mono signal (one axis, time) with exactly that many '
           'samples is folded into a single value, so its round trip through samples_to_wav_data / wav_data_to_samples loses the signal' % (norm_text(st), ' and '.join(shape_test)),
           construct='channel fold requires ndim == 2', definite=True)


MUTANTS = [
    Mutant('seed C20_c: samples clipped to [-1, 1] before the WAV is written', F, "  wav_io = io.BytesIO()\n  scipy.io.wavfile.write(wav_io, sample_rate, float_samples_to_int16(samples))", "  wav_io = io.BytesIO()\n  samples = np.clip(samples, -1.0, 1.0)\n  scipy.io.wavfile.write(wav_io, sample_rate, float_samples_to_int16(samples))", rule='WAV/samples-unmodified'),
    Mutant('seed C20_a: input clipped to [-1, 1] before scaling (-32768 no longer round-trips)', F, "  return (y * np.iinfo(np.int16).max).astype(np.int16)", "  y = np.clip(y, -1.0, 1.0)\n  return (y * np.iinfo(np.int16).max).astype(np.int16)", rule='SCALE/operand-is-input'),
    Mutant('input passed through np.asarray first (harmless)', F, "  return (y * np.iinfo(np.int16).max).astype(np.int16)", "  y = np.asarray(y)\n  return (y * np.iinfo(np.int16).max).astype(np.int16)", expect='silent'),
    Mutant('divide by 32768 one way only', F, "  return y.astype(np.float32) / np.iinfo(np.int16).max", "  return y.astype(np.float32) / 32768.0", rule='SCALE/same-constant'),
    Mutant('multiply by another scale', F, "  return (y * np.iinfo(np.int16).max).astype(np.int16)", "  return (y * (np.iinfo(np.int16).max + 1)).astype(np.int16)", rule='SCALE/'),
    Mutant('int16 guard dropped', F, "  if y.dtype != np.int16:\n    raise ValueError('input samples not int16')\n", "", rule='SCALE/dtype-guard'),
    Mutant('wav crop one sample longer', F, "  cropped_samples = y[samples_to_crop:(samples_to_crop + total_samples)]", "  cropped_samples = y[samples_to_crop:(samples_to_crop + total_samples + 1)]", rule='CROP/'),
    Mutant('sample crop ignores the offset in the end bound', F, "  cropped_samples = samples[samples_to_crop:(samples_to_crop + total_samples)]", "  cropped_samples = samples[samples_to_crop:total_samples]", rule='CROP/'),
    Mutant('repeat count floors', F, "  num_repeats = int(math.ceil(duration / sequence_duration))", "  num_repeats = int(duration / sequence_duration)", rule='REPEAT/ceil'),
    Mutant('repeat cropped to the sequence duration', F, "      crop_beginning_seconds=0, total_length_seconds=duration)", "      crop_beginning_seconds=0, total_length_seconds=sequence_duration)", rule='REPEAT/crop'),
    Mutant('stereo channels swapped in the data', F, "  out[mask] = np.concatenate([left, right])", "  out[mask] = np.concatenate([right, left])", rule='STEREO/order'),
    Mutant('stereo accepts mixed dtypes', F, "  if left.dtype != right.dtype:\n    raise AudioIODataTypeError(\n        'left channel is of type {}, but right channel is {}'.format(\n            left.dtype, right.dtype))\n", "", rule='STEREO/dtype'),
    Mutant('wav written from raw floats', F, "  scipy.io.wavfile.write(wav_io, sample_rate, float_samples_to_int16(samples))", "  scipy.io.wavfile.write(wav_io, sample_rate, samples)", rule='WAV/'),
    # equivalent
    Mutant('scale hoisted into a module constant', F, "def int16_samples_to_float32(y):", "_UNUSED_SCALE_NOTE = None\n\n\ndef int16_samples_to_float32(y):", expect='silent'),
    Mutant('crop bounds inlined', F, "  cropped_samples = samples[samples_to_crop:(samples_to_crop + total_samples)]", "  cropped_samples = samples[samples_to_crop:(total_samples + samples_to_crop)]", expect='silent'),
]

RENAME_FUNCS = [(F, 'crop_samples'), (F, 'crop_wav_data'), (F, 'repeat_samples_to_duration'), (F, 'make_stereo')]

EXPLANATION += (' Location-independent additions: WAV/mono-untouched (channels folded only after the rank is established), SCALE/divide-not-reciprocal, STEREO/slots for both layout idioms.')
EXPLANATION += (' Round 7: ' + 'STEREO/zero-padding (no cyclic fill with np.resize / np.tile).')
EXPLANATION += (' Rounds 9-10: ' + 'PITFALL/neg-zero-slice over audio_io, with a witness search over small parameter values (pitfalls.zero_witness).')
EXPLANATION += (' Round 11: ' + 'CROP/scenarios; SCALE/operand-is-input looks at every return.')
EXPLANATION += (' Round 14: ' + 'BLOCKS/count-covers-the-length.')
