"""C11 - sequence operations never modify their argument (DESIGN.md §4 C11)."""
import ast

from sa import own, loader
from sa.loader import norm_text, dotted
from sa.selftest import Mutant
from sa import astutil as U

PROPERTY = 'C11'
SL = 'sequences_lib'
F = 'note_seq/sequences_lib.py'

LEVEL_TEXT = (
    'Sound static argument (under the stated trusted base) that none of the 19 returns-new operations of sequences_lib can '
    'write through, leak to an unknown callee, or return a reference derived from its argument, on any path including '
    'raising ones; plus structural determinism (no random/time/global state) and end_time/total_time pairing. The value-level '
    'part of well-formedness is not decided. Static ownership analysis is the right level because the property quantifies over '
    'all inputs and all arguments that make the operation raise, which no finite set of executions covers.')
LEVEL_NOTE = ('Trusted: protobuf (upb) copy semantics of CopyFrom/MergeFrom/extend/append/add and deepcopy; the pure-library table; '
              'no reflection in analysed code (checked each run); the frozen contract table of sa/own.py.')
TECHNIQUE = 'static analysis: interprocedural points-to / ownership abstract interpretation over the AST (flag-sensitive, inlining), write-frame and pairing rules'
DESIGN_REF = 'DESIGN.md sections 3.1, 3.4, 4 (C11)'

EXPLANATION = (
    'Decided statically, by abstract interpretation of sequences_lib.py (points-to / ownership analysis with '
    'allocation-site heap, full inlining of repo callees, flag-sensitivity for in_place): '
    'S1 for each of the 19 operations documented as returning a new NoteSequence, no store, augmented store, '
    'del, or mutating protobuf method (add/extend/append/sort/remove/CopyFrom/MergeFrom/Clear...) on any path '
    '(raising paths included, because writes are collected irrespective of later raise) has a target reachable '
    'from the argument; no argument-derived message is handed to a callee of unknown effect; the returned value '
    'does not alias the argument.  S2 (same result when called again, structural part): the call closure of '
    'those operations calls nothing in random / numpy.random / time / os and writes no module-level object.  '
    'S3 (well-formedness, structural part): wherever an operation stores a note end_time on its result it also '
    'maintains total_time with the same operator/operand (+=, *=, min-clip, max-reduction), and '
    'adjust_notesequence_times raises for reversed/negative times before the note is emitted.  '
    'NOT decided: value facts such as "no note ends before it starts" in general.')
EXPLANATION += (' ' + 'PAIR/steps-total-order (shared with C01): total_quantized_steps is assigned before and never after _quantize_notes in both quantize entry points.')
TRUSTED = [
    'protobuf (upb) API model: CopyFrom/MergeFrom/extend/append/add copy their argument; deepcopy returns a fresh message',
    'pure-library table (math, numpy, logging, itertools, operator, ... do not mutate or retain messages)',
]
NOT_DECIDED = ['well-formedness of result values (start <= end, non-negative times) as facts about numbers']
ASSUMPTIONS = ['callers do not share sub-messages between two NoteSequences (protobuf forbids it)']
# rules whose verdict does not depend on how the statements are arranged (semantic analyses); all other rules are shape rules:
# when one of those fails in a function that was restructured relative to reference/signatures.json the verdict is "cannot decide"
ROBUST = ('OWN/write', 'OWN/return', 'OWN-RO/write', 'DET', 'PAIR/steps-total-order')
FLOORS = {'OWN/write': 150, 'OWN/return': 19, 'DET/ext-call': 20, 'PAIR/end-total': 6, 'PAIR/steps-total-order': 2, 'PAIR/merge-scalars': 2}

NONDET_PREFIX = ('random.', 'numpy.random.', 'time.', 'os.', 'uuid.', 'tempfile.')


def run(ctx):
  from rules import C12 as _c12      # "well-formed results": a stream merged as if sorted goes backwards in time on unsorted storage (end before start)
  _c12.assumes_sorted_in(ctx, ('apply_sustain_control_changes', 'trim_note_sequence', 'extract_subsequence', '_extract_subsequences', 'split_note_sequence',
                                'split_note_sequence_on_time_changes', 'split_note_sequence_on_silence', 'transpose_note_sequence', 'stretch_note_sequence',
                                'shift_sequence_times', 'quantize_note_sequence', 'quantize_note_sequence_absolute'), 'WELLFORMED/assumes-sorted')
  from sa import pitfalls as _pf
  _pf.apply(ctx, 'PITFALL', [ctx.func(SL + ':' + n_) for n_ in ('_extract_subsequences', 'trim_note_sequence', 'extract_subsequence', 'split_note_sequence',
                                                                 'split_note_sequence_on_time_changes', 'split_note_sequence_on_silence')], ['previous-wraps'], {
      'previous-wraps': 'an event before the first split time lands in the *last* piece, re-based to a negative time: the result is not well-formed'})
  own.classify_all(ctx)
  for name, (ptypes, consts, borrowed, _reason) in own.RETURNS_NEW.items():
    res = own.check_borrowed(ctx, SL + ':' + name, ptypes, consts, borrowed)
    determinism(ctx, name, res)
  for name, (ptypes, borrowed) in own.READ_ONLY.items():
    own.check_borrowed(ctx, SL + ':' + name, ptypes, {}, borrowed, rule='OWN-RO')
  pairing(ctx)
  adjust_dominance(ctx)
  from rules import C01, C10, C13
  C13.no_negative_event_stored(ctx, 'WELLFORMED/no-negative-event-stored')      # "no time is negative" in the result of adjust / rectify_beats
  C13.reversed_rejected(ctx, 'WELLFORMED/reversed-rejected')                    # "no note ends before it starts"
  C01.total_order(ctx, 'PAIR/steps-total-order')
  C10.kept_total_time(ctx, ctx.func(SL + ':transpose_note_sequence'), 'PAIR/recomputed-total')
  merge_scalars(ctx)


def determinism(ctx, name, res):
  fi = ctx.func(SL + ':' + name)
  seen = set()
  for (dn, node, func, chain) in res.ext_calls:
    if (dn, id(node)) in seen:
      continue
    seen.add((dn, id(node)))
    bad = dn.startswith(NONDET_PREFIX)
    ctx.ob('DET/ext-call', func, node, not bad,
           'the operation (entry %s) calls %s: its result may differ between two calls' % (name, dn) if bad
           else 'library call %s is deterministic' % dn)
  for w in res.writes:
    if w.root[0] == 'G':
      ctx.ob('DET/global-write', w.func, w.stmt or w.node, False,
             'entry %s writes module-level object %s: hidden state between calls' % (name, w.root[1]))


# ---------------------------------------------------------------- S3 pairing
# (function, how the end_time store must be accompanied)
PAIR_ALLOW = [
    # (function, normalised end_time store or None = any, module constant that an enclosing test must mention, reason)
    ('apply_sustain_control_changes', None, '_NOTE_ON',
     'truncation at a re-strike: the striking note starts at `time` and ends no earlier, and total_time already covers it'),
]


def pairing(ctx):
  """Every store to <result>.notes[].end_time is accompanied by total_time maintenance."""
  for name in own.RETURNS_NEW:
    fi = ctx.func(SL + ':' + name)
    ends = []
    totals = []
    for st in U.walk_stmts(fi.node):
      for tgt, val, op in U.store_targets(st):
        if isinstance(tgt, ast.Attribute) and tgt.attr == 'end_time':
          ends.append((st, tgt, val, op))
        if isinstance(tgt, ast.Attribute) and tgt.attr == 'total_time':
          totals.append((st, tgt, val, op))
    for (st, tgt, val, op) in ends:
      ok, why = _paired(fi, st, tgt, val, op, totals)
      if not ok:
        tnodes = [t for (t, pol) in U.path_conditions(fi.node, st) if pol]
        tests = [norm_text(t) for t in tnodes]

        def mentions(needle):
          """the module constant is named in a test, or a test compares for equality with the number it folds to"""
          if any(needle in t for t in tests):
            return True
          from sa import nf as _nf
          v = _nf.GLOBAL_CONSTS.get(needle)
          return v is not None and any(isinstance(c, ast.Compare) and len(c.ops) == 1 and isinstance(c.ops[0], ast.Eq) and
                                       any(U.const_value(x) == v and not isinstance(U.const_value(x), bool) for x in (c.left, c.comparators[0]))
                                       for t in tnodes for c in ast.walk(t))
        for (fn, txt, needle, reason) in PAIR_ALLOW:
          if fn == name and (txt is None or norm_text(st) == txt) and mentions(needle):
            ok, why = True, 'allow-listed: ' + reason
            break
      ctx.ob('PAIR/end-total', fi, st, ok, why, definite=(not ok and op == 'store' and _no_total_near(fi, st, totals)))


def merge_scalars(ctx):
  """MergeFrom concatenates repeated fields but *overwrites* scalar ones, so after merging several sequences the covering
  scalars (total_time, total_quantized_steps) are those of the last one: merge_sequences must set them to the maximum."""
  fi = ctx.func(SL + ':merge_sequences')
  loop = next((n for n in fi.node.body if isinstance(n, ast.For) and any(isinstance(c, ast.Call) and isinstance(c.func, ast.Attribute) and c.func.attr == 'MergeFrom' for c in ast.walk(n))), None)
  ctx.require(loop is not None, 'merge_sequences: MergeFrom loop not found')
  seqs = norm_text(loop.iter)
  res = next((norm_text(c.func.value) for c in ast.walk(loop) if isinstance(c, ast.Call) and isinstance(c.func, ast.Attribute) and c.func.attr == 'MergeFrom'), None)
  for f in ('total_time', 'total_quantized_steps'):
    sts = [s for s in U.walk_stmts(fi.node) if isinstance(s, ast.Assign) and norm_text(s.targets[0]) == '%s.%s' % (res, f) and s.lineno > loop.lineno]
    ok = False
    if len(sts) == 1 and isinstance(sts[0].value, ast.Call) and dotted(sts[0].value.func) == 'max' and len(sts[0].value.args) == 1 and \
        isinstance(sts[0].value.args[0], (ast.GeneratorExp, ast.ListComp)):
      g = sts[0].value.args[0]
      ok = len(g.generators) == 1 and norm_text(g.generators[0].iter) == seqs and not g.generators[0].ifs and \
          norm_text(g.elt) == '%s.%s' % (norm_text(g.generators[0].target), f)
    # positively located: the scalar is copied from ONE input that was selected by comparing another field
    if len(sts) == 1 and isinstance(sts[0].value, ast.Attribute) and sts[0].value.attr == f and isinstance(sts[0].value.value, ast.Name):
      sel = sts[0].value.value.id
      picks = [s for s in U.walk_stmts(fi.node) if isinstance(s, ast.Assign) and len(s.targets) == 1 and norm_text(s.targets[0]) == sel and U.enclosing_loops(fi.node, s)]
      by = set(a.attr for s in picks for t, _p in U.enclosing_tests(fi.node, s) for a in ast.walk(t) if isinstance(a, ast.Attribute) and a.attr.startswith('total_'))
      if picks and by and f not in by:
        ctx.ob('PAIR/merge-scalars', fi, sts[0], False, '%s is copied from the one input %s that was selected by its %s: an input that is not the longest in that respect can still '
               'have the larger %s (quantized material: a short last note stretched to a whole step, or inputs at different tempi), so a note of the merged sequence ends after it' % (
                   f, sel, '/'.join(sorted(by)), f), construct='merge_sequences: %s = max over inputs' % f, definite=True)
        continue
    ctx.ob('PAIR/merge-scalars', fi, sts[0] if sts else loop, ok, '%s of the merged sequence is the maximum over the inputs' % f if ok else
           'after MergeFrom the merged sequence keeps the %s of the last input only: it may not cover the notes of a longer earlier input' % f,
           construct='merge_sequences: %s = max over inputs' % f)


def _fresh_sequence(fi, total_target):
  """<X>.total_time where X is bound in this function to a NoteSequence() constructor call or an element of a list of such."""
  base = total_target.value
  while isinstance(base, (ast.Subscript, ast.Attribute)):
    base = base.value
  if not isinstance(base, ast.Name):
    return False
  for st in U.walk_stmts(fi.node):
    if isinstance(st, ast.Assign) and any(isinstance(t, ast.Name) and t.id == base.id for t in st.targets):
      v = st.value
      for c in ast.walk(v):
        if isinstance(c, ast.Call) and (dotted(c.func) or '').endswith('NoteSequence') and not c.args:
          return True
  return False


def _no_total_near(fi, st, totals):
  """Located whatever the arrangement: nothing in the loop that stores this end time, and nothing after it in the function, writes a
  total_time or hands the sequence to a call that could - the end time is stored and total_time simply is not looked at again."""
  loops_w = U.enclosing_loops(fi.node, st)
  inner = loops_w[-1] if loops_w else None
  outer = loops_w[0] if loops_w else st
  last = max(getattr(n, 'lineno', 0) for n in ast.walk(outer))
  for (st2, _t2, _v2, _op2) in totals:
    if loops_w and any(x is st2 for x in ast.walk(outer)):
      return False        # anywhere in the loop nest of the store (say, once per piece after the inner loop over its notes)
    if getattr(st2, 'lineno', 0) > last:
      return False
  base = norm_text(totals[0][1].value) if totals else None
  # helpers (nested or of the module) that write a total_time: a call of one of them is total_time maintenance too
  writers = set(f.name for f in ast.walk(fi.node) if isinstance(f, ast.FunctionDef) and f is not fi.node and
                any(isinstance(t, ast.Attribute) and t.attr == 'total_time' and isinstance(t.ctx, ast.Store) for t in ast.walk(f)))
  writers |= set(q for q, g in fi.module.functions.items() if any(isinstance(t, ast.Attribute) and t.attr == 'total_time' and isinstance(t.ctx, ast.Store) for t in ast.walk(g.node)))
  for c in ast.walk(fi.node):
    if not isinstance(c, ast.Call):
      continue
    near = (loops_w and any(x is c for x in ast.walk(outer))) or getattr(c, 'lineno', 0) > last
    if not near:
      continue
    if isinstance(c.func, ast.Name) and c.func.id in writers:
      return False
    if getattr(c, 'lineno', 0) > last and base is not None and any(norm_text(a) == base for a in c.args):
      return False
  return True


def _paired(fi, st, tgt, val, op, totals):
  vtxt = norm_text(val) if val is not None else None
  loops_w = U.enclosing_loops(fi.node, st)
  if op != 'store':
    for (st2, t2, v2, op2) in totals:
      if op2 == op and norm_text(v2) == vtxt:
        return True, 'total_time receives the same %s %s' % (op, vtxt)
    return False, 'end_time is updated with %s %s but total_time is not updated with the same operator and operand' % (op, vtxt)
  # plain store
  cands = []
  for (st2, t2, v2, op2) in totals:
    if op2 != 'store':
      continue
    v2txt = norm_text(v2)
    # min-clip sibling: end = min(a, B) ; total = min(c, B)
    if isinstance(val, ast.Call) and U.call_name(val) == 'min' and isinstance(v2, ast.Call) and U.call_name(v2) == 'min':
      if set(norm_text(a) for a in val.args[1:]) == set(norm_text(a) for a in v2.args[1:]):
        return True, 'min-clip pair: both clipped with %s' % norm_text(val.args[1])
    same_loop = U.enclosing_loops(fi.node, st2)[:len(loops_w)] == loops_w if loops_w else True
    if not same_loop:
      continue
    tgt_txt = norm_text(tgt)
    if v2txt in (vtxt, tgt_txt):
      # guarded max-reduction, or unguarded same-value store in the same block
      tests = U.enclosing_tests(fi.node, st2, stop_at=loops_w[-1] if loops_w else None)
      guard_ok = any(U.is_gt_guard(c, v2txt, norm_text(t2)) for c in tests)
      if guard_ok:
        return True, 'max-reduction: total_time = %s under guard %s > total_time, in the same loop' % (v2txt, v2txt)
      # an unguarded `total_time = v` next to `end_time = v` can *lower* total_time below the end of a note the statement
      # does not look at (F25: drum notes in apply_sustain_control_changes); it is accepted only when the sequence written to
      # was created empty in this function, so that its notes are exactly the ones this code adds
      if U.same_block(fi.node, st, st2) and _fresh_sequence(fi, t2):
        return True, 'same-value store to total_time of a sequence built from scratch here, in the same block'
    if isinstance(v2, ast.Call) and U.call_name(v2) == 'max' and any(norm_text(a) in (vtxt, tgt_txt) for a in v2.args):
      return True, 'max-reduction through max()'
  # reduction through a local: end_time = E ... ; if E > X.total_time: X.total_time = E  (E a local name assigned before)
  if isinstance(val, ast.Name):
    for (st2, t2, v2, op2) in totals:
      if op2 == 'store' and norm_text(v2) == val.id:
        tests = U.enclosing_tests(fi.node, st2)
        if any(U.is_gt_guard(c, val.id, norm_text(t2)) for c in tests) and U.enclosing_loops(fi.node, st2) == loops_w:
          return True, 'max-reduction over local %s in the same loop' % val.id
  return False, 'end_time is stored but no total_time maintenance (same operator, min-clip, or max-reduction in the same loop) accompanies it'


def adjust_dominance(ctx):
  """adjust_notesequence_times: the three rejections precede the emission."""
  from rules import C13
  fi = C13.adjust_canon(ctx.func(SL + ':adjust_notesequence_times'))
  loop = None
  for n in ast.walk(fi.node):
    if isinstance(n, ast.For) and any(isinstance(c, ast.Call) and isinstance(c.func, ast.Attribute) and c.func.attr == 'add'
                                       and norm_text(c.func.value).endswith('.notes') for c in ast.walk(n)):
      loop = n
      break
  ctx.require(loop is not None, 'adjust_notesequence_times: note emission loop not found')
  emit_idx = None
  raises = []
  for i, st in enumerate(loop.body):
    if emit_idx is None and any(isinstance(c, ast.Call) and isinstance(c.func, ast.Attribute) and c.func.attr == 'add' for c in ast.walk(st)):
      emit_idx = i
    if isinstance(st, ast.If) and any(isinstance(x, ast.Raise) for x in st.body) and isinstance(st.test, ast.Compare):
      raises.append((i, st))
  ctx.require(emit_idx is not None, 'adjust_notesequence_times: emission statement not found')
  want = {'end<start': False, 'start<0': False, 'end<0': False}
  for (i, st) in raises:
    c = U.compare_nf(st.test)
    if c is None or i > emit_idx:
      continue
    l, opr, r = c
    if opr == '<' and l == 'end_time' and r == 'start_time':
      want['end<start'] = True
    if opr == '<' and l == 'start_time' and r == '0':
      want['start<0'] = True
    if opr == '<' and l == 'end_time' and r == '0':
      want['end<0'] = True
  for k, v in want.items():
    ctx.ob('DOM/adjust-reject', fi, loop, v, 'rejection %s raises before the note is emitted' % k if v
           else 'no raise for %s dominates the note emission: a malformed note can be emitted' % k,
           construct='adjust loop rejects %s before notes.add()' % k)


MUTANTS = [
    Mutant('merged total_time not recomputed (the defect fixed in b73b89e)', F, "    cat_seq.total_time = max(seq.total_time for seq in sequences)\n", "", rule='PAIR/merge-scalars'),
    Mutant('held notes lower total_time again (the defect fixed in 0c8a8f3)', F, "      # Never shorten the sequence: a drum note (not an event here) may end\n      # after the last pitched note or pedal event.\n      if time > sequence.total_time:\n        sequence.total_time = time\n", "      sequence.total_time = time\n", rule='PAIR/end-total'),
    Mutant('seed C11_e: drum notes no longer count towards the recomputed total_time', F, "      end_time = max(end_time, note.end_time)\n\n      if not note.is_drum:\n        note.pitch += amount\n", "      if not note.is_drum:\n        end_time = max(end_time, note.end_time)\n        note.pitch += amount\n", rule='PAIR/recomputed-total'),
    Mutant('seed C11_b: total_quantized_steps assigned after the notes (absolute)', F,
           '  qns.total_quantized_steps = quantize_to_step(qns.total_time, steps_per_second)\n  _quantize_notes(qns, steps_per_second)\n\n  return qns\n\n\ndef transpose_note_sequence',
           '  _quantize_notes(qns, steps_per_second)\n  qns.total_quantized_steps = quantize_to_step(qns.total_time, steps_per_second)\n\n  return qns\n\n\ndef transpose_note_sequence', rule='PAIR/steps-total-order'),
    Mutant('quantize: alias instead of deepcopy', F, 'qns = copy.deepcopy(note_sequence)\n\n  qns.quantization_info.steps_per_quarter',
           'qns = note_sequence\n\n  qns.quantization_info.steps_per_quarter', rule='OWN/'),
    Mutant('quantize_absolute: alias instead of deepcopy', F, 'qns = copy.deepcopy(note_sequence)\n  qns.quantization_info.steps_per_second',
           'qns = note_sequence\n  qns.quantization_info.steps_per_second', rule='OWN/'),
    Mutant('split: sort the argument in place', F, 'notes_by_start_time = sorted(\n      list(note_sequence.notes), key=lambda note: note.start_time)\n\n  split_times = [0.0]',
           'note_sequence.notes.sort(key=lambda note: note.start_time)\n  notes_by_start_time = list(note_sequence.notes)\n\n  split_times = [0.0]', rule='OWN/write'),
    Mutant('stretch: return the argument on the 1.0 fast path', F, '  if stretch_factor == 1.0:\n    return stretched_sequence',
           '  if stretch_factor == 1.0:\n    return note_sequence', rule='OWN/return'),
    Mutant('extract: write the boundary time through the original event', F,
           '          containers[subsequence_index].extend([previous_event])\n          containers[subsequence_index][-1].time = 0.0\n      if subsequence_index',
           '          previous_event.time = 0.0\n          containers[subsequence_index].extend([previous_event])\n      if subsequence_index', rule='OWN/write'),
    Mutant('sustain: iterate and edit the input notes', F, '  sequence = copy.deepcopy(note_sequence)\n\n  # Sort all note on/off',
           '  sequence = copy.deepcopy(note_sequence)\n  sequence = note_sequence if not sequence.control_changes else sequence\n\n  # Sort all note on/off', rule='OWN/'),
    Mutant('adjust: clear tempos of the input', F, '  del adjusted_ns.tempos[:]', '  del adjusted_ns.tempos[:]\n  del ns.tempos[:]', rule='OWN/write'),
    Mutant('trim: CopyFrom in the wrong direction', F, '  subsequence = music_pb2.NoteSequence()\n  subsequence.CopyFrom(sequence)\n\n  del subsequence.notes[:]\n  for note in sequence.notes:',
           '  subsequence = music_pb2.NoteSequence()\n  sequence.MergeFrom(subsequence)\n  subsequence.CopyFrom(sequence)\n\n  del subsequence.notes[:]\n  for note in sequence.notes:', rule='OWN/write'),
    Mutant('transpose: copy only when notes are deleted (alias otherwise)', F,
           '  if not in_place:\n    new_ns = music_pb2.NoteSequence()\n    new_ns.CopyFrom(ns)\n    ns = new_ns',
           '  if not in_place and amount:\n    new_ns = music_pb2.NoteSequence()\n    new_ns.CopyFrom(ns)\n    ns = new_ns', rule='OWN/'),
    Mutant('concatenate: merge into the first input', F, '  cat_seq = music_pb2.NoteSequence()\n  for i in range(len(sequences)):',
           '  cat_seq = sequences[0] if sequences else music_pb2.NoteSequence()\n  for i in range(len(sequences)):', rule='OWN/'),
    Mutant('remove_redundant_data: sort the input events', F, '    events.sort(key=lambda e: e.time)\n    for i in range(len(events) - 1, 0, -1):',
           '    events.sort(key=lambda e: e.time)\n    sequence.tempos.sort(key=lambda e: e.time)\n    for i in range(len(events) - 1, 0, -1):', rule='OWN/write'),
    Mutant('expand_section_groups: return the argument when there are no groups', F,
           '  if not sequence.section_groups:\n    return copy.deepcopy(sequence)', '  if not sequence.section_groups:\n    return sequence', rule='OWN/return'),
    Mutant('shift: jitter from random', F, '  shifted.total_time += shift_seconds\n', '  shifted.total_time += shift_seconds + random.random() * 0\n', rule='DET/'),
    Mutant('shift: forget total_time', F, '  shifted.total_time += shift_seconds\n', '  pass\n', rule='PAIR/'),
    Mutant('stretch: total_time scaled by a different operand', F, '  stretched_sequence.total_time *= stretch_factor', '  stretched_sequence.total_time *= 1.0', rule='PAIR/'),
    Mutant('extract: total_time reduction dropped', F,
           '    if (subsequences[subsequence_index].notes[-1].end_time >\n        subsequences[subsequence_index].total_time):\n      subsequences[subsequence_index].total_time = (\n          subsequences[subsequence_index].notes[-1].end_time)',
           '    pass', rule='PAIR/'),
    Mutant('sustain: pedal-off extension without total_time', F,
           '          note.end_time = time\n          if time > sequence.total_time:\n            sequence.total_time = time',
           '          note.end_time = time', rule='PAIR/'),
    Mutant('adjust: reversed-note check moved after emission', F,
           "    if end_time < start_time:\n      raise InvalidTimeAdjustmentError(\n          'Tried to adjust end time to before start time. '\n          'Original start: %f, end %f. New start %f, end %f.' %\n          (note.start_time, note.end_time, start_time, end_time))\n",
           '', rule='DOM/'),
    # equivalent variants: must stay silent
    Mutant('quantize: CopyFrom instead of deepcopy', F, 'qns = copy.deepcopy(note_sequence)\n\n  qns.quantization_info.steps_per_quarter',
           'qns = music_pb2.NoteSequence()\n  qns.CopyFrom(note_sequence)\n\n  qns.quantization_info.steps_per_quarter', expect='silent'),
    Mutant('trim: deepcopy instead of CopyFrom', F, '  subsequence = music_pb2.NoteSequence()\n  subsequence.CopyFrom(sequence)\n\n  del subsequence.notes[:]\n  for note in sequence.notes:',
           '  subsequence = copy.deepcopy(sequence)\n\n  del subsequence.notes[:]\n  for note in sequence.notes:', expect='silent'),
    Mutant('shift: copy moved into a helper', F, '  shifted = music_pb2.NoteSequence()\n  shifted.CopyFrom(sequence)\n\n  # Delete subsequence_info',
           '  def _clone(s):\n    c = music_pb2.NoteSequence()\n    c.CopyFrom(s)\n    return c\n  shifted = _clone(sequence)\n\n  # Delete subsequence_info', expect='silent'),
    Mutant('sustain: loop variable renamed', F, '  for cc in sequence.control_changes:\n    if cc.control_number != sustain_control_number:\n      continue\n    value = cc.control_value',
           '  for ctl in sequence.control_changes:\n    cc = ctl\n    if cc.control_number != sustain_control_number:\n      continue\n    value = cc.control_value', expect='silent'),
    Mutant('transpose: total_time through max()', F, '      end_time = max(end_time, note.end_time)', '      end_time = max(note.end_time, end_time)', expect='silent'),
]

RENAME_FUNCS = [(F, n) for n in own.RETURNS_NEW]

EXPLANATION += (' Additions: PAIR/merge-scalars definite form (a covering scalar copied from one input selected by another field), PAIR/recomputed-total shared with C10.')
EXPLANATION += (' Round 6: ' + "OWN/classified: a new private helper of sequences_lib is analysed through the contract functions that call it; a new public function is 'cannot classify'.")
EXPLANATION += (' Round 7: ' + 'WELLFORMED/no-negative-event-stored and WELLFORMED/reversed-rejected (scenarios shared with C13).')
EXPLANATION += (' Rounds 9-10: ' + 'PAIR/end-total is located when nothing in the loop of an end_time store, and nothing after it, writes total_time.')
EXPLANATION += (' Round 11: ' + 'WELLFORMED/assumes-sorted shared from C12.')
EXPLANATION += (' Round 12: ' + 'PITFALL/previous-wraps (searched position minus one) over the cutting functions.')
