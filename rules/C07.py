"""C07 - event extraction captures the quantized music it is given, step for step (DESIGN.md §4 C07)."""
import ast

from sa import ordr, apicheck, nf, cov, roles, fold, astutil as U
from sa.roles import Canon
from sa.loader import norm_text, dotted
from sa.selftest import Mutant

PROPERTY = 'C07'
PL = 'note_seq/performance_lib.py'
PR = 'note_seq/pianoroll_lib.py'
DL = 'note_seq/drums_lib.py'
CL = 'note_seq/chords_lib.py'
ML = 'note_seq/melodies_lib.py'
LEVEL_TEXT = (
    'Structural necessary conditions of faithful extraction, decided from the source: every traversal of the quantized sequence in the '
    'seven extractors is order-insensitive or sorted by a time/step key with the documented secondary key (iteration-order analysis); '
    'every attribute read on the quantized sequence is a field of the NoteSequence schema (the error paths included), and exactly the '
    'documented exception classes are raised explicitly; performance time shifts are emitted only for a positive distance, split into '
    'full max_shift_steps shifts while more than that remains (emitted amount = subtracted amount) and a remainder equal to what is '
    'left; velocity events are emitted exactly on onsets whose bin differs from the current one; the melody polyphony / gap / bar '
    'alignment relations, the drum grouping by start step and the chord "in force" relations are the stated comparisons. Multiset and '
    'step-for-step equalities over all inputs are not decided. The wrapping index piano_roll[offset - 1] is not reported: since notes are '
    'painted in start order the wrapped cell cannot have been set by an earlier note under the property\'s precondition (see DESIGN.md).')
LEVEL_NOTE = 'Trusted: the quantizer leaves one time signature/tempo on relative-quantized sequences (C12 single-writer rule); velocity bins are checked in C09.'
TECHNIQUE = 'static analysis: iteration-order analysis, schema-typed attribute check, explicit-raise inventory per extractor, guard relations in comparison normal form, emitted/advanced amount agreement, sort-key reading'
DESIGN_REF = 'DESIGN.md section 4 (C07)'
EXPLANATION = ('ORD over the seven extractors; API schema attributes on quantized_sequence in extractor modules; ESC documented classes reachable and no other '
               'explicit raise; SHIFT guard/amount rows of BasePerformance._from_quantized_sequence; VEL emit-on-change; KEYS sort keys; MEL/DRUM/CHORD '
               'relation rows.')
TRUSTED = ['C12 single-writer rule', 'C09 velocity bins']
NOT_DECIDED = ['multiset / step-for-step equality of extracted and original music over all inputs', 'the wrapped store piano_roll[offset - 1] for offset 0 (unobservable under the precondition after the start-order repair)']
ASSUMPTIONS = ['no two notes of one pitch overlap or coincide (the property\'s precondition)']
# rules whose verdict does not depend on how the statements are arranged (semantic analyses); all other rules are shape rules:
# when one of those fails in a function that was restructured relative to reference/signatures.json the verdict is "cannot decide"
ROBUST = ('ORD/traversal', 'API')
FLOORS = {'ORD': 10, 'API': 40, 'ESC': 8, 'SHIFT': 9, 'VEL': 2, 'KEYS': 4, 'MEL': 5, 'DRUM': 4, 'CHORD': 4}

EXTRACTORS = [
    ('performance_lib:BasePerformance._from_quantized_sequence', ['quantized_sequence']),
    ('performance_lib:NotePerformance._from_quantized_sequence', ['quantized_sequence']),
    ('performance_lib:_program_and_is_drum_from_sequence', ['sequence']),
    ('pianoroll_lib:PianorollSequence._from_quantized_sequence', ['quantized_sequence']),
    ('drums_lib:DrumTrack.from_quantized_sequence', ['quantized_sequence']),
    ('chords_lib:ChordProgression.from_quantized_sequence', ['quantized_sequence']),
    ('melodies_lib:Melody.from_quantized_sequence', ['quantized_sequence']),
]
DOCUMENTED = {
    'melodies_lib:Melody.from_quantized_sequence': {'NonIntegerStepsPerBarError', 'PolyphonicMelodyError'},
    'drums_lib:DrumTrack.from_quantized_sequence': {'NonIntegerStepsPerBarError'},
    'chords_lib:ChordProgression.from_quantized_sequence': {'NonIntegerStepsPerBarError', 'CoincidentChordsError'},
    'performance_lib:NotePerformance._from_quantized_sequence': {'TooManyTimeShiftStepsError', 'TooManyDurationStepsError'},
    'performance_lib:BasePerformance._from_quantized_sequence': set(),
    'pianoroll_lib:PianorollSequence._from_quantized_sequence': set(),
}
API_MODULES = ['performance_lib', 'pianoroll_lib', 'drums_lib', 'chords_lib', 'melodies_lib', 'lead_sheets_lib']
NS_PARAMS = ('quantized_sequence', 'note_sequence', 'sequence', 'base_note_sequence')


def E(t):
  return U.E(t)


def has(test, text, env=None, polarity=True):
  try:
    return nf.compare_equal(nf.compare_nf(test, env, polarity), nf.compare_nf(E(text)))
  except nf.NFError:
    return False


def conj(test):
  if isinstance(test, ast.BoolOp) and isinstance(test.op, ast.And):
    out = []
    for v in test.values:
      out.extend(conj(v))
    return out
  return [test]


def rendered_back(ctx):
  """"A Performance rendered back and re-quantized has the same multiset of notes": the rendering half of that clause is decided
  by the rules C06 and C09 own for the three performance renderers - rendered times lie on the step grid with the start step
  entering exactly once (GRID/*, ORIGIN/*), a NOTE_OFF closes one open onset (RENDER/*), and velocity bins and their
  representatives are inverse (VEL/*)."""
  from rules import C06, C09
  for w in ('performance_lib:BasePerformance._to_sequence', 'performance_lib:NotePerformance.to_sequence'):
    C06.grid(ctx, C06.canon_renderer(ctx.func(w)), {})
  C06.note_off_ends_one(ctx, 'RENDER/note-off-ends-one')
  C06.chord_symbols_all_read(ctx, 'CHORD/symbols-all-read')      # "a ChordProgression has the chord in force at every step": a N.C. symbol ends the chord before it
  C09.velocity(ctx)


def zero_is_a_value(ctx):
  """Every function of the extractor modules: an optional instrument / an optional melody event is never tested for truth
  (instrument 0 and pitch 0 are ordinary values)."""
  from sa import pitfalls
  scope = []
  for mn in ('melodies_lib', 'drums_lib', 'chords_lib', 'performance_lib', 'pianoroll_lib'):
    mi = ctx.P.module(mn)
    scope.extend(fi for q, fi in sorted(mi.all_functions.items()) if '<locals>' not in q)
  pitfalls.apply(ctx, 'PITFALL', scope, ['falsy-domain-zero'], {
      'falsy-domain-zero': 'what is extracted then depends on whether an instrument number / a pitch happens to be 0: instrument 0 selects every instrument, a melody note of pitch 0 is not ended'})
  parameters_reach(ctx, scope)


def pitch_zero_is_a_note(ctx, rule='MELODY/pitch-zero-is-a-note'):
  """Melody events are pitches 0..127 or the codes -1 / -2.  Every test in melodies_lib that separates "a pitch" from "a code" by
  comparing an event with MIN_MIDI_PITCH / MAX_MIDI_PITCH is evaluated for the event values 0 and 127 (pitches: the test must hold
  as it does for 60) and -1, -2 (codes: it must come out the other way)."""
  from sa import scenario, pathval
  mi = ctx.P.module('melodies_lib')
  fd = fold.Folder(ctx.P, ctx.S)
  consts = {}
  for nm in ('MIN_MIDI_PITCH', 'MAX_MIDI_PITCH', 'MELODY_NOTE_OFF', 'MELODY_NO_EVENT', 'NUM_SPECIAL_MELODY_EVENTS'):
    try:
      k = fd.module_const(mi, nm)
      if isinstance(k, int):
        consts[nm] = ast.Constant(value=k)
    except Exception:      # pylint: disable=broad-except
      pass
  n = 0
  for q, fi in sorted(mi.all_functions.items()):
    if '<locals>' in q:
      continue
    for c in ast.walk(fi.node):
      if not (isinstance(c, ast.Compare) and any(isinstance(x, ast.Name) and x.id in ('MIN_MIDI_PITCH', 'MAX_MIDI_PITCH') for x in ast.walk(c))):
        continue
      subj = sorted(set(norm_text(x) for x in [c.left] + c.comparators if not isinstance(x, ast.Constant) and norm_text(x) not in consts and
                        (norm_text(x).startswith('self._events[') or isinstance(x, ast.Name))))
      if len(subj) != 1:
        continue
      def at(v):
        return scenario.fold_numeric(pathval.subst(c, dict(consts, **{subj[0]: ast.Constant(value=v)})), {})
      ref = at(60)
      vals = dict((v, at(v)) for v in (0, 127, -1, -2))
      if ref is None or any(x is None for x in vals.values()):
        continue
      n += 1
      wrong = [v for v in (0, 127) if bool(vals[v]) != bool(ref)] + [v for v in (-1, -2) if bool(vals[v]) == bool(ref)]
      # a comparison that does not separate pitches from codes at all (a plain range check against a parameter, say) is not judged
      if bool(vals[-1]) == bool(ref) and bool(vals[-2]) == bool(ref) and bool(vals[0]) == bool(ref) and bool(vals[127]) == bool(ref):
        continue
      ctx.ob(rule, fi, c, not wrong, '`%s` treats 0 and 127 like 60 and -1, -2 the other way' % norm_text(c)[:50] if not wrong else
             '`%s` in %s treats the event value %s %s: pitch %s is an ordinary note of a melody (and -1 / -2 are the only codes)' % (
                 norm_text(c)[:60], fi.qualname, wrong[0], 'like a code, not like a pitch' if wrong[0] >= 0 else 'like a pitch', wrong[0]), construct='%s: %s separates pitches from codes' % (fi.qualname, norm_text(c)[:40]),
             definite=True)
  ctx.count('melody_pitch_tests', n)


def pad_to_bar(ctx, rule='PAD/next-bar-line'):
  """"pad_end: the end is padded so that the length is a multiple of a bar": the closing statements of Melody / DrumTrack
  extraction, evaluated for lengths 0, 1, 15, 16, 17, 32, 33 at 16 steps per bar, must ask for 0, 16, 16, 16, 32, 32, 48 steps (the
  smallest multiple that holds the events), and for the unpadded length without pad_end."""
  from sa import pathval, scenario
  for fq in ('melodies_lib:Melody.from_quantized_sequence', 'drums_lib:DrumTrack.from_quantized_sequence'):
    fi = ctx.func(fq)
    tail = []
    body_ = fi.node.body
    # the closing block may sit under `if self._events:` (nothing to pad when nothing was extracted)
    while body_ and isinstance(body_[-1], ast.If) and not body_[-1].orelse and any(isinstance(c_, ast.Call) and norm_text(c_.func) == 'self.set_length' for c_ in ast.walk(body_[-1])) and \
        not any(isinstance(c_, ast.Call) and norm_text(c_.func) == 'self.set_length' for s_ in body_[-1].body[-1:] for c_ in ast.walk(s_) if isinstance(s_, ast.If)):
      body_ = body_[-1].body
    for st in reversed(body_):
      simple = isinstance(st, (ast.Assign, ast.AugAssign)) or (isinstance(st, ast.Expr) and isinstance(st.value, ast.Call)) or \
          (isinstance(st, ast.If) and all(isinstance(x, (ast.Assign, ast.AugAssign)) for x in st.body + st.orelse))
      if not simple:
        break
      tail.insert(0, st)
    cons = '%s: padded length' % fi.qualname
    try:
      ps = pathval.paths(tail, effects=True)
    except pathval.PathError as e:
      ps = None
      why = 'cannot classify: the closing statements of %s are not a straight-line block (%s)' % (fi.qualname, e)
    args = []
    for conds, env, _end in ps or []:
      calls = env.get(pathval.CALLS)
      sl = [c for c in (calls.elts if calls is not None else []) if norm_text(c.func) == 'self.set_length' and len(c.args) == 1]
      if sl:
        args.append((conds, sl[-1].args[0]))
    if not args:
      why = why if ps is None else 'cannot classify: %s does not end with self.set_length(<length>) after straight-line statements' % fi.qualname
      ctx.ob(rule, fi, fi.node, False, why, construct=cons, unknown=why)
      continue
    # the bar length is the one free local of the length expressions (whatever it is called)
    free = set(n_.id for _c, a_ in args for n_ in ast.walk(a_) if isinstance(n_, ast.Name) and n_.id not in ('len', 'self', 'pad_end', 'int', 'max', 'min', 'abs'))
    bar_name = free.pop() if len(free) == 1 else 'steps_per_bar'
    for pad in (1, 0):
      for L in (0, 1, 15, 16, 17, 32, 33):
        want = -(-L // 16) * 16 if pad else L
        sub = {'len(self)': nf.rat(E(str(L))), 'len(self._events)': nf.rat(E(str(L))), bar_name: nf.rat(E('16')), 'pad_end': nf.rat(E(str(pad)))}
        got, stuck = None, None
        for conds, arg in args:
          vs = [scenario.fold_numeric(t, sub, dyadic=True) for t, _p in conds]
          if any(v is None for v in vs):
            stuck = ', '.join(norm_text(t) for (t, _p), v in zip(conds, vs) if v is None)
            break
          if all(bool(v) == p for v, (_t, p) in zip(vs, conds)):
            got = scenario.fold_numeric(arg, sub, dyadic=True)
            if got is None:
              stuck = norm_text(arg)
            break
        c2 = '%s: length asked for with %d events, pad_end=%s' % (fi.qualname, L, bool(pad))
        if got is None:
          why = 'cannot classify: %s cannot be evaluated for a track of %d steps' % (stuck or 'the closing block', L)
          ctx.ob(rule, fi, tail[-1], False, why, construct=c2, unknown=why)
        else:
          ok = got == want
          ctx.ob(rule, fi, tail[-1], ok, 'a track of %d steps is set to %d steps' % (L, want) if ok else
                 'with pad_end=%s and 16 steps per bar a track of %d steps is set to %s steps, not %d (%s)' % (
                     bool(pad), L, got, want, 'the smallest whole number of bars that holds it' if pad else 'its own length'), construct=c2, definite=True)


def parameters_reach(ctx, scope=None):
  from sa import pitfalls
  if scope is None:
    scope = []
    for mn in ('melodies_lib', 'drums_lib', 'chords_lib', 'performance_lib', 'pianoroll_lib'):
      scope.extend(fi for q, fi in sorted(ctx.P.module(mn).all_functions.items()) if '<locals>' not in q)
  pitfalls.apply(ctx, 'PITFALL', [fi for fi in scope if fi.cls is not None], ['unforwarded-parameter', 'dead-parameter'], {
      'dead-parameter': 'an argument of the extraction (a limit, an instrument, a start step) that nothing reads cannot shape what is extracted',
      'unforwarded-parameter': 'what is extracted (which instrument, which program / drum flag, which limits) then follows the helper\'s default, not the arguments of the extraction'})


def run(ctx):
  zero_is_a_value(ctx)
  pad_to_bar(ctx)
  pitch_zero_is_a_note(ctx)
  rendered_back(ctx)
  order(ctx)
  roll_gap_index(ctx)
  roll_pitch_range(ctx)
  api(ctx)
  escapes(ctx)
  shifts(ctx)
  keys(ctx)
  melody(ctx)
  drums(ctx)
  drum_gap(ctx)
  note_perf_limit(ctx)
  metric_limit(ctx)
  chords(ctx)


def roll_gap_index(ctx, rule='ROLL/gap-index-in-range'):
  """Location-independent: the split_repeats gap clears the step *before* a note, row `offset - 1` of the roll.  For a note that
  starts on the first row that index is -1, which numpy reads as the LAST row: the gap erases the pitch from the final step of the
  sequence (finding F26).  Every store into the roll whose row index is `O - 1` must be reached only when 0 < O (equivalently
  1 <= O) is known for that same O - a guard on a different quantity (the absolute step, say) does not protect the index."""
  fi = ctx.func('pianoroll_lib:PianorollSequence._from_quantized_sequence')
  fn = fi.node
  one = nf.Rat(nf.Poly.const(1))
  n = 0
  for st in U.walk_stmts(fn):
    for tgt, val, op in U.store_targets(st):
      if not (isinstance(tgt, ast.Subscript) and isinstance(tgt.slice, ast.Tuple) and tgt.slice.elts and not isinstance(tgt.slice.elts[0], ast.Slice)):
        continue
      try:
        row = nf.rat(U.expand_locals(fn, tgt.slice.elts[0], at=st))
      except nf.NFError:
        continue
      p = row.poly()
      if p is None or p.t.get((), 0) != -1 or p.is_const():
        continue           # not of the form O - 1
      off = row + one
      guarded = False
      for t, pol in U.path_conditions(fn, st):
        try:
          c = nf.compare_nf(U.expand_locals(fn, t, at=st), polarity=pol)
        except nf.NFError:
          continue
        if c is None:
          continue
        e, sym = c
        le = e + one if sym == '<' else (e if sym == '<=' else None)     # integer comparison as  le <= 0
        if le is not None and le.equals(one - off):
          guarded = True
      n += 1
      ctx.ob(rule, fi, st, guarded, 'row %s is written only when 0 < %r' % (norm_text(tgt.slice.elts[0]), off) if guarded else
             '%s writes row %s = (%r) - 1 without 0 < %r being established: for a note on the first row the index is -1, numpy\'s last row, and the pitch is erased from the '
             'final step of the sequence' % (norm_text(st), norm_text(tgt.slice.elts[0]), off, off), construct='gap row index is not negative', definite=True)
  return n


def roll_pitch_range(ctx, rule='ROLL/pitch-range-inclusive'):
  """Location-independent, by boundary scenarios (sa.scenario): "exactly the set of sounding in-range pitches" with min_pitch and
  max_pitch *inclusive* (documented).  The statement that paints a note into the roll must be reachable for a note whose pitch
  equals min_pitch and for one whose pitch equals max_pitch, and unreachable for min_pitch - 1 and max_pitch + 1.  The
  conditions on the way (guards, early `continue`s, the filter of a pre-selected note list) are evaluated under each of the
  four equalities; a verdict is drawn only where the evaluation is definite."""
  from sa import scenario
  fi = ctx.func('pianoroll_lib:PianorollSequence._from_quantized_sequence')
  fn = fi.node
  for st in U.walk_stmts(fn):
    paints = [t for t, v, op in U.store_targets(st) if op == 'store' and isinstance(t, ast.Subscript) and isinstance(t.slice, ast.Tuple) and
              any(isinstance(e, ast.Slice) for e in t.slice.elts) and U.const_value(v) in (1, True)]
    if not paints:
      continue
    loops = [l for l in U.enclosing_loops(fn, st) if isinstance(l, ast.For) and isinstance(l.target, ast.Name)]
    if not loops:
      continue
    v = loops[-1].target.id
    conds = scenario.reach_conditions(fn, st)
    for what, value, must in (('max_pitch', 'max_pitch', True), ('min_pitch', 'min_pitch', True),
                              ('max_pitch + 1', 'max_pitch + 1', False), ('min_pitch - 1', 'min_pitch - 1', False)):
      sb = scenario.subst_of([('%s.pitch' % v, value)])
      vals = [(None if scenario.tv(t, sb) is None else (scenario.tv(t, sb) == p), t) for t, p in conds]
      decided = [x for x, _t in vals if x is not None]
      on_pitch_undecided = [t for x, t in vals if x is None and ('%s.pitch' % v) in norm_text(t)]
      if must:
        if not decided:
          continue
        ok = all(decided)           # no condition on the way excludes this pitch
      else:
        if any(x is False for x in decided):
          ok = True
        elif decided and not on_pitch_undecided:
          ok = False                # every condition that mentions the pitch lets it through
        else:
          continue
      if True:
        ctx.ob(rule, fi, st, ok, 'a note with pitch %s is %s' % (what, 'painted' if must else 'ignored') if ok else
               'a note whose pitch is %s is %s: the range [min_pitch, max_pitch] is inclusive at both ends (%s)' % (
                   what, 'never painted into the roll' if must else 'painted into the roll although it is outside the range',
                   ' and '.join(('' if p else 'not ') + '(' + norm_text(t) + ')' for t, p in conds if scenario.tv(t, scenario.subst_of([('%s.pitch' % v, value)])) is not None)),
               construct='pitch %s' % what, definite=True)


def order(ctx):
  for fq, params in EXTRACTORS:
    fi = ctx.func(fq)
    o = ordr.FuncORD(fi, params)
    for s in o.run():
      if s.kind == 'sorted-traversal':
        ctx.ob('ORD/sorted-traversal', fi, s.stmt, True, 'iterates %s' % s.prov.detail, construct=s.what)
        continue
      reasons = list(s.reasons)
      if reasons and s.kind == 'positional' and norm_text(s.node).endswith('.time_signatures[0]') and \
          any((dotted(c.func) or '').split('.')[-1] in ('assert_is_relative_quantized_sequence', 'steps_per_bar_in_quantized_sequence') for c in U.calls_in(fi.node)):
        reasons = []    # singleton after quantize_note_sequence (C12 single-writer rule)
      ctx.ob('ORD/' + s.kind, fi, s.stmt if s.kind == 'traversal' else s.node, not reasons,
             'order-insensitive' if not reasons else '; '.join(reasons) + ' [storage order of %s]' % s.prov.detail, construct=s.what,
             unknown=ordr.undecided_reason(s, reasons))


def api(ctx):
  n = 0
  for mn in API_MODULES:
    mi = ctx.P.module(mn)
    for fi in mi.all_functions.values():
      typed = {p: 'NoteSequence' for p in fi.params() if p in NS_PARAMS}
      if not typed:
        continue
      # majority rule: the parameter is NoteSequence-typed if most of its attribute reads are schema fields
      for p in list(typed):
        attrs = [a.attr for a in ast.walk(fi.node) if isinstance(a, ast.Attribute) and isinstance(a.value, ast.Name) and a.value.id == p]
        good = sum(1 for a in attrs if a in ctx.S.ns.fields)
        if len(attrs) < 2 or good * 2 < len(attrs):
          typed.pop(p)
      if not typed:
        continue
      for (node, ok, why) in apicheck.check_function(ctx.S, fi, typed):
        n += 1
        ctx.ob('API/schema-attribute', fi, node, ok, why)
  ctx.require(n >= 40, 'only %d schema attribute reads found in the extractor modules' % n)


def escapes(ctx):
  for fq, want in DOCUMENTED.items():
    fi = ctx.func(fq)
    seen = {}
    for r in ast.walk(fi.node):
      if isinstance(r, ast.Raise) and r.exc is not None:
        cls = (dotted(r.exc.func) if isinstance(r.exc, ast.Call) else dotted(r.exc)) or '?'
        seen.setdefault(cls.split('.')[-1], r)
    for cls, r in sorted(seen.items()):
      ok = cls in want
      ctx.ob('ESC/class', fi, r, ok, '%s raises %s (documented)' % (fi.qualname, cls) if ok else '%s raises %s, which its documentation does not list (%s)' % (fi.qualname, cls, sorted(want)),
             construct='%s raises %s' % (fi.qualname, cls))
    for cls in sorted(want):
      ok = cls in seen
      ctx.ob('ESC/reachable', fi, fi.node, ok, '%s has a raise site for %s' % (fi.qualname, cls) if ok else '%s can no longer raise the documented %s' % (fi.qualname, cls),
             construct='%s can raise %s' % (fi.qualname, cls))


def velocity_onsets(ctx, rule='VEL/onsets-only'):
  """Location-independent (shared with C06): see the comment inside."""
  fi = ctx.func('performance_lib:BasePerformance._from_quantized_sequence')
  loop = next((n for n in fi.node.body if isinstance(n, ast.For) and isinstance(n.target, ast.Tuple) and len(n.target.elts) == 3), None)
  if loop is None:
    return
  step, idx, off = [e.id for e in loop.target.elts]
  # location-independent form of the same contract: the tracked bin is a property of the last NOTE_ON, so every update of it and
  # every VELOCITY event lie on paths where the event is an onset (enclosing tests and earlier `if is_offset: ... continue` exits)
  binvar = [s_.targets[0].id for s_ in U.walk_stmts(loop) if isinstance(s_, ast.Assign) and isinstance(s_.targets[0], ast.Name) and isinstance(s_.value, ast.Call) and
            dotted(s_.value.func) == 'velocity_to_bin']
  state = []
  for s_ in U.walk_stmts(loop):
    if isinstance(s_, ast.Assign) and isinstance(s_.targets[0], ast.Name) and isinstance(s_.value, ast.Name) and s_.value.id in binvar and s_.targets[0].id not in binvar:
      state.append(s_)
  emits = [s_ for s_ in U.walk_stmts(loop) if isinstance(s_, ast.Expr) and 'PerformanceEvent.VELOCITY' in norm_text(s_)]
  if len(state) >= 1 and len(emits) >= 1:
    # what the third component is for a note end / a note start: read off the producers (a tuple that begins with the note's
    # quantized end / start step ends with the marker - a boolean in one spelling, the event type in another)
    from sa import scenario, fold
    marks = {}
    for t in ast.walk(fi.node):
      if isinstance(t, ast.Tuple) and len(t.elts) >= 2 and isinstance(t.elts[0], ast.Attribute) and t.elts[0].attr in ('quantized_end_step', 'quantized_start_step'):
        marks[t.elts[0].attr] = t.elts[-1]
    consts = {}
    try:
      cc = fold.Folder(ctx.P, ctx.S).class_consts(ctx.cls('performance_lib:PerformanceEvent'))
      consts = dict(('PerformanceEvent.%s' % k, nf.rat(E(repr(v)))) for k, v in cc.items() if isinstance(v, int) and not isinstance(v, bool))
    except Exception:      # pylint: disable=broad-except
      consts = {}

    def mark_value(e):
      if isinstance(e, ast.Constant) and isinstance(e.value, bool):
        return nf.rat(E('1' if e.value else '0'))
      return consts.get(norm_text(e))
    offv = mark_value(marks['quantized_end_step']) if 'quantized_end_step' in marks else None
    for s_ in state + emits:
      conds = [(t, pol) for (t, pol) in U.path_conditions(fi.node, s_, stop_at=loop) if any(isinstance(x, ast.Name) and x.id == off for x in ast.walk(t))]
      cons = '%s only for onsets' % ('bin update' if s_ in state else 'VELOCITY event')
      if offv is None:
        why = 'cannot classify: the marker of a note end in the event tuples was not identified'
        ctx.ob(rule, fi, s_, False, why, construct=cons, unknown=why)
        continue
      sub = dict(consts)
      sub[off] = offv
      r = scenario.tv_all(conds, sub) if conds else True
      if r is False:
        ctx.ob(rule, fi, s_, True, 'unreachable for a note end (%s = %s)' % (off, norm_text(marks['quantized_end_step'])), construct=cons)
      elif r is True:
        ctx.ob(rule, fi, s_, False, '`%s` can execute for a note-off (%s): the tracked velocity bin then follows a note that has ended' % (
            norm_text(s_)[:70], 'no condition on the path to it reads %s' % off if not conds else 'its conditions hold for %s = %s' % (off, norm_text(marks['quantized_end_step']))),
               construct=cons, definite=True)
      else:
        why = 'cannot classify: the conditions on %s before `%s` cannot be evaluated for a note end' % (off, norm_text(s_)[:50])
        ctx.ob(rule, fi, s_, False, why, construct=cons, unknown=why)


def shifts(ctx):
  fi = ctx.func('performance_lib:BasePerformance._from_quantized_sequence')
  loop = next((n for n in fi.node.body if isinstance(n, ast.For) and isinstance(n.target, ast.Tuple) and len(n.target.elts) == 3), None)
  ctx.require(loop is not None, 'BasePerformance._from_quantized_sequence: event loop not found')
  step, idx, off = [e.id for e in loop.target.elts]
  # the running step: the name assigned `= step` inside the loop
  cur = [s.targets[0].id for s in U.walk_stmts(loop) if isinstance(s, ast.Assign) and isinstance(s.targets[0], ast.Name) and norm_text(s.value) == step]
  ctx.require(len(set(cur)) == 1, 'BasePerformance._from_quantized_sequence: running step variable not found')
  cur = cur[0]
  env = {step: E('STEP'), cur: E('CUR')}
  g = loop.body[0]
  ok = isinstance(g, ast.If) and has(g.test, 'STEP > CUR', env)
  ctx.ob('SHIFT/positive-only', fi, g, ok, 'a shift is emitted only when the event lies after the current step' if ok else 'time shifts are not guarded by step > current_step (zero or negative shifts can be emitted)')
  wh = next((s for s in (g.body if isinstance(g, ast.If) else []) if isinstance(s, ast.While)), None)
  ok = wh is not None and has(wh.test, 'STEP > CUR + max_shift_steps', env)
  ctx.ob('SHIFT/split-guard', fi, wh or g, ok, 'full shifts are emitted while more than max_shift_steps remain' if ok else
         'the splitting loop does not run while step > current_step + max_shift_steps: a shift larger than max_shift_steps (or a zero remainder) can be emitted')
  ok = False
  if wh is not None:
    vals = [k.value for c in U.calls_in(wh) if dotted(c.func) == 'PerformanceEvent' for k in c.keywords if k.arg == 'event_value']
    adv = [s for s in wh.body if isinstance(s, ast.AugAssign) and norm_text(s.target) == cur and isinstance(s.op, ast.Add)]
    ok = len(vals) == 1 and len(adv) == 1 and norm_text(vals[0]) == 'max_shift_steps' and norm_text(adv[0].value) == 'max_shift_steps'
  ctx.ob('SHIFT/full-amount', fi, wh or g, ok, 'each full shift emits max_shift_steps and advances by the same amount' if ok else 'the emitted full shift and the amount the current step advances by differ')
  rem = []
  if isinstance(g, ast.If):
    for s in g.body:
      if isinstance(s, ast.Expr):
        rem += [k.value for c in U.calls_in(s) if dotted(c.func) == 'PerformanceEvent' for k in c.keywords if k.arg == 'event_value']
  ok = False
  if len(rem) == 1:
    try:
      v = rem[0]
      inner = v.args[0] if isinstance(v, ast.Call) and dotted(v.func) == 'int' and v.args else v
      inner = cov.resolve_value(fi.node, inner, g.body[-1]) if isinstance(inner, ast.Name) else inner
      ok = nf.Builder(env, strip=('int', 'float')).rat(inner).equals(nf.rat(E('STEP - CUR')))
    except nf.NFError:
      ok = False
  ctx.ob('SHIFT/remainder', fi, g, ok, 'the last shift is exactly the remaining distance' if ok else 'the remainder shift is not step - current_step')
  last = g.body[-1] if isinstance(g, ast.If) else None
  ok = isinstance(last, ast.Assign) and norm_text(last.targets[0]) == cur and norm_text(last.value) == step
  ctx.ob('SHIFT/arrive', fi, last or g, ok, 'after shifting the current step is the event step' if ok else 'the current step is not set to the event step after shifting')
  types = [k.value for c in U.calls_in(g) if dotted(c.func) == 'PerformanceEvent' for k in c.keywords if k.arg == 'event_type'] if isinstance(g, ast.If) else []
  ok = bool(types) and all(norm_text(t) == 'PerformanceEvent.TIME_SHIFT' for t in types)
  ctx.ob('SHIFT/type', fi, g, ok, 'shift events are TIME_SHIFT' if ok else 'a shift is emitted with another event type')
  # velocity: emitted iff onset and bin != current
  vel = None
  for s in U.walk_stmts(loop):
    if isinstance(s, ast.If) and any('PerformanceEvent.VELOCITY' in norm_text(x) for x in s.body):
      vel = s
  okv = False
  if vel is not None:
    parts = conj(vel.test)
    names = [norm_text(p) for p in parts]
    curbin = [s.targets[0].id for s in vel.body if isinstance(s, ast.Assign) and isinstance(s.targets[0], ast.Name)]
    okv = ('not %s' % off) in names and len(curbin) == 1 and any(has(p, 'A != B', {curbin[0]: E('B'), norm_text(vel.body[0].value) if isinstance(vel.body[0], ast.Assign) else 'x': E('A')}) for p in parts)
  ctx.ob('VEL/emit-on-change', fi, vel or loop, okv, 'a VELOCITY event is emitted exactly for onsets whose bin differs from the current bin, which it then becomes' if okv else
         'velocity events are not emitted under "onset and bin != current bin" with the current bin updated')
  velocity_onsets(ctx)
  vb = [c for c in U.calls_in(loop) if dotted(c.func) == 'velocity_to_bin']
  ok = len(vb) == 1 and norm_text(vb[0].args[1]) == 'num_velocity_bins' and norm_text(vb[0].args[0]).endswith('.velocity')
  ctx.ob('VEL/bin-function', fi, vb[0] if vb else loop, ok, 'bins come from velocity_to_bin(note.velocity, num_velocity_bins)' if ok else 'the velocity bin is not velocity_to_bin(note.velocity, num_velocity_bins)')
  # note on/off events carry the pitch of the indexed note
  ev = [c for c in U.calls_in(loop) if dotted(c.func) == 'PerformanceEvent' and any(k.arg == 'event_value' and norm_text(k.value).endswith('.pitch') for k in c.keywords)]
  ok = len(ev) == 1
  ctx.ob('SHIFT/note-events', fi, ev[0] if ev else loop, ok, 'one NOTE_ON/NOTE_OFF event with the note\'s pitch per onset/offset' if ok else 'note on/off events do not carry the pitch of their note')


def _sort_key(fi, var_hint):
  for c in U.calls_in(fi.node):
    if dotted(c.func) == 'sorted':
      key = next((k.value for k in c.keywords if k.arg == 'key'), None)
      if key is not None:
        yield c, key


def keys(ctx):
  want = {
      'melodies_lib:Melody.from_quantized_sequence': ('(N.quantized_start_step, -N.pitch)', 'start step, then highest pitch first (the polyphony rule keeps the first note of a step)'),
      'performance_lib:BasePerformance._from_quantized_sequence': ('(N.start_time, N.pitch)', 'start time, then pitch'),
      'performance_lib:NotePerformance._from_quantized_sequence': ('(N.start_time, N.pitch)', 'start time, then pitch'),
      'chords_lib:ChordProgression.from_quantized_sequence': ('N.quantized_step', 'quantized step'),
  }
  for fq, (expect, doc) in want.items():
    fi = ctx.func(fq)
    found = False
    for c, key in _sort_key(fi, None):
      if isinstance(key, ast.Lambda) and len(key.args.args) == 1:
        p = key.args.args[0].arg
        # the required components lead the key; further components only break ties among notes equal in them
        comps = [norm_text(e).replace(p + '.', 'N.') for e in (key.body.elts if isinstance(key.body, ast.Tuple) else [key.body])]
        wanted = [norm_text(e) for e in (U.E(expect).elts if isinstance(U.E(expect), ast.Tuple) else [U.E(expect)])]
        if comps[:len(wanted)] == wanted:
          found = True
          ctx.ob('KEYS/sort-key', fi, c, True, 'sorted by %s' % doc, construct='%s sort key' % fi.qualname)
    if not found:
      ctx.ob('KEYS/sort-key', fi, fi.node, False, '%s does not sort its input by %s' % (fi.qualname, doc), construct='%s sort key' % fi.qualname)


def melody(ctx):
  fi = ctx.func('melodies_lib:Melody.from_quantized_sequence')
  fi = Canon(fi, roles.discover(fi, {
      'steps_per_bar': lambda fn: sorted(set(t.id for s in U.walk_stmts(fn) if isinstance(s, ast.Assign) and isinstance(s.value, ast.Call) and dotted(s.value.func) == 'int'
                                              for t in s.targets if isinstance(t, ast.Name))),
  }, required=False))
  fn = fi.node
  loop = next((n for n in fn.body if isinstance(n, ast.For)), None)
  ctx.require(loop is not None, 'Melody.from_quantized_sequence: note loop not found')
  v = loop.target.id
  # bar alignment
  ms = [s for s in fn.body if isinstance(s, ast.Assign) and isinstance(s.targets[0], ast.Name) and '% steps_per_bar' in norm_text(s.value)]
  ok = False
  if ms:
    try:
      val = ms[0].value
      ok = isinstance(val, ast.BinOp) and isinstance(val.op, ast.Sub) and norm_text(val.left).endswith('[0].quantized_start_step') and \
          isinstance(val.right, ast.BinOp) and isinstance(val.right.op, ast.Mod) and norm_text(val.right.right) == 'steps_per_bar' and \
          nf.rat(val.right.left).equals(nf.rat(val.left) - nf.rat(E('search_start_step')))
    except nf.NFError:
      ok = False
  ctx.ob('MEL/bar-alignment', fi, ms[0] if ms else fn, ok, 'the melody starts at the bar (relative to search_start_step) of its first note' if ok else
         'melody_start_step is not first_start - (first_start - search_start_step) % steps_per_bar')
  start = ms[0].targets[0].id if ms else 'melody_start_step'
  # polyphony rule
  dist = {}
  for s in loop.body:
    if isinstance(s, ast.Assign) and isinstance(s.targets[0], ast.Name) and isinstance(s.value, ast.BinOp) and isinstance(s.value.op, ast.Sub):
      dist[s.targets[0].id] = s.value
  chain = next((s for s in loop.body if isinstance(s, ast.If) and isinstance(s.test, ast.Compare) and U.const_value(s.test.comparators[0]) == 0 and
                isinstance(s.test.left, ast.Name) and s.test.left.id in dist), None)
  ok = False
  if chain is not None:
    on = chain.test.left.id
    same = isinstance(chain.test.ops[0], ast.Eq)
    inner = chain.body[0] if chain.body and isinstance(chain.body[0], ast.If) else None
    keep = inner is not None and norm_text(inner.test) == 'ignore_polyphonic_notes' and isinstance(inner.body[-1], ast.Continue) and \
        any(isinstance(x, ast.Raise) and 'PolyphonicMelodyError' in norm_text(x) for x in inner.orelse)
    neg = chain.orelse and isinstance(chain.orelse[0], ast.If) and has(chain.orelse[0].test, '%s < 0' % on) and any(isinstance(x, ast.Raise) for x in chain.orelse[0].body)
    ok = same and keep and bool(neg)
  ctx.ob('MEL/polyphony', fi, chain or loop, ok, 'a second note on an occupied step is skipped (highest first) or raises PolyphonicMelodyError; a note before the last onset raises' if ok else
         'the polyphony rule is not "same onset step -> skip if ignore_polyphonic_notes else raise; earlier step -> raise"')
  # location-independent: the bar length used for the gap is the one of *this* sequence, i.e. it is read after
  # self._steps_per_bar has been set for this call (before that the object still holds the default / a previous value)
  top = list(fn.body)
  sidx = next((i for i, s_ in enumerate(top) if isinstance(s_, ast.Assign) and any(norm_text(t) == 'self._steps_per_bar' for t in s_.targets)), None)
  if sidx is not None:
    for i, s_ in enumerate(top):
      for b_ in ast.walk(s_):
        if isinstance(b_, ast.BinOp) and isinstance(b_.op, ast.Mult) and any(isinstance(x, ast.Name) and x.id == 'gap_bars' for x in (b_.left, b_.right)):
          other = b_.right if isinstance(b_.left, ast.Name) and b_.left.id == 'gap_bars' else b_.left
          stale = i < sidx and isinstance(other, ast.Attribute) and other.attr in ('steps_per_bar', '_steps_per_bar')
          ctx.ob('MEL/gap-bar-length', fi, b_, not stale, 'the gap length uses the bar length of this sequence' if not stale else
                 '%s is computed before self._steps_per_bar is set for this sequence: the gap is measured in bars of the previous / default length' % norm_text(b_),
                 construct='gap_bars * steps per bar of this sequence', definite=True)
  gap = next((s for s in loop.body if isinstance(s, ast.If) and isinstance(s.body[-1], ast.Break)), None)
  ok = False
  if gap is not None:
    parts = conj(gap.test)
    ok = any(has(p, 'OFF >= gap_bars * steps_per_bar', {n: E('OFF') for n in dist}) for p in parts) and any(norm_text(p) == 'len(self)' for p in parts)
  ctx.ob('MEL/gap', fi, gap or loop, ok, 'the melody ends at the first gap of gap_bars bars after the last note-off' if ok else 'the gap rule is not "off_distance >= gap_bars * steps_per_bar -> stop"')
  add = [c for c in U.calls_in(loop) if norm_text(c.func) == 'self._add_note']
  ok = len(add) == 2 and all(norm_text(c.args[0]) == '%s.pitch' % v for c in add)
  idx_ok = False
  try:
    idx_ok = all(nf.Builder({k: d for k, d in dist.items()}).rat(c.args[1]).equals(nf.rat(E('%s.quantized_start_step - %s' % (v, start)))) and
                 nf.Builder({k: d for k, d in dist.items()}).rat(c.args[2]).equals(nf.rat(E('%s.quantized_end_step - %s' % (v, start)))) for c in add)
  except nf.NFError:
    idx_ok = False
  ctx.ob('MEL/note-placement', fi, add[0] if add else loop, ok and idx_ok, 'notes are placed at their steps relative to the melody start' if ok and idx_ok else
         'notes are not placed at (start_step - melody_start, end_step - melody_start)')
  flt = [n for n in ast.walk(fn) if isinstance(n, ast.ListComp) and norm_text(n.generators[0].iter).endswith('.notes')]
  ok = len(flt) == 1 and any(has(t, 'N.instrument == instrument', {flt[0].generators[0].target.id: E('N')}) for t in conj(flt[0].generators[0].ifs[0]) if isinstance(t, ast.Compare)) if flt and flt[0].generators[0].ifs else False
  ok2 = flt and any(has(t, 'N.quantized_start_step >= search_start_step', {flt[0].generators[0].target.id: E('N')}) for t in conj(flt[0].generators[0].ifs[0]) if isinstance(t, ast.Compare)) if flt and flt[0].generators[0].ifs else False
  ctx.ob('MEL/selection', fi, flt[0] if flt else fn, bool(ok and ok2), 'notes of the instrument starting at or after search_start_step are considered' if ok and ok2 else
         'the note selection is not "instrument == instrument and start >= search_start_step"')
  strip = [s for s in fn.body if isinstance(s, ast.If) and 'MELODY_NOTE_OFF' in norm_text(s.test) and any(isinstance(x, ast.Delete) for x in s.body)]
  ctx.ob('MEL/no-trailing-off', fi, strip[0] if strip else fn, len(strip) == 1, 'a trailing note-off is stripped' if strip else 'the final note-off is not stripped (the canonical form has none)')


def drums(ctx):
  fi = ctx.func('drums_lib:DrumTrack.from_quantized_sequence')
  fn = fi.node
  grp = [s for s in U.walk_stmts(fn) if isinstance(s, ast.Expr) and isinstance(s.value, ast.Call) and isinstance(s.value.func, ast.Attribute) and s.value.func.attr == 'append' and
         isinstance(s.value.func.value, ast.Subscript) and norm_text(s.value.func.value.slice).endswith('.quantized_start_step')]
  ctx.ob('DRUM/grouping', fi, grp[0] if grp else fn, len(grp) == 1, 'drum notes are grouped by their start step' if grp else 'drum notes are not grouped by quantized_start_step')
  srt = [c for c in U.calls_in(fn) if dotted(c.func) == 'sorted' and '.items()' in norm_text(c)]
  ok = len(srt) == 1 and any(k.arg == 'key' and norm_text(k.value) in ('operator.itemgetter(0)', 'lambda kv: kv[0]') for k in srt[0].keywords)
  ctx.ob('DRUM/sorted-by-step', fi, srt[0] if srt else fn, ok, 'the groups are visited in step order' if ok else 'the step groups are not sorted by step')
  flt = [n for n in ast.walk(fn) if isinstance(n, ast.ListComp) and norm_text(n.generators[0].iter).endswith('.notes')]
  t = norm_text(flt[0].generators[0].ifs[0]) if flt and flt[0].generators[0].ifs else ''
  okq = bool(flt and flt[0].generators[0].ifs) and any(has(c, 'N.quantized_start_step >= search_start_step', {flt[0].generators[0].target.id: E('N')})
                                                      for c in conj(flt[0].generators[0].ifs[0]) if isinstance(c, ast.Compare))
  ok = 'is_drum or ignore_is_drum' in t and '.velocity' in t and okq
  ctx.ob('DRUM/selection', fi, flt[0] if flt else fn, ok, 'drum (or all, if ignore_is_drum) notes with non-zero velocity from search_start_step on' if ok else 'the drum note selection changed: %s' % t)
  loop = next((n for n in fn.body if isinstance(n, ast.For) and isinstance(n.target, ast.Tuple)), None)
  ok = False
  if loop is not None:
    fs = [s for s in loop.body if isinstance(s, ast.Assign) and isinstance(s.value, ast.Call) and dotted(s.value.func) == 'frozenset']
    st = [s for s in loop.body if isinstance(s, ast.Assign) and isinstance(s.targets[0], ast.Subscript) and norm_text(s.targets[0].value) == 'self._events']
    sl = [c for c in U.calls_in(loop) if norm_text(c.func) == 'self.set_length']
    ok = len(fs) == 1 and '.pitch' in norm_text(fs[0].value) and len(st) == 1 and norm_text(st[0].value) == norm_text(fs[0].targets[0]) and len(sl) == 1 and \
        nf.rat(sl[0].args[0]).equals(nf.rat(st[0].targets[0].slice) + nf.rat(E('1')))
  ctx.ob('DRUM/event', fi, loop or fn, ok, 'each step holds the frozenset of the pitches struck there, and the track extends to that step' if ok else
         'a drum event is not the frozenset of the group\'s pitches stored at its step index (with set_length(index + 1))')


def drum_gap(ctx, rule='DRUM/gap'):
  """The track ends at the first hit that follows gap_bars whole bars of silence.  Silence starts at the step after the
  previous hit, so with  origin := <index of a stored hit> + c1  after every hit and the test  index - origin + c0 >= limit,
  the compared quantity is  index - previous index + (c0 - c1):  c0 - c1 must be -1 and the limit gap_bars * steps_per_bar.
  Decided in normal form, whatever the names and wherever the statements stand in the loop.  Shared with C06."""
  fi = ctx.func('drums_lib:DrumTrack.from_quantized_sequence')
  fn = fi.node
  loop = next((n for n in fn.body if isinstance(n, ast.For) and isinstance(n.target, ast.Tuple)), None)
  ctx.require(loop is not None, 'DrumTrack.from_quantized_sequence: group loop not found')
  st = [s for s in U.walk_stmts(loop) if isinstance(s, ast.Assign) and isinstance(s.targets[0], ast.Subscript) and norm_text(s.targets[0].value) == 'self._events']
  ctx.require(len(st) == 1 and isinstance(st[0].targets[0].slice, ast.Name), 'DrumTrack.from_quantized_sequence: event store not found')
  idx = st[0].targets[0].slice.id
  brk = [s for s in loop.body if isinstance(s, ast.If) and any(isinstance(x, ast.Break) for x in s.body)]
  ctx.require(len(brk) == 1, 'DrumTrack.from_quantized_sequence: expected one gap test with break, found %d' % len(brk))
  spb = [t.id for s2 in fn.body if isinstance(s2, ast.Assign) and any(norm_text(t) == 'self._steps_per_bar' for t in s2.targets) for t in s2.targets if isinstance(t, ast.Name)]
  ctx.require(len(spb) == 1, 'DrumTrack.from_quantized_sequence: the local steps-per-bar value was not found')
  # locals of one iteration (and hoisted constants of the function) are looked through
  env = {}
  for s2 in list(fn.body) + list(loop.body):
    if isinstance(s2, ast.Assign) and len(s2.targets) == 1 and isinstance(s2.targets[0], ast.Name) and s2.targets[0].id != idx and \
        sum(1 for x in U.walk_stmts(fn) for (t, _v, _o) in U.store_targets(x) if isinstance(t, ast.Name) and t.id == s2.targets[0].id) == 1:
      env[s2.targets[0].id] = s2.value
  verdict = None        # (ok, explanation) once the test was understood
  why = 'the gap test was not recognised'
  gnode = brk[0]
  for c in conj(brk[0].test):
    if not (isinstance(c, ast.Compare) and len(c.ops) == 1 and isinstance(c.ops[0], (ast.Lt, ast.LtE))):
      continue
    small, big = c.left, c.comparators[0]          # loader orientation:  small <(=) big
    try:
      lim = nf.Builder(dict(env)).rat(small)
      dist = nf.Builder(dict(env)).rat(big)
    except nf.NFError:
      continue
    if not lim.equals(nf.rat(E('gap_bars * %s' % spb[0]))):
      if any(isinstance(n, ast.Name) and n.id == 'gap_bars' for n in ast.walk(U.expand_locals(fn, small, None))):
        verdict = (False, 'the silence is compared with %s, not with gap_bars * steps_per_bar' % norm_text(small))
      continue
    strict = isinstance(c.ops[0], ast.Lt)
    # dist = idx - X + c0  for exactly one carried name X
    names = [n.id for n in ast.walk(big) if isinstance(n, ast.Name)] + [n.id for k in env for n in [ast.Name(id=k)] if False]
    cands = [s2 for s2 in U.walk_stmts(loop) if isinstance(s2, ast.Assign) and isinstance(s2.targets[0], ast.Name) and s2.lineno > brk[0].lineno]
    for upd in cands:
      X = upd.targets[0].id
      try:
        c0 = (dist - nf.rat(E(idx)) + nf.rat(E(X))).const_value()
        c1 = (nf.rat(upd.value) - nf.rat(E(idx))).const_value()
      except nf.NFError:
        continue
      if c0 is None or c1 is None:
        continue
      init = [s2 for s2 in fn.body if isinstance(s2, ast.Assign) and norm_text(s2.targets[0]) == X and s2.lineno < loop.lineno]
      eff = c0 - c1 - (1 if strict else 0)      # silence + eff >= limit   (a strict test `>` is `>= limit + 1`)
      ok = eff == -1
      verdict = (ok, 'the compared quantity is index - previous hit index %+d (%s %s after `%s`): whole bars of silence are index - previous index - 1' % (
          c0 - c1, norm_text(c).replace('\n', ' '), '' , norm_text(upd)))
      gnode = upd if not ok else brk[0]
      break
  if verdict is None:
    ctx.ob(rule, fi, gnode, False, 'the drum gap test was not recognised as index - origin >= gap_bars * steps_per_bar with an origin moved after every hit',
           construct='drum gap = index - (previous index + 1) >= gap_bars * steps_per_bar')
  else:
    ok, how = verdict
    ctx.ob(rule, fi, gnode, ok, 'silence is measured from the step after the previous hit and ends the track at gap_bars whole bars' if ok else
           '%s: hits exactly gap_bars bars apart end the track one step early or late' % how, construct='drum gap = index - (previous index + 1) >= gap_bars * steps_per_bar', definite=True)


def note_perf_limit(ctx, rule='SHIFT/note-limit'):
  """NotePerformance: a time shift of exactly max_shift_steps is representable; only larger ones are rejected.  Shared with C06."""
  fi = ctx.func('performance_lib:NotePerformance._from_quantized_sequence')
  rs = [s for s in U.walk_stmts(fi.node) if isinstance(s, ast.If) and any(isinstance(x, ast.Raise) and 'TooManyTimeShiftStepsError' in norm_text(x) for x in s.body)]
  ctx.require(len(rs) == 1, 'NotePerformance._from_quantized_sequence: the time-shift limit test was not found')
  shift = roles.assigned_where(fi.node, lambda v, st: isinstance(v, ast.BinOp) and isinstance(v.op, ast.Sub) and norm_text(v.left).endswith('.quantized_start_step'))
  ok = len(shift) == 1 and has(rs[0].test, '%s > self._max_shift_steps' % shift[0])
  ctx.ob(rule, fi, rs[0], ok, 'shifts of 1..max_shift_steps are accepted, larger ones raise' if ok else
         'the time-shift limit test is %s, not "shift > max_shift_steps": a shift of exactly max_shift_steps is rejected (or a larger one accepted)' % norm_text(rs[0].test),
         construct='NotePerformance: raise iff shift > max_shift_steps')
  dr = [s for s in U.walk_stmts(fi.node) if isinstance(s, ast.If) and any(isinstance(x, ast.Raise) and 'TooManyDurationStepsError' in norm_text(x) for x in s.body)]
  if dr:
    dur = roles.assigned_where(fi.node, lambda v, st: isinstance(v, ast.BinOp) and isinstance(v.op, ast.Sub) and norm_text(v.left).endswith('.quantized_end_step'))
    ok = len(dur) == 1 and has(dr[0].test, '%s > self._max_duration_steps' % dur[0])
    ctx.ob(rule, fi, dr[0], ok, 'durations of up to max_duration_steps are accepted' if ok else
           'the duration limit test is %s, not "duration > max_duration_steps"' % norm_text(dr[0].test), construct='NotePerformance: raise iff duration > max_duration_steps')


def _inline_nested(fi, expr, depth=3):
  return U.inline_nested(fi, expr, depth)


def metric_limit(ctx, rule='SHIFT/metric-limit'):
  """MetricPerformance computes max_shift_steps twice (for the extraction and for the base constructor that
  reports it); both must be steps_per_quarter * max_shift_quarters.  Shared with C06."""
  fi = ctx.func('performance_lib:MetricPerformance.__init__')
  vals = []
  for c in U.calls_in(fi.node):
    for k in c.keywords:
      if k.arg == 'max_shift_steps':
        vals.append((c, k.value))
  ctx.require(len(vals) >= 2, 'MetricPerformance.__init__: expected the shift limit to be passed to the extraction and to the base constructor')
  twins = ('self._steps_per_quarter', 'steps_per_quarter', 'quantized_sequence.quantization_info.steps_per_quarter')
  wants = [nf.rat(E('%s * max_shift_quarters' % t)) for t in twins]
  for c, v in vals:
    vx = U.expand_locals(fi.node, _inline_nested(fi, v), at=c)
    vx = _inline_nested(fi, vx)
    form = None
    try:
      form = nf.rat(vx)
      ok = any(form.equals(w) for w in wants)
    except nf.NFError:
      ok = False
    # located whatever the arrangement: a limit whose formula does not mention max_shift_quarters ignores the constructor's argument
    # ... provided the formula was read to the end: an atom that is a local of the constructor (assigned on more than one path, say) hides what it stands for
    local_names = set(t_.id for s_ in U.walk_stmts(fi.node) for t_, _v, _o in U.store_targets(s_) if isinstance(t_, ast.Name)) - set(fi.params())
    blind = form is not None and not ok and 'max_shift_quarters' not in form.atoms() and not (set(form.atoms()) & local_names)
    ctx.ob(rule, fi, c, ok, 'max_shift_steps = steps_per_quarter * max_shift_quarters' if ok else
           ('max_shift_steps is %s here, which does not depend on max_shift_quarters: with another value than the default, extracted shifts and the reported limit disagree' % norm_text(vx) if blind else
            'max_shift_steps is %s here, not steps_per_quarter * max_shift_quarters: extracted shifts and the reported limit disagree' % norm_text(v)),
           construct='MetricPerformance max_shift_steps @ %s' % norm_text(c.func), definite=blind)


def chords(ctx):
  fi = ctx.func('chords_lib:ChordProgression.from_quantized_sequence')
  fn = fi.node
  from rules import C10
  C10.carried_previous(ctx, fi, 'CHORD/previous-step', 'two chords are coincident when they start on the same step; a remembered step that was clamped (e.g. to the start of the range) '
                       'makes a chord on that step look coincident with an earlier chord carried in from before the range, and a spurious CoincidentChordsError is raised')
  loop = next((n for n in fn.body if isinstance(n, ast.For)), None)
  ctx.require(loop is not None, 'ChordProgression.from_quantized_sequence: loop not found')
  v = loop.target.id
  t = '%s.quantized_step' % v
  first = loop.body[0]
  ok = isinstance(first, ast.If) and has(first.test, '%s >= end_step' % t) and isinstance(first.body[-1], ast.Break)
  ctx.ob('CHORD/stop', fi, first, ok, 'chords at or after end_step end the scan' if ok else 'the scan does not stop at the first chord at or after end_step')
  second = first.orelse[0] if isinstance(first, ast.If) and first.orelse and isinstance(first.orelse[0], ast.If) else None
  ok = second is not None and has(second.test, '%s < start_step' % t) and isinstance(second.body[-1], ast.Continue) and len([x for x in second.body if isinstance(x, ast.Assign)]) == 2
  ctx.ob('CHORD/before-range', fi, second or loop, ok, 'a chord before start_step is remembered as the chord in force' if ok else 'chords before start_step are not remembered as the chord in force')
  co = next((s for s in loop.body if isinstance(s, ast.If) and isinstance(s.test, ast.Compare) and norm_text(s.test.left) == t and isinstance(s.test.ops[0], ast.Eq)), None)
  ok = co is not None and any(isinstance(x, ast.Raise) and 'CoincidentChordsError' in norm_text(x) for x in ast.walk(co)) and any(isinstance(x, ast.Continue) for x in ast.walk(co))
  ctx.ob('CHORD/coincident', fi, co or loop, ok, 'equal coincident chords are skipped, different ones raise CoincidentChordsError' if ok else 'coincident chords are not "skip if identical else raise"')
  em = next((s for s in loop.body if isinstance(s, ast.If) and has(s.test, '%s > start_step' % t)), None)
  ok = em is not None and any(norm_text(c.func) == 'self._add_chord' for c in U.calls_in(em))
  ctx.ob('CHORD/emit-previous', fi, em or loop, ok, 'when a chord inside the range arrives, the previous chord is written up to it' if ok else 'the previous chord is not written when the next chord (after start_step) arrives')
  tail = [s for s in fn.body if isinstance(s, ast.If) and any(norm_text(c.func) == 'self._add_chord' for c in U.calls_in(s))]
  ok = len(tail) == 1 and any('end_step - start_step' == norm_text(x.value) for x in tail[0].body if isinstance(x, ast.Assign))
  ctx.ob('CHORD/fill-to-end', fi, tail[0] if tail else fn, ok, 'the chord in force is extended to end_step' if ok else 'the last chord is not extended to end_step')
  ac = ctx.func('chords_lib:ChordProgression._add_chord')
  okc = any(norm_text(c.func) == 'self.set_length' and norm_text(c.args[0]) == ac.params()[3] for c in U.calls_in(ac.node)) and \
      any(isinstance(n, ast.For) and norm_text(n.iter) == 'range(%s, %s)' % (ac.params()[2], ac.params()[3]) for n in ast.walk(ac.node))
  ctx.ob('CHORD/add', ac, ac.node, okc, '_add_chord fills [start, end) with the figure' if okc else '_add_chord does not fill range(start, end) after set_length(end)')


MUTANTS = [
    Mutant('seed C07_d/C06_c: drum silence measured from the previous hit itself', 'note_seq/drums_lib.py', "      gap_start_index = start_index + 1\n", "      gap_start_index = start_index\n", rule='DRUM/gap'),
    Mutant('drum gap test strict', 'note_seq/drums_lib.py', "note_distance >= gap_bars * steps_per_bar", "note_distance > gap_bars * steps_per_bar", rule='DRUM/gap'),
    Mutant('seed C06_d: NotePerformance rejects a shift of exactly max_shift_steps', PL, "      if time_shift_steps > self._max_shift_steps:", "      if time_shift_steps >= self._max_shift_steps:", rule='SHIFT/note-limit'),
    Mutant('seed C07_c: MetricPerformance extracts with the default shift limit', PL, "          max_shift_steps=self._steps_per_quarter * max_shift_quarters,\n          instrument=instrument)", "          max_shift_steps=self._steps_per_quarter * DEFAULT_MAX_SHIFT_QUARTERS,\n          instrument=instrument)", rule='SHIFT/metric-limit'),
    Mutant('shift split loop not strict', PL, "        while step > current_step + max_shift_steps:", "        while step >= current_step + max_shift_steps:", rule='SHIFT/split-guard'),
    Mutant('full shift emits one step more', PL, "              PerformanceEvent(event_type=PerformanceEvent.TIME_SHIFT,\n                               event_value=max_shift_steps))\n          current_step += max_shift_steps", "              PerformanceEvent(event_type=PerformanceEvent.TIME_SHIFT,\n                               event_value=max_shift_steps + 1))\n          current_step += max_shift_steps", rule='SHIFT/full-amount'),
    Mutant('zero shifts emitted', PL, "      if step > current_step:\n        # Shift time forward from the current step to this event.", "      if step >= current_step:\n        # Shift time forward from the current step to this event.", rule='SHIFT/positive-only'),
    Mutant('remainder off by one', PL, "                             event_value=int(step - current_step)))", "                             event_value=int(step - current_step + 1)))", rule='SHIFT/remainder'),
    Mutant('velocity emitted for offsets too', PL, "        if not is_offset and velocity_bin != current_velocity_bin:", "        if velocity_bin != current_velocity_bin:", rule='VEL/'),
    Mutant('melody notes sorted lowest first', ML, "                   key=lambda note: (note.quantized_start_step, -note.pitch))", "                   key=lambda note: (note.quantized_start_step, note.pitch))", rule='KEYS/'),
    Mutant('melody notes unsorted', ML, "                   key=lambda note: (note.quantized_start_step, -note.pitch))", "                   key=lambda note: 0)", rule=None),
    Mutant('performance notes sorted by pitch', PL, "    sorted_notes = sorted(notes, key=lambda note: (note.start_time, note.pitch))\n\n    # Sort all note start and end events.", "    sorted_notes = sorted(notes, key=lambda note: (note.pitch, note.start_time))\n\n    # Sort all note start and end events.", rule=None),
    Mutant('polyphony raises ValueError', ML, "          self._reset()\n          raise PolyphonicMelodyError()", "          self._reset()\n          raise ValueError()", rule=None),
    Mutant('polyphonic onsets silently kept', ML, "        else:\n          self._reset()\n          raise PolyphonicMelodyError()\n      elif on_distance < 0:", "        else:\n          pass\n      elif on_distance < 0:", rule=None),
    Mutant('gap rule strict', ML, "      if len(self) and off_distance >= gap_bars * steps_per_bar:", "      if len(self) and off_distance > gap_bars * steps_per_bar:", rule='MEL/gap'),
    Mutant('melody not aligned to the search start', ML, "        (notes[0].quantized_start_step - search_start_step) % steps_per_bar)", "        notes[0].quantized_start_step % steps_per_bar)", rule='MEL/bar-alignment'),
    Mutant('chord error path reads a missing field', CL, "          (steps_per_bar_float, quantized_sequence.time_signatures[0].numerator,", "          (steps_per_bar_float, quantized_sequence.time_signature.numerator,", rule='API/'),
    Mutant('chords at end_step included', CL, "      if chord.quantized_step >= end_step:\n        # No more chords within range.\n        break", "      if chord.quantized_step > end_step:\n        # No more chords within range.\n        break", rule='CHORD/stop'),
    Mutant('coincident chords silently overwrite', CL, "          self._reset()\n          raise CoincidentChordsError(\n              'chords %s and %s are coincident' % (prev_figure, chord.text))", "          pass", rule=None),
    Mutant('drum groups unsorted', DL, "    notes = sorted(grouped_notes.items(), key=operator.itemgetter(0))", "    notes = list(grouped_notes.items())", rule=None),
    Mutant('drum event keeps one pitch only', DL, "      pitches = frozenset(note.pitch for note in group)", "      pitches = frozenset([group[0].pitch])", rule=None),
    Mutant('pianoroll painted in storage order', PR, "    for note in sorted(quantized_sequence.notes,\n                       key=lambda n: n.quantized_start_step):", "    for note in quantized_sequence.notes:", rule='ORD/'),
    # equivalent
    Mutant('remainder hoisted into a local', PL, "        performance_events.append(\n            PerformanceEvent(event_type=PerformanceEvent.TIME_SHIFT,\n                             event_value=int(step - current_step)))", "        remaining = step - current_step\n        performance_events.append(\n            PerformanceEvent(event_type=PerformanceEvent.TIME_SHIFT,\n                             event_value=int(remaining)))", expect='silent'),
    Mutant('split guard rearranged', PL, "        while step > current_step + max_shift_steps:", "        while step - current_step > max_shift_steps:", expect='silent'),
    Mutant('drum groups sorted with a lambda', DL, "    notes = sorted(grouped_notes.items(), key=operator.itemgetter(0))", "    notes = sorted(grouped_notes.items(), key=lambda kv: kv[0])", expect='silent'),
]

RENAME_FUNCS = [(PL, 'BasePerformance._from_quantized_sequence'), (ML, 'Melody.from_quantized_sequence'), (CL, 'ChordProgression.from_quantized_sequence'), (DL, 'DrumTrack.from_quantized_sequence')]

EXPLANATION += (' Shared with C06 / C09 for the performance renderers: GRID, ORIGIN/start-step-once, RENDER/note-off-ends-one, VEL/bin-size.' + ' Location-independent additions: ROLL/gap-index-in-range (a store into row O-1 needs 0 < O; found F26), ROLL/pitch-range-inclusive (boundary scenarios pitch == min/max +-1), CHORD/previous-step (a carried step is never a clamped constant), MEL/gap-bar-length, DRUM/gap normal form.')
EXPLANATION += (' Round 7: ' + 'PITFALL/falsy-domain-zero over the extractor modules; CHORD/symbols-all-read and the performance renderer rules shared with C06 / C09.')
EXPLANATION += (' Rounds 9-10: ' + 'PAD/next-bar-line (closing block of Melody / DrumTrack extraction evaluated on seven lengths); PITFALL/unforwarded-parameter, PITFALL/dead-parameter.')
EXPLANATION += (' Round 12: ' + 'MELODY/pitch-zero-is-a-note; PAD/next-bar-line finds the closing block under `if self._events:`.')
